#!/venv/bin/python
"""Run quick checks and report, per property: exit code, counts, and open known findings that did NOT fire."""
import json, os, subprocess, sys, time
VERIF = os.path.dirname(os.path.dirname(os.path.abspath(__file__)))
props = sys.argv[1:]
kf = json.load(open(os.path.join(VERIF, "known_findings.json")))["findings"]
for p in props:
    t0 = time.time()
    r = subprocess.run([os.path.join(VERIF, "check"), p], capture_output=True, text=True)
    lines = r.stdout.splitlines()
    summ = [l for l in lines if l.startswith(p + " ")]
    ev = json.load(open(os.path.join(VERIF, "evidence", p + ".json"))) if os.path.exists(os.path.join(VERIF, "evidence", p + ".json")) else {}
    seen = set(ev.get("coverage", {}).get("known_findings_seen", []))
    open_ = [e["signature"] for e in kf if e["property"] == p and e.get("status") == "open"]
    print(f"== {p} exit={r.returncode} {time.time()-t0:.0f}s {summ[-1] if summ else ''}")
    for l in lines:
        if l.startswith(("VIOLATION", "HARNESS", "  signature", "  detail")):
            print("   ", l[:300])
    notseen = [s for s in open_ if s not in seen]
    print(f"   open known: {len(open_)}, fired: {len(seen)}, NOT fired: {notseen}")
    sys.stdout.flush()
