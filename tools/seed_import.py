#!/venv/bin/python
"""Import seeded defects produced by an independent sub-agent and confirm them.

  tools/seed_import.py /tmp/atk_C04 C04

For every /tmp/atk_C04/_seed/<k>/ {patch.diff, demo.py, meta.json}: in a scratch copy of /repo (outside /repo and
/verif) confirm that (1) demo.py exits 0 on the clean tree, (2) the patch applies, (3) demo.py exits non-zero with
the patch, (4) the pinned baseline tests still all pass with the patch.  Only then it is stored as
/verif/seeded/<prop>-<k>/ with meta.json extended by what was run.  The scratch copy is removed.
"""
import json
import os
import shutil
import subprocess
import sys
import tempfile

VERIF = os.path.dirname(os.path.dirname(os.path.abspath(__file__)))


def run(cmd, **kw):
    return subprocess.run(cmd, capture_output=True, text=True, **kw)


def main():
    src, prop = sys.argv[1], sys.argv[2]
    seeds = sorted(d for d in os.listdir(os.path.join(src, "_seed")) if os.path.isdir(os.path.join(src, "_seed", d)))
    for k in seeds:
        sd = os.path.join(src, "_seed", k)
        name = f"{prop}-{k}"
        if not all(os.path.exists(os.path.join(sd, f)) for f in ("patch.diff", "demo.py", "meta.json")):
            print(f"{name}: incomplete, skipped")
            continue
        copy = tempfile.mkdtemp(prefix="jsa_seed_", dir="/tmp")
        try:
            subprocess.check_call(["rsync", "-a", "--exclude", ".git", "--exclude", "__pycache__", "--exclude", "sphinx",
                                   "--exclude", "_seed", "/repo/", copy + "/"])
            env = {**os.environ, "PYTHONPATH": copy, "PYTHONDONTWRITEBYTECODE": "1"}
            demo = os.path.join(sd, "demo.py")
            clean = run(["/venv/bin/python", demo], env=env, cwd="/tmp")
            ap = run(["patch", "-p1", "-s", "-d", copy, "-i", os.path.join(sd, "patch.diff")])
            changed = run(["/venv/bin/python", demo], env=env, cwd="/tmp")
            base = run(["/venv/bin/python", os.path.join(VERIF, "tools", "run_baseline.py"), copy])
            ok = clean.returncode == 0 and ap.returncode == 0 and changed.returncode != 0 and base.returncode == 0
            print(f"{name}: demo clean exit={clean.returncode} patch={ap.returncode} demo changed exit={changed.returncode} "
                  f"baseline={'OK' if base.returncode == 0 else 'BROKEN'} -> {'KEPT' if ok else 'REJECTED'}")
            if not ok:
                print("   ", (clean.stderr[-300:] if clean.returncode else ""), ap.stdout[-300:], base.stdout[-400:])
                continue
            dst = os.path.join(VERIF, "seeded", name)
            os.makedirs(dst, exist_ok=True)
            shutil.copy(os.path.join(sd, "patch.diff"), dst)
            shutil.copy(demo, dst)
            meta = json.load(open(os.path.join(sd, "meta.json")))
            meta = {
                "property": prop,
                "origin": "independent sub-agent given only the property text and a scratch worktree",
                **meta,
                "confirmed_by_coordinator": {
                    "ran": [
                        "rsync copy of /repo (HEAD incl. fix: commits) to a scratch dir under /tmp",
                        "PYTHONPATH=<copy> /venv/bin/python demo.py  (clean tree)",
                        "patch -p1 < patch.diff",
                        "PYTHONPATH=<copy> /venv/bin/python demo.py  (changed tree)",
                        "tools/run_baseline.py <copy>  (pinned suite vs BASELINE.json stable_pass)",
                    ],
                    "demo_clean_exit": clean.returncode,
                    "demo_changed_exit": changed.returncode,
                    "demo_changed_message": (changed.stderr.strip().splitlines() or changed.stdout.strip().splitlines() or [""])[-1][:300],
                    "baseline": base.stdout.strip().splitlines()[-1],
                },
            }
            json.dump(meta, open(os.path.join(dst, "meta.json"), "w"), indent=1)
        finally:
            shutil.rmtree(copy, ignore_errors=True)


if __name__ == "__main__":
    main()
