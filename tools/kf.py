#!/venv/bin/python
"""Maintain known_findings.json.

  tools/kf.py fix <property> <signature-regex> <commit>   mark matching open entries as fixed:<commit>
  tools/kf.py list [property]                              show entries
The "fixed" list of strings ("fixed: property=<id> <commit> <what failed>") is regenerated from the entries
with status fixed:<commit> plus the hand-written records of fixes that pre-date their check ("fixed_before_check").
"""
import json, os, re, sys
VERIF = os.path.dirname(os.path.dirname(os.path.abspath(__file__)))
P = os.path.join(VERIF, "known_findings.json")

def load():
    return json.load(open(P))

def save(d):
    d.setdefault("fixed_before_check", [])
    fixed = list(d["fixed_before_check"])
    for e in d["findings"]:
        st = e.get("status", "")
        if st.startswith("fixed:"):
            fixed.append(f"fixed: property={e['property']} {st[6:]} {e.get('text','')} [{e['signature']}]")
    d["fixed"] = fixed
    tmp = P + ".tmp"
    json.dump(d, open(tmp, "w"), indent=1, ensure_ascii=False)
    open(tmp, "a").write("\n")
    os.replace(tmp, P)

def main():
    cmd = sys.argv[1]
    d = load()
    if cmd == "fix":
        prop, rx, commit = sys.argv[2:5]
        n = 0
        for e in d["findings"]:
            if e["property"] == prop and e.get("status") == "open" and re.search(rx, e["signature"]):
                e["status"] = "fixed:" + commit
                n += 1
                print("fixed", prop, e["signature"], commit)
        if not n:
            print("NO MATCH", prop, rx)
        save(d)
    elif cmd == "list":
        for e in d["findings"]:
            if len(sys.argv) < 3 or e["property"] == sys.argv[2]:
                print(e["property"], e.get("status"), e["signature"])
    elif cmd == "init":
        if "fixed_before_check" not in d:
            d["fixed_before_check"] = d.get("fixed", [])
        save(d)

main()
