#!/venv/bin/python
"""Maintain known_findings.json.

  tools/kf.py fix <property> <signature-regex> <commit>   mark matching open entries as fixed:<commit>
  tools/kf.py list [property]                              show entries
  tools/kf.py add < entry.json                             append one entry (or a list of entries) read from stdin:
                                                           {"property","signature","text","witness"} (status open);
                                                           an open entry with the same property+signature is replaced
  tools/kf.py drop <property> <signature-regex>            remove matching OPEN entries (false alarms are never kept)
Every command holds an exclusive lock (known_findings.json.lock) for its read-modify-write, so several builders can
use it at the same time; never edit known_findings.json by hand while others are working.
The "fixed" list of strings ("fixed: property=<id> <commit> <what failed>") is regenerated from the entries
with status fixed:<commit> plus the hand-written records of fixes that pre-date their check ("fixed_before_check").
"""
import json, os, re, sys
VERIF = os.path.dirname(os.path.dirname(os.path.abspath(__file__)))
P = os.path.join(VERIF, "known_findings.json")

def load():
    return json.load(open(P))

def save(d):
    d.setdefault("fixed_before_check", [])
    fixed = list(d["fixed_before_check"])
    for e in d["findings"]:
        st = e.get("status", "")
        if st.startswith("fixed:"):
            fixed.append(f"fixed: property={e['property']} {st[6:]} {e.get('text','')} [{e['signature']}]")
    d["fixed"] = fixed
    tmp = P + ".tmp"
    json.dump(d, open(tmp, "w"), indent=1, ensure_ascii=False)
    open(tmp, "a").write("\n")
    os.replace(tmp, P)

def main():
    import fcntl
    lock = open(P + ".lock", "w")
    fcntl.flock(lock, fcntl.LOCK_EX)
    cmd = sys.argv[1]
    d = load()
    if cmd == "fix":
        prop, rx, commit = sys.argv[2:5]
        n = 0
        for e in d["findings"]:
            if e["property"] == prop and e.get("status") == "open" and re.search(rx, e["signature"]):
                e["status"] = "fixed:" + commit
                n += 1
                print("fixed", prop, e["signature"], commit)
        if not n:
            print("NO MATCH", prop, rx)
        save(d)
    elif cmd == "add":
        new = json.load(sys.stdin)
        for e in (new if isinstance(new, list) else [new]):
            assert {"property", "signature", "text"} <= set(e), "entry needs property, signature, text"
            e.setdefault("status", "open")
            d["findings"] = [x for x in d["findings"] if not (x["property"] == e["property"] and x["signature"] == e["signature"] and x.get("status") == "open")]
            d["findings"].append(e)
            print("added", e["property"], e["signature"])
        save(d)
    elif cmd == "drop":
        prop, rx = sys.argv[2:4]
        keep = [x for x in d["findings"] if not (x["property"] == prop and x.get("status") == "open" and re.search(rx, x["signature"]))]
        print("dropped", len(d["findings"]) - len(keep))
        d["findings"] = keep
        save(d)
    elif cmd == "list":
        for e in d["findings"]:
            if len(sys.argv) < 3 or e["property"] == sys.argv[2]:
                print(e["property"], e.get("status"), e["signature"])
    elif cmd == "init":
        if "fixed_before_check" not in d:
            d["fixed_before_check"] = d.get("fixed", [])
        save(d)

main()
