#!/venv/bin/python
"""Run the pinned test suite inside a copy/worktree of the repository and compare with BASELINE.json.

  tools/run_baseline.py <repo-dir>       -> prints "BASELINE OK" (exit 0) iff every stable_pass test still passes
"""
import json
import os
import subprocess
import sys
import tempfile
import xml.etree.ElementTree as ET


def main():
    d = os.path.abspath(sys.argv[1])
    fd, junit = tempfile.mkstemp(suffix=".xml", dir="/tmp")
    os.close(fd)
    env = {**os.environ, "PYTHONPATH": d, "PYTHONDONTWRITEBYTECODE": "1"}
    env.pop("JSONARGPARSE_VERIF", None)
    p = subprocess.run(
        ["/venv/bin/python", "-m", "pytest", "-q", "-p", "no:cacheprovider", "--timeout=900",
         "--continue-on-collection-errors", f"--junitxml={junit}"],
        cwd=d, capture_output=True, text=True, env=env)
    want = set(json.load(open("/root/.vp/BASELINE.json"))["stable_pass"])
    passed = set()
    try:
        for tc in ET.parse(junit).getroot().iter("testcase"):
            if not any(ch.tag in ("failure", "error", "skipped") for ch in tc):
                passed.add(f"{tc.get('classname')}::{tc.get('name')}")
    finally:
        os.unlink(junit)
    missing = sorted(want - passed)
    print(p.stdout.strip().splitlines()[-1] if p.stdout.strip() else p.stderr[-500:])
    if missing:
        print(f"BASELINE BROKEN: {len(missing)} of {len(want)} baseline tests no longer pass:")
        for m in missing[:15]:
            print("  ", m)
        return 1
    print(f"BASELINE OK: all {len(want)} baseline tests pass")
    return 0


if __name__ == "__main__":
    sys.exit(main())
