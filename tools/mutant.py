#!/venv/bin/python
"""Run checks against a mutated scratch copy of /repo (never touches /repo).

  tools/mutant.py m11a [m11b ...] [--check C11] [--tier quick] [--suite] [--keep]
  tools/mutant.py --patch seeded/S01/patch.diff --check C04 [--suite]
  tools/mutant.py --fix f01 --check C01         (entries of mutants/fix_candidates.py)

For every mutant: copy /repo to a scratch dir outside /repo and /verif, apply the change, optionally run the
pinned test suite there (--suite; the mutant must still pass the 1179 baseline tests), run
`VERIF_REPO=<scratch> ./check <Cxx>` and report whether a VIOLATION line was printed.  The copy is removed.
"""
import argparse
import json
import os
import shutil
import subprocess
import sys
import tempfile

VERIF = os.path.dirname(os.path.dirname(os.path.abspath(__file__)))
sys.path.insert(0, os.path.join(VERIF, "mutants"))


def load_catalogue():
    from candidates import CANDIDATES
    from fix_candidates import M as FIXES

    cat = {c[0]: {"prop": c[1], "file": c[2], "old": c[3], "new": c[4], "note": c[5]} for c in CANDIDATES}
    for f in FIXES:
        cat[f[0]] = {"prop": f[1], "file": f[2], "old": f[3], "new": f[4], "note": f[5]}
    import glob
    import importlib.util

    for path in sorted(glob.glob(os.path.join(VERIF, "mutants", "extra_C*.py"))):
        spec = importlib.util.spec_from_file_location(os.path.basename(path)[:-3], path)
        mod = importlib.util.module_from_spec(spec)
        try:
            spec.loader.exec_module(mod)
        except Exception as ex:  # a builder's file that is not plain data
            print(f"(skipping {path}: {ex})", file=sys.stderr)
            continue
        for c in getattr(mod, "CANDIDATES", []):
            cat.setdefault(c[0], {"prop": c[1], "file": c[2], "old": c[3], "new": c[4], "note": c[5]})
    return cat


def make_copy():
    d = tempfile.mkdtemp(prefix="jsa_mut_", dir="/tmp")
    subprocess.check_call(
        ["rsync", "-a", "--exclude", ".git", "--exclude", "__pycache__", "--exclude", "sphinx", "/repo/", d + "/"]
    )
    return d


def baseline_pass(copy):
    """Run the pinned suite in the copy; return (ok, summary). ok = every BASELINE stable_pass test passes."""
    junit = os.path.join(copy, "junit.xml")
    p = subprocess.run(
        ["/venv/bin/python", "-m", "pytest", "-q", "-p", "no:cacheprovider", "--timeout=900",  
         "--continue-on-collection-errors", f"--junitxml={junit}", "-o", "addopts="],
        cwd=copy, capture_output=True, text=True, env={**os.environ, "PYTHONPATH": copy, "PYTHONDONTWRITEBYTECODE": "1"},
    )
    import xml.etree.ElementTree as ET

    base = json.load(open("/root/.vp/BASELINE.json"))
    want = set(base["stable_pass"])
    passed = set()
    try:
        for tc in ET.parse(junit).getroot().iter("testcase"):
            if not any(ch.tag in ("failure", "error", "skipped") for ch in tc):
                passed.add(f"{tc.get('classname')}::{tc.get('name')}")
    except Exception as ex:
        return False, f"no junit ({ex}); tail: {p.stdout[-300:]}"
    missing = sorted(want - passed)
    return not missing, f"{len(want) - len(missing)}/{len(want)} baseline tests pass" + (f"; failing e.g. {missing[:3]}" if missing else "")


def main():
    ap = argparse.ArgumentParser()
    ap.add_argument("ids", nargs="*")
    ap.add_argument("--patch")
    ap.add_argument("--check", action="append")
    ap.add_argument("--tier", default="quick")
    ap.add_argument("--suite", action="store_true")
    ap.add_argument("--keep", action="store_true")
    ap.add_argument("--verbose", "-v", action="store_true")
    a = ap.parse_args()
    cat = load_catalogue()
    jobs = [("patch:" + a.patch, None)] if a.patch else [(i, cat[i]) for i in a.ids]
    rc = 0
    for name, m in jobs:
        copy = make_copy()
        try:
            if m is None:
                subprocess.check_call(["patch", "-p1", "-s", "-d", copy, "-i", os.path.abspath(a.patch)])
                props = a.check or []
            else:
                path = os.path.join(copy, "jsonargparse", m["file"])
                src = open(path).read()
                if src.count(m["old"]) != 1:
                    print(f"{name}: old text occurs {src.count(m['old'])} times - not applied")
                    rc = 2
                    continue
                open(path, "w").write(src.replace(m["old"], m["new"]))
                props = a.check or [m["prop"]]
            line = f"{name}"
            if a.suite:
                ok, summary = baseline_pass(copy)
                line += f" | suite: {'PASS' if ok else 'FAIL'} ({summary})"
            for prop in props:
                p = subprocess.run(
                    [os.path.join(VERIF, "check"), prop, "--tier", a.tier, "--jobs", os.environ.get("VERIF_JOBS", "4")],
                    capture_output=True, text=True, env={**os.environ, "VERIF_REPO": copy},
                )
                viol = [l for l in p.stdout.splitlines() if l.startswith("VIOLATION")]
                sigs = [l.strip() for l in p.stdout.splitlines() if l.strip().startswith("signature:")]
                verdict = "DETECTED" if p.returncode == 1 and viol else ("HARNESS-ERROR" if p.returncode == 2 else "silent")
                line += f" | {prop}: {verdict} exit={p.returncode} {sigs[:3]}"
                if a.verbose or p.returncode == 2:
                    print(p.stdout[-3000:], p.stderr[-2000:])
            print(line + (f" | {m['note']}" if m else ""))
            # replays written for a scratch copy are meaningless afterwards
        finally:
            if not a.keep:
                shutil.rmtree(copy, ignore_errors=True)
            else:
                print("kept", copy)
    return rc


if __name__ == "__main__":
    sys.exit(main())
