#!/bin/sh
# Run the thorough tier of the given checks one after another; one summary line per check.
# usage: tools/thorough_chain.sh JOBS C02 C03 ...
jobs=$1; shift
for p in "$@"; do
  start=$(date +%s)
  out=$(./check $p --tier thorough --jobs $jobs 2>&1)
  rc=$?
  end=$(date +%s)
  echo "== $p exit=$rc $((end-start))s $(echo "$out" | grep "^$p thorough" | tail -1)"
  echo "$out" | grep -E "^(VIOLATION|HARNESS|  signature|  detail)" | cut -c1-300
done
