#!/venv/bin/python
"""Re-generate the machine-assembled tail of DESIGN.md (idempotent):

  §16  per-property "as built" summaries  <- design_parts/CNN.md
  §17  which check catches which seeded change  <- seeded/*/meta.json + seeded/RESULTS.json

Everything above the marker line is hand-written and left untouched.
"""
import json
import os

VERIF = os.path.dirname(os.path.dirname(os.path.abspath(__file__)))
MARK = "<!-- GENERATED TAIL (tools/assemble_design.py) - do not edit below this line -->"


def main():
    path = os.path.join(VERIF, "DESIGN.md")
    text = open(path).read()
    head = text.split(MARK)[0].rstrip() + "\n\n"
    out = [MARK, "", "## 16. Per-property summaries, as built", "",
           "One block per property: explorer, enumerated space (with the counts of the last full run at the time of "
           "writing; the committed `evidence/CNN.json` has the current ones), oracle, interpretation, departures from "
           "the plan of §5, findings, false alarms corrected, detection, limits. The long build reports are `notes/CNN.md`.", ""]
    for i in range(1, 21):
        pid = f"C{i:02d}"
        p = os.path.join(VERIF, "design_parts", pid + ".md")
        if os.path.exists(p):
            out += [open(p).read().rstrip(), ""]
    res = json.load(open(os.path.join(VERIF, "seeded", "RESULTS.json")))
    out += ["## 17. Which check catches which seeded change", "",
            "Every directory `seeded/<id>/` holds one independent change to jsonargparse that breaks the named property, "
            "still imports, and still passes the repository's 1179 baseline tests (confirmed by the coordinator in a "
            "scratch copy, see `meta.json`). The table is the result of running the **registered quick command** of the "
            "property against a scratch copy of `/repo` with the change applied (`tools/seed_matrix.py`; `/repo` itself "
            "is never modified). *caught by* lists the signatures of the VIOLATION lines; `silent` means the quick tier "
            "does not see the change - nothing is claimed for it.", "",
            "| seed | what was changed | needs, in order to manifest | quick check verdict | caught by (signatures) |",
            "|---|---|---|---|---|"]
    tot = det = 0
    sd = os.path.join(VERIF, "seeded")

    def key(name):
        a, b = name.split("-")
        return a, int(b)
    for name in sorted((d for d in os.listdir(sd) if os.path.isdir(os.path.join(sd, d))), key=key):
        meta = json.load(open(os.path.join(sd, name, "meta.json")))
        prop = meta["property"]
        r = res.get(name, {})
        cell = r.get(prop + ":quick", {})
        verdict = cell.get("verdict", "not run")
        extra = ""
        th = r.get(prop + ":thorough")
        if verdict != "DETECTED" and th:
            extra = f" (thorough: {th.get('verdict')})"
        if verdict != "DETECTED" and meta.get("superseded_by_fix"):
            extra += " - superseded: " + meta["superseded_by_fix"].split(":")[0].split(" ")[0] + " repaired the defect this change exposed; its demonstration passes on the repaired tree"
        sigs = "; ".join(f"`{s[:90]}`" for s in cell.get("signatures", [])[:3])
        tot += 1
        det += verdict == "DETECTED"

        def cl(s, n):
            s = " ".join(str(s).replace("|", "/").split())
            return s if len(s) <= n else s[: n - 1] + "…"
        out.append(f"| {name} | {cl(meta.get('summary', ''), 260)} | {cl(meta.get('needs', ''), 220)} | {verdict}{extra} | {sigs} |")
    out += ["", f"{det} of {tot} seeded changes are reported by the quick tier of their property.", ""]
    open(path, "w").write(head + "\n".join(out) + "\n")
    print(f"DESIGN.md: tail regenerated ({det}/{tot} seeds detected)")


main()
