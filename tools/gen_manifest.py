#!/venv/bin/python
"""Regenerate /verif/MANIFEST.json from the META blocks of mc/checks/cNN.py (and validate it)."""
import importlib
import json
import os
import sys

VERIF = os.path.dirname(os.path.dirname(os.path.abspath(__file__)))
sys.path.insert(0, VERIF)

NOT_BUILT = "check not built yet in this round (planned, see DESIGN.md §5); not claimed until it exists and is silent on the unchanged tree"


def main():
    props = [json.loads(l) for l in open(os.path.join(VERIF, "properties.jsonl"))]
    na_path = os.path.join(VERIF, "not_applicable.json")
    na_reasons = json.load(open(na_path)) if os.path.exists(na_path) else {}
    checks, na, engines = [], [], {}
    accepted = set(json.load(open(os.path.join(VERIF, "accepted_checks.json"))))  # reviewed by the coordinator
    for p in props:
        pid = p["id"]
        modfile = os.path.join(VERIF, "mc", "checks", pid.lower() + ".py")
        if not os.path.exists(modfile) or pid in na_reasons or pid not in accepted:
            na.append({"property_id": pid, "reason": na_reasons.get(pid, NOT_BUILT)})
            continue
        meta = importlib.import_module(f"mc.checks.{pid.lower()}").META
        checks.append(
            {
                "property_id": pid,
                "quick_cmd": f"./check {pid} --tier quick",
                "thorough_cmd": f"./check {pid} --tier thorough",
                "evidence_file": f"/verif/evidence/{pid}.json",
                "replay_cmd_template": f"./check {pid} --replay {{path}}",
                "engine": meta.get("engine", "mc"),
                "level_claimed": {
                    "category": meta["level"],
                    "text": meta["level_text"],
                    "design_ref": meta.get("design_ref", f"DESIGN.md §5 {pid}"),
                },
                "level_note": meta["level_note"],
                "technique": meta["technique"],
            }
        )
        engines.setdefault(meta.get("engine", "mc"), []).append(pid)
    hooks_path = os.path.join(VERIF, "hooks.json")
    hooks = json.load(open(hooks_path)) if os.path.exists(hooks_path) else {}
    manifest = {
        "version": 1,
        "setup_cmd": "./setup.sh",
        "hooks": {
            "guard": "JSONARGPARSE_VERIF",
            "enable": "no source hooks are needed: every check drives the public API of /repo's working tree "
            "(sys.path[0]=$VERIF_REPO, default /repo) and interposes only on stdlib seams from the harness process",
            "baseline_off_cmd": "cd /repo && env -u JSONARGPARSE_VERIF /venv/bin/python -m pytest -ra -q -p no:cacheprovider "
            "--timeout=900 --continue-on-collection-errors",
            "source_commits": hooks.get("source_commits", []),
            "add_only": True,
        },
        "engines": [
            {"name": name, "path": "/verif/mc", "serves_properties": ids, "kind_free_text": name}
            for name, ids in engines.items()
        ],
        "checks": checks,
        "notes": "All checks are bounded exhaustive explorations of the real implementation (explicit-state search, "
        "bounded sequence/structure enumeration against reference models, exhaustive fault enumeration); see DESIGN.md. "
        "Exit 2 + HARNESS-ERROR means the machinery (not the property) failed. Known findings: known_findings.json.",
        "not_applicable": na,
    }
    out = os.path.join(VERIF, "MANIFEST.json")
    import jsonschema

    jsonschema.validate(manifest, json.load(open(os.path.join(VERIF, "schemas", "MANIFEST.schema.json"))))
    with open(out, "w") as f:
        json.dump(manifest, f, indent=1)
        f.write("\n")
    print(f"MANIFEST.json: {len(checks)} checks, {len(na)} not_applicable")


if __name__ == "__main__":
    main()
