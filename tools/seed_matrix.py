#!/venv/bin/python
"""Run each seeded defect (seeded/<CNN-k>/patch.diff) against the quick check of its property (scratch copy, never /repo).

  tools/seed_matrix.py [--par 4] [--tier quick] [--only C04 C11 ...] [--also CXX:seed-id ...]
Writes seeded/RESULTS.json: {seed: {check: {"verdict": "DETECTED|silent|HARNESS-ERROR|PATCH-FAILED", "signatures": [...]}}}
"""
import argparse, concurrent.futures, json, os, re, shutil, subprocess, tempfile
VERIF = os.path.dirname(os.path.dirname(os.path.abspath(__file__)))

def run(seed, prop, tier, jobs):
    copy = tempfile.mkdtemp(prefix="jsa_seedrun_", dir="/tmp")
    try:
        subprocess.check_call(["rsync", "-a", "--exclude", ".git", "--exclude", "__pycache__", "--exclude", "sphinx", "/repo/", copy + "/"])
        p = subprocess.run(["patch", "-p1", "-s", "-d", copy, "-i", os.path.join(VERIF, "seeded", seed, "patch.diff")], capture_output=True, text=True)
        if p.returncode != 0:
            return seed, prop, {"verdict": "PATCH-FAILED", "signatures": [], "detail": p.stdout[-300:]}
        r = subprocess.run([os.path.join(VERIF, "check"), prop, "--tier", tier, "--jobs", str(jobs)], capture_output=True, text=True,
                           env={**os.environ, "VERIF_REPO": copy})
        sigs = [l.strip()[11:] for l in r.stdout.splitlines() if l.strip().startswith("signature:")]
        viol = [l for l in r.stdout.splitlines() if l.startswith("VIOLATION")]
        verdict = "DETECTED" if r.returncode == 1 and viol else ("HARNESS-ERROR" if r.returncode == 2 else "silent")
        out = {"verdict": verdict, "signatures": sigs[:8], "exit": r.returncode}
        if verdict == "HARNESS-ERROR":
            out["detail"] = "\n".join(l for l in r.stdout.splitlines() if "HARNESS" in l)[:500]
        return seed, prop, out
    finally:
        shutil.rmtree(copy, ignore_errors=True)

def main():
    ap = argparse.ArgumentParser()
    ap.add_argument("--par", type=int, default=4)
    ap.add_argument("--jobs", type=int, default=4)
    ap.add_argument("--tier", default="quick")
    ap.add_argument("--only", nargs="*")
    ap.add_argument("--also", nargs="*", default=[])
    a = ap.parse_args()
    accepted = set(json.load(open(os.path.join(VERIF, "accepted_checks.json"))))
    todo = []
    for seed in sorted(os.listdir(os.path.join(VERIF, "seeded"))):
        if not os.path.isdir(os.path.join(VERIF, "seeded", seed)):
            continue
        prop = json.load(open(os.path.join(VERIF, "seeded", seed, "meta.json")))["property"]
        if a.only and prop not in a.only and seed not in a.only:
            continue
        if prop in accepted:
            todo.append((seed, prop))
    for x in a.also:
        prop, seed = x.split(":")
        todo.append((seed, prop))
    res_path = os.environ.get("SEED_RESULTS") or os.path.join(VERIF, "seeded", "RESULTS.json")  # SEED_RESULTS: separate file for a concurrent run (merge afterwards)
    res = json.load(open(res_path)) if os.path.exists(res_path) else {}
    with concurrent.futures.ThreadPoolExecutor(a.par) as ex:
        for seed, prop, out in ex.map(lambda t: run(t[0], t[1], a.tier, a.jobs), todo):
            res.setdefault(seed, {})[prop + ":" + a.tier] = out
            print(seed, prop, out["verdict"], out["signatures"][:3], out.get("detail", ""), flush=True)
            json.dump(res, open(res_path, "w"), indent=1, sort_keys=True)

main()
