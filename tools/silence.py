#!/venv/bin/python
"""Run the registered quick (or thorough) commands on the unchanged tree for several seeds; report exit codes.

  tools/silence.py [--tier quick] [--seeds 0 1 2] [C01 C02 ...]
Exit 0 iff every run exits 0 without a VIOLATION / HARNESS-ERROR line and rewrites a valid evidence file.
"""
import argparse
import json
import os
import subprocess
import sys
import time

VERIF = os.path.dirname(os.path.dirname(os.path.abspath(__file__)))


def main():
    ap = argparse.ArgumentParser()
    ap.add_argument("props", nargs="*")
    ap.add_argument("--tier", default="quick")
    ap.add_argument("--seeds", nargs="*", type=int, default=[0, 1, 2])
    a = ap.parse_args()
    man = json.load(open(os.path.join(VERIF, "MANIFEST.json")))
    bad = 0
    for c in man["checks"]:
        pid = c["property_id"]
        if a.props and pid not in a.props:
            continue
        cmd = c["quick_cmd"] if a.tier == "quick" else c["thorough_cmd"]
        for seed in a.seeds:
            ev = c["evidence_file"]
            if os.path.exists(ev):
                os.unlink(ev)
            t0 = time.time()
            p = subprocess.run(cmd, shell=True, cwd=VERIF, capture_output=True, text=True,
                               env={**os.environ, "VERIF_SEED": str(seed), "VERIF_TIER": a.tier})
            dt = time.time() - t0
            viol = [l for l in p.stdout.splitlines() if l.startswith(("VIOLATION", "HARNESS-ERROR"))]
            known = sum(1 for l in p.stdout.splitlines() if l.startswith("KNOWN-FINDING"))
            ok = p.returncode == 0 and not viol and os.path.exists(ev)
            counts = ""
            if os.path.exists(ev):
                e = json.load(open(ev))
                cov = e["coverage"]
                counts = f"eval={cov.get('evaluations')} states={cov.get('states')} trans={cov.get('transitions')} nontriv={cov.get('distinct_nontrivial')} exh={cov.get('exhaustive')}"
            print(f"{pid} seed={seed} exit={p.returncode} {'OK ' if ok else 'BAD'} {dt:6.1f}s known={known} {counts}")
            if not ok:
                bad += 1
                print("   ", "\n    ".join((viol or p.stdout.splitlines()[-5:] + p.stderr.splitlines()[-5:])[:8]))
    return 1 if bad else 0


if __name__ == "__main__":
    sys.exit(main())
