#!/bin/sh
# Offline setup: nothing is compiled or fetched; verify interpreter, imports and the binding to /repo.
cd "$(dirname "$0")" || exit 1
mkdir -p evidence replays
exec env PYTHONPATH="$(pwd)" PYTHONDONTWRITEBYTECODE=1 /venv/bin/python - <<'PY'
import sys
from mc.core import bind_repo
j = bind_repo()
import yaml, jsonschema
print("setup ok: python", sys.version.split()[0], "jsonargparse", j.__version__, "from", j.__file__)
PY
