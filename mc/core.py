"""Shared machinery: binding to the working tree, worker pool, deviations, known findings,
replay files, evidence.  Every check module under mc/checks/ is driven through `run_check`.

Contract of a check module (mc/checks/cNN.py):

    META = {                       # static description, used by tools/gen_manifest.py
        "id": "C11", "level": "model_checking", "technique": "...", "level_text": "...",
        "level_note": "...", "design_ref": "DESIGN.md §5 C11", "engine": "..."}
    def explore(ctx) -> None       # enumerates the bounded space; calls ctx.deviation(...), ctx.cover(...)
    def run_case(case) -> list     # re-executes ONE case (JSON value) on the real code and returns its
                                   # deviations [{"signature": str, "detail": str, ...}]; used for replay and
                                   # for the determinism re-check of every reported witness.

`ctx` (class Ctx below) offers: tier, seed, jobs, pmap(), deviation(), cover(), count(), sample(),
require() (vacuity guards), note().
"""
from __future__ import annotations

import contextlib
import hashlib
import importlib
import io
import json
import multiprocessing
import os
import random
import signal
import sys
import time
import traceback

VERIF = os.path.dirname(os.path.dirname(os.path.abspath(__file__)))
REPO = os.environ.get("VERIF_REPO", "/repo")
GUARD = "JSONARGPARSE_VERIF"

EXIT_OK, EXIT_VIOLATION, EXIT_HARNESS = 0, 1, 2


class HarnessError(Exception):
    """The machinery itself is broken or vacuous - never a verdict about the property."""


# ---------------------------------------------------------------------------------------------
# binding to the tree under test


def bind_repo():
    """Make `import jsonargparse` resolve to $VERIF_REPO's working tree and pin the process environment."""
    repo = os.path.realpath(REPO)
    if sys.path[0] != repo:
        sys.path.insert(0, repo)
    sys.dont_write_bytecode = True
    for k in list(os.environ):
        if k.startswith(("JSONARGPARSE_", "_ARGCOMPLETE", "APP_", "COMP_")) and k != GUARD:
            del os.environ[k]
    os.environ.update(TZ="UTC", LC_ALL="C.UTF-8", COLUMNS="80", LINES="24")
    os.environ.pop("NO_COLOR", None)
    os.umask(0o022)
    import jsonargparse

    where = os.path.realpath(jsonargparse.__file__)
    if not where.startswith(repo + os.sep):
        raise HarnessError(f"jsonargparse imported from {where}, expected under {repo}")
    return jsonargparse


def _worker_init(verif_path):
    if verif_path not in sys.path:
        sys.path.insert(1, verif_path)
    signal.signal(signal.SIGINT, signal.SIG_IGN)
    bind_repo()
    import warnings

    warnings.simplefilter("ignore")
    import logging

    logging.disable(logging.CRITICAL)


class Horizon(Exception):
    """Raised inside a case when it runs past its time horizon (termination clause)."""


@contextlib.contextmanager
def horizon(seconds):
    """Per-case time bound (SIGALRM; main thread of a worker only)."""

    def _raise(signum, frame):
        raise Horizon(f"no termination within {seconds}s")

    old = signal.signal(signal.SIGALRM, _raise)
    signal.setitimer(signal.ITIMER_REAL, seconds)
    try:
        yield
    finally:
        signal.setitimer(signal.ITIMER_REAL, 0)
        signal.signal(signal.SIGALRM, old)


@contextlib.contextmanager
def captured():
    """Capture sys.stdout / sys.stderr; stdin is an empty stream."""
    out, err = io.StringIO(), io.StringIO()
    saved = sys.stdout, sys.stderr, sys.stdin
    sys.stdout, sys.stderr, sys.stdin = out, err, io.StringIO("")
    try:
        yield out, err
    finally:
        sys.stdout, sys.stderr, sys.stdin = saved


def canon_json(x):
    return json.dumps(x, sort_keys=True, separators=(",", ":"), default=repr, ensure_ascii=True)


def case_id(case):
    return hashlib.sha1(canon_json(case).encode()).hexdigest()[:16]


# ---------------------------------------------------------------------------------------------
# the per-run context


class Ctx:
    def __init__(self, prop, tier, seed, jobs):
        self.prop, self.tier, self.seed, self.jobs = prop, tier, seed, jobs
        self.quick = tier == "quick"
        self.rng = random.Random(seed)  # ONLY for exploration order / shard assignment
        self.deviations = {}  # signature -> smallest deviation record
        self.deviation_count = 0
        self.coverage = {}
        self.counters = {}
        self.samples = []
        self.assumptions = []
        self.notes = []
        self.guards = []
        self._pool = None

    # -- parallel map over the real implementation ------------------------------------------
    def pool(self):
        if self._pool is None:
            mp = multiprocessing.get_context("spawn")
            self._pool = mp.Pool(self.jobs, initializer=_worker_init, initargs=(VERIF,))
        return self._pool

    def pmap(self, func, items, chunk=None):
        """Run module-level `func(item)` for every item in spawn workers; yields results (unordered).

        Order of execution is permuted by VERIF_SEED (verdicts must not depend on it)."""
        items = list(items)
        self.rng.shuffle(items)
        if not items:
            return
        if self.jobs <= 1:
            _worker_init(VERIF)
            for it in items:
                yield func(it)
            return
        if chunk is None:
            chunk = max(1, min(64, len(items) // (self.jobs * 8) or 1))
        yield from self.pool().imap_unordered(func, items, chunksize=chunk)

    def close(self):
        if self._pool is not None:
            self._pool.terminate()
            self._pool.join()
            self._pool = None

    # -- recording -----------------------------------------------------------------------------
    def deviation(self, signature, case, detail="", **extra):
        """Record that `case` deviates from the oracle.  Only the smallest case per signature is kept."""
        self.deviation_count += 1
        rec = {"signature": signature, "case": case, "detail": detail, **extra}
        size = len(canon_json(case))
        old = self.deviations.get(signature)
        if old is None or (size, canon_json(case)) < (old["_size"], canon_json(old["case"])):
            rec["_size"] = size
            rec["_count"] = (old["_count"] if old else 0) + 1
            self.deviations[signature] = rec
        else:
            old["_count"] += 1

    def deviations_from(self, case, devs):
        for d in devs or ():
            d = dict(d)
            self.deviation(d.pop("signature"), d.pop("case", case), d.pop("detail", ""), **d)

    def count(self, key, n=1):
        self.counters[key] = self.counters.get(key, 0) + n

    def cover(self, **kw):
        self.coverage.update(kw)

    def sample(self, case, limit=12):
        if len(self.samples) < limit:
            self.samples.append(case)

    def assume(self, text):
        if text not in self.assumptions:
            self.assumptions.append(text)

    def note(self, text):
        self.notes.append(text)

    def require(self, cond, what):
        """Vacuity guard: a run that does not reach what it claims to explore is a harness error."""
        self.guards.append(what)
        if not cond:
            raise HarnessError(f"vacuous: {what}")


# ---------------------------------------------------------------------------------------------
# known findings


def load_known(prop):
    path = os.path.join(VERIF, "known_findings.json")
    if not os.path.exists(path):
        return []
    with open(path) as f:
        data = json.load(f)
    return [e for e in data.get("findings", []) if e.get("property") == prop]


def _match_known(signature, known):
    for e in known:
        if e.get("status") == "open" and e.get("signature") == signature:
            return e
    return None


# ---------------------------------------------------------------------------------------------
# replay files


def write_replay(prop, rec):
    d = os.path.join(VERIF, "replays" if os.path.realpath(REPO) == "/repo" else os.path.join("scratch", "replays"), prop)
    os.makedirs(d, exist_ok=True)
    cid = case_id([rec["signature"], rec["case"]])
    path = os.path.join(d, cid + ".json")
    body = {k: v for k, v in rec.items() if not k.startswith("_")}
    body["property"] = prop
    body["occurrences"] = rec.get("_count", 1)
    body["replay_cmd"] = f"./check {prop} --replay {os.path.relpath(path, VERIF)}"
    with open(path, "w") as f:
        json.dump(body, f, indent=1, default=repr, sort_keys=True)
        f.write("\n")
    return path


def _rerun_case(args):
    modname, case = args
    mod = importlib.import_module(modname)
    try:
        devs = mod.run_case(case)
    except Exception:
        return ("error", traceback.format_exc())
    return ("ok", sorted({d["signature"] for d in devs or ()}))


def recheck(ctx, modname, rec):
    """Determinism proof for one witness: re-execute it twice, each time in a fresh process."""
    seen = []
    for _ in range(2):
        mp = multiprocessing.get_context("spawn")
        with mp.Pool(1, initializer=_worker_init, initargs=(VERIF,)) as p:
            seen.append(p.apply(_rerun_case, ((modname, rec["case"]),)))
    if seen[0] != seen[1]:
        raise HarnessError(f"nondeterministic replay of {rec['signature']}: {seen}")
    kind, sigs = seen[0]
    if kind != "ok":
        raise HarnessError(f"replay of {rec['signature']} crashed:\n{sigs}")
    if rec["signature"] not in sigs:
        raise HarnessError(
            f"witness of {rec['signature']} does not reproduce from a fresh process (got {sigs}); "
            "the exploration leaked state between cases"
        )


# ---------------------------------------------------------------------------------------------
# evidence


def write_evidence(ctx, meta, wall, violations, known_seen):
    cov = dict(ctx.coverage)
    cov.setdefault("samples", ctx.samples or ["(no sample recorded)"])
    cov["counters"] = dict(sorted(ctx.counters.items()))
    cov["vacuity_guards_passed"] = ctx.guards
    cov["known_findings_seen"] = known_seen
    cov["deviating_cases_total"] = ctx.deviation_count
    cov["deviation_signatures"] = sorted(ctx.deviations)
    if ctx.notes:
        cov["notes"] = ctx.notes
    ev = {
        "property_id": ctx.prop,
        "tier": ctx.tier,
        "seed": ctx.seed,
        "level": meta["level"],
        "coverage": cov,
        "assumptions": ctx.assumptions,
        "wall_s": round(wall, 2),
        "violations": violations,
        "repo": os.path.realpath(REPO),
    }
    _validate_evidence(ev)
    # evidence of runs against a scratch copy (VERIF_REPO != /repo: mutant and seed runs) is kept apart so that
    # the registered evidence files always describe /repo itself
    d = os.path.join(VERIF, "evidence") if os.path.realpath(REPO) == "/repo" else os.path.join(VERIF, "scratch", "evidence")
    os.makedirs(d, exist_ok=True)
    path = os.path.join(d, ctx.prop + ".json")
    tmp = path + ".tmp"
    with open(tmp, "w") as f:
        json.dump(ev, f, indent=1, default=repr)
        f.write("\n")
    os.replace(tmp, path)
    return path


def _validate_evidence(ev):
    schema_path = os.path.join(VERIF, "schemas", "EVIDENCE.schema.json")
    try:
        import jsonschema
    except ImportError:  # pragma: no cover
        return
    with open(schema_path) as f:
        schema = json.load(f)
    try:
        jsonschema.validate(json.loads(json.dumps(ev, default=repr)), schema)
    except jsonschema.ValidationError as ex:
        raise HarnessError(f"evidence does not validate: {ex.message}")
    cov = ev["coverage"]
    if cov.get("evaluations", 0) < 1 or cov.get("distinct_nontrivial", 0) < 2:
        raise HarnessError("evidence lacks evaluations / distinct_nontrivial counts")


# ---------------------------------------------------------------------------------------------
# driver


def run_check(prop, tier, seed, jobs, replay=None):
    modname = f"mc.checks.{prop.lower()}"
    mod = importlib.import_module(modname)
    meta = mod.META
    assert meta["id"] == prop

    if replay:
        return run_replay(mod, prop, replay)

    ctx = Ctx(prop, tier, seed, jobs)
    t0 = time.time()
    status = EXIT_OK
    # one scratch root per run, inherited by every worker (mc.util.scratch_root) and removed by the parent:
    # pool workers end through os._exit, so their own atexit clean-up never runs.
    import shutil
    import tempfile

    run_tmp = tempfile.mkdtemp(prefix=f"jsa_run_{prop}_", dir=os.environ.get("VERIF_TMP", "/tmp"))
    os.environ["VERIF_TMP"] = run_tmp
    try:
        return _run_check(mod, modname, meta, ctx, prop, tier, t0, status)
    finally:
        shutil.rmtree(run_tmp, ignore_errors=True)


def _run_check(mod, modname, meta, ctx, prop, tier, t0, status):
    try:
        bind_repo()
        known = load_known(prop)
        try:
            mod.explore(ctx)
        finally:
            ctx.close()
        violations, known_seen = [], []
        for sig in sorted(ctx.deviations):
            rec = ctx.deviations[sig]
            entry = _match_known(sig, known)
            if entry is not None:
                known_seen.append(sig)
                print(f"KNOWN-FINDING: property={prop} {entry.get('text', sig)} [{sig}; {rec['_count']} case(s)]")
            else:
                violations.append(rec)
        for rec in violations:
            recheck(ctx, modname, rec)
        path = write_evidence(ctx, meta, time.time() - t0, len(violations), known_seen)
        for rec in violations:
            rp = write_replay(prop, rec)
            print(f"VIOLATION property={prop} replay={rp}")
            print(f"  signature: {rec['signature']}")
            print(f"  case: {canon_json(rec['case'])[:600]}")
            if rec.get("detail"):
                print(f"  detail: {str(rec['detail'])[:800]}")
            print(f"  occurrences: {rec['_count']}")
            status = EXIT_VIOLATION
        cov = ctx.coverage
        print(
            f"{prop} {tier}: evaluations={cov.get('evaluations')} states={cov.get('states')} "
            f"transitions={cov.get('transitions')} distinct_nontrivial={cov.get('distinct_nontrivial')} "
            f"exhaustive={cov.get('exhaustive')} known={len(known_seen)} violations={len(violations)} "
            f"wall={time.time() - t0:.1f}s evidence={os.path.relpath(path, VERIF)}"
        )
    except HarnessError as ex:
        print(f"HARNESS-ERROR property={prop} {ex}")
        return EXIT_HARNESS
    except Exception:
        print(f"HARNESS-ERROR property={prop} unexpected exception in the machinery:")
        traceback.print_exc(file=sys.stdout)
        return EXIT_HARNESS
    return status


def run_replay(mod, prop, replay):
    path = replay if os.path.isabs(replay) else os.path.join(VERIF, replay)
    with open(path) as f:
        body = json.load(f)
    _worker_init(VERIF)
    devs = mod.run_case(body["case"]) or []
    sigs = sorted({d["signature"] for d in devs})
    print(f"replayed {path}")
    print(f"  case: {canon_json(body['case'])[:600]}")
    for d in devs:
        print(f"  deviation: {d['signature']}: {str(d.get('detail', ''))[:800]}")
    if body.get("signature") in sigs:
        print(f"VIOLATION property={prop} replay={path}")
        return EXIT_VIOLATION
    print("no deviation with the recorded signature on this tree")
    return EXIT_OK
