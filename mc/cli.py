"""./check <Cxx> [--tier quick|thorough] [--replay FILE] [--jobs N]"""
import argparse
import os
import sys


def main(argv=None):
    ap = argparse.ArgumentParser(prog="check")
    ap.add_argument("property")
    ap.add_argument("--tier", default=os.environ.get("VERIF_TIER", "quick"), choices=["quick", "thorough"])
    ap.add_argument("--replay")
    ap.add_argument("--jobs", type=int, default=int(os.environ.get("VERIF_JOBS", "0")) or (os.cpu_count() or 4))
    ap.add_argument("--seed", type=int, default=int(os.environ.get("VERIF_SEED", "0") or 0))
    a = ap.parse_args(argv)
    from mc.core import run_check

    return run_check(a.property.upper(), a.tier, a.seed, a.jobs, a.replay)


if __name__ == "__main__":
    sys.exit(main())
