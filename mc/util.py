"""Helpers shared by the checks: typed canonical forms, observation of one library call, scratch directories,
process-state snapshots.  Nothing here imports jsonargparse at module import time."""
from __future__ import annotations

import argparse
import contextlib
import enum
import io
import math
import os
import shutil
import sys
import tempfile

from mc.core import Horizon, horizon

# ---------------------------------------------------------------------------------------------------
# typed canonical form: equal iff same value AND same exact type at every level


def tcanon(v, _depth=0):
    """JSON-able canonical form that distinguishes 1 / 1.0 / True, tuple / list, Namespace / dict, nan == nan."""
    if _depth > 40:
        return ["<too deep>"]
    d = _depth + 1
    if v is None:
        return None
    t = type(v)
    if t is bool:
        return ["bool", v]
    if t is int:
        return ["int", str(v)]
    if t is float:
        if math.isnan(v):
            return ["float", "nan"]
        return ["float", repr(v)]
    if t is str:
        return v
    if t in (bytes, bytearray):
        return [t.__name__, v.hex()]
    if t is list:
        return ["list", [tcanon(x, d) for x in v]]
    if t is tuple:
        return ["tuple", [tcanon(x, d) for x in v]]
    if t in (set, frozenset):
        import json

        return [t.__name__, sorted((tcanon(x, d) for x in v), key=lambda c: json.dumps(c, sort_keys=True, default=repr))]
    if isinstance(v, argparse.Namespace):
        items = [(k[1:] if k[:1] == "\u200b" else k, tcanon(x, d)) for k, x in vars(v).items()]
        return [t.__name__, {k: x for k, x in sorted(items)}]
    if isinstance(v, dict):
        import json

        items = [(tcanon(k, d), tcanon(x, d)) for k, x in v.items()]
        items.sort(key=lambda kv: json.dumps(kv[0], sort_keys=True, default=repr))
        return [t.__name__, [[k, x] for k, x in items]]
    if isinstance(v, enum.Enum):
        return ["enum", t.__qualname__, v.name]
    if t is complex:
        return ["complex", tcanon(v.real, d), tcanon(v.imag, d)]
    mod = getattr(t, "__module__", "")
    if mod == "decimal":
        return ["Decimal", "nan" if v.is_nan() else str(v.normalize() if v.is_finite() else v)]
    if mod.startswith("jsonargparse") and t.__name__.startswith("Path"):
        return ["jsonargparse.Path", t.__name__, str(getattr(v, "relative", v)), getattr(v, "mode", None)]
    if mod == "pathlib":
        return ["pathlib", t.__name__, str(v)]
    if mod in ("datetime", "uuid") or t is range:
        return [t.__name__, repr(v)]
    if isinstance(v, type):
        return ["class", f"{v.__module__}.{v.__qualname__}"]
    if isinstance(v, (int, float, str)):  # subclasses of scalars (restricted types return base types normally)
        return [f"{mod}.{t.__qualname__}", repr(v)]
    if hasattr(v, "__dict__"):
        return ["obj", f"{mod}.{t.__qualname__}", {k: tcanon(x, d) for k, x in sorted(vars(v).items())}]
    return ["obj", f"{mod}.{t.__qualname__}", repr(v)]


def teq(a, b):
    return tcanon(a) == tcanon(b)


def jsonable(v):
    """Best-effort JSON rendering of a case component (for replay files / samples)."""
    import json

    try:
        json.dumps(v)
        return v
    except (TypeError, ValueError):
        return tcanon(v)


# ---------------------------------------------------------------------------------------------------
# one library call -> one observation


def outcome(fn, *args, horizon_s=20, **kwargs):
    """Run fn(*args, **kwargs) with stdout/stderr captured and stdin empty.

    Returns a dict with "kind" in:
      "ok"            value returned                           -> {"value": <object>}
      "ArgumentError" jsonargparse.ArgumentError raised        -> {"message": str}
      "exit"          SystemExit                               -> {"code": int, "stdout": str, "stderr": str}
      "timeout"       ran past the horizon (termination clause)
      "escape"        any other exception                      -> {"type": qualified name, "message": str}
    """
    import jsonargparse

    out, err = io.StringIO(), io.StringIO()
    saved = sys.stdout, sys.stderr, sys.stdin
    sys.stdout, sys.stderr, sys.stdin = out, err, io.StringIO("")
    try:
        try:
            with horizon(horizon_s):
                value = fn(*args, **kwargs)
            return {"kind": "ok", "value": value, "stdout": out.getvalue(), "stderr": err.getvalue()}
        except Horizon:
            return {"kind": "timeout"}
        except jsonargparse.ArgumentError as ex:
            return {"kind": "ArgumentError", "message": str(ex)}
        except SystemExit as ex:
            return {"kind": "exit", "code": ex.code, "stdout": out.getvalue(), "stderr": err.getvalue()}
        except RecursionError as ex:
            return {"kind": "escape", "type": "RecursionError", "message": str(ex)[:200]}
        except BaseException as ex:  # noqa: BLE001 - the point is to see everything that escapes
            if isinstance(ex, KeyboardInterrupt):
                raise
            return {"kind": "escape", "type": f"{type(ex).__module__}.{type(ex).__qualname__}", "message": str(ex)[:300]}
    finally:
        sys.stdout, sys.stderr, sys.stdin = saved


def outcome_key(o):
    """Typed, comparable summary of an outcome (values by tcanon; error texts dropped)."""
    if o["kind"] == "ok":
        return ["ok", tcanon(o["value"])]
    if o["kind"] == "exit":
        return ["exit", o["code"]]
    if o["kind"] == "escape":
        return ["escape", o["type"]]
    return [o["kind"]]


# ---------------------------------------------------------------------------------------------------
# scratch space (outside /repo and /verif), process-state snapshots

_scratch_root = None


def scratch_root():
    """Per-process scratch directory, removed at interpreter exit."""
    global _scratch_root
    if _scratch_root is None or not os.path.isdir(_scratch_root):
        import atexit

        _scratch_root = tempfile.mkdtemp(prefix=f"jsa_mc_{os.getpid()}_", dir=os.environ.get("VERIF_TMP", "/tmp"))
        atexit.register(shutil.rmtree, _scratch_root, True)
    return _scratch_root


@contextlib.contextmanager
def scratch_dir(chdir=False):
    """A fresh empty directory for one case; removed afterwards; optionally the cwd for the duration."""
    d = tempfile.mkdtemp(dir=scratch_root())
    old = os.getcwd()
    try:
        if chdir:
            os.chdir(d)
        yield d
    finally:
        os.chdir(old)
        shutil.rmtree(d, ignore_errors=True)


def process_state():
    """Snapshot of the process-global state the library must leave alone (C08/C09 and leak assertions)."""
    return {
        "cwd": os.getcwd(),
        "environ": dict(os.environ),
        "argparse.Namespace": argparse.Namespace,
        "stdio": (sys.stdin, sys.stdout, sys.stderr),
    }


@contextlib.contextmanager
def restored_process_state():
    """Run a case and put cwd / os.environ back afterwards, whatever the case did (harness hygiene)."""
    cwd, env = os.getcwd(), dict(os.environ)
    try:
        yield
    finally:
        os.chdir(cwd)
        if dict(os.environ) != env:
            os.environ.clear()
            os.environ.update(env)


def strip_bookkeeping(cfg):
    """Remove jsonargparse's metadata keys (__path__, __default_config__, __orig__) from a parsed config."""
    import jsonargparse

    return jsonargparse.strip_meta(cfg) if cfg is not None else cfg
