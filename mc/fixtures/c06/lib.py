"""Fixture classes for C06 (importable by class_path as mc.fixtures.c06.lib.<Name>).

Every parameter without a default is a REQUIRED key of the corresponding node; the schema the check uses is read
from these signatures with `inspect` / `dataclasses` only (mc/checks/c06_schema.py), never from jsonargparse.
No class takes **kwargs: `dict_kwargs` is the documented escape hatch and is not judged by C06.
Every mapping node kind has at least one key of three or more letters (`yaw`, `quo`, `mul`, `kap`, `vee`, `sub`,
`leaf`, `items`, `inner`, ...): the foreign-key name classes "truncated" (a defined key minus its last letter) and
"extended" (a defined key plus one letter) need a key whose truncation is itself not defined and is longer than one
letter (one-letter tokens occur in error texts by accident: "doesn't").

Construction axes (shapes `links`, `underscore`, `ungrouped`): `Src` is a source of argument links; the `U*` classes have
parameters whose NAME begins with an underscore - a required one is an ordinary required key, an optional one is
"internal and ignored" by the library's documented rule (the schema reader applies that rule, it does not ask the library).
"""
from dataclasses import dataclass
from typing import Dict, List, NotRequired, Optional, TypedDict, Union


@dataclass
class Pt:
    x: int
    yaw: int = 2


@dataclass
class Inner:
    p: int
    quo: str = "q"


@dataclass
class Outer:
    a: int
    inner: Inner
    b: int = 3


class Leaf:
    def __init__(self, n: int, mul: int = 0):
        self.n, self.mul = n, mul


class LeafB(Leaf):
    def __init__(self, n: int, kap: str = "k"):
        super().__init__(n)
        self.kap = kap


class Base:
    """Class-typed argument with a nested dataclass (dc) and a nested class (sub): init_args at two levels."""

    def __init__(self, r: int, dc: Pt, sub: Leaf, s: int = 1):
        self.r, self.dc, self.sub, self.s = r, dc, sub, s


class Sub(Base):
    def __init__(self, r: int, dc: Pt, sub: Leaf, t: int, s: int = 1):
        super().__init__(r, dc, sub, s)
        self.t = t


class Grp:
    """Used with add_class_arguments (class group)."""

    def __init__(self, g1: int, pt: Pt, leaf: Leaf, g2: int = 5):
        self.g1, self.pt, self.leaf, self.g2 = g1, pt, leaf, g2


class Box:
    """Containers of classes / dataclasses below init_args."""

    def __init__(self, items: List[Pt], leaves: List[Leaf], named: Dict[str, Pt], opt: Optional[Pt] = None):
        self.items, self.leaves, self.named, self.opt = items, leaves, named, opt


class TD(TypedDict):
    """A mapping with fixed keys validated by the type-hint code itself (no per-class parser)."""

    u: int
    vee: NotRequired[str]


PtOrInt = Union[Pt, int]


class Src:
    """Source of argument links (shape `links`): both parameters have defaults."""

    def __init__(self, size: int = 3, tag: str = "t"):
        self.size, self.tag = size, tag


@dataclass
class UPt:
    """Dataclass with a required underscore-named field and an optional (hidden) one."""

    _id: int
    nam: str = "n"
    _hid: int = 0


class UCl:
    def __init__(self, _end: int, tmo: int = 5, _cache: int = 0):
        self._end, self.tmo = _end, tmo


class UClB(UCl):
    def __init__(self, _end: int, _key: str, tmo: int = 5):
        super().__init__(_end, tmo)
        self._key = _key


class UGrp:
    """Class group whose required keys are underscore-named at every level."""

    def __init__(self, _g1: int, _upt: UPt, ucl: UCl, gg2: int = 5):
        self._g1, self._upt, self.ucl, self.gg2 = _g1, _upt, ucl, gg2
