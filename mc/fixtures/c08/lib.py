"""Fixture classes for C08 (imported only after jsonargparse is bound to the tree under test).

Every class keeps its constructor arguments as attributes, so that the object graph of an instantiated configuration
can be walked.  Signature defaults are deliberately mutable containers (lists, dicts, lists inside tuples), lazy
instances and one plain live instance -- the places where a parser can leak shared state.
"""
import dataclasses
import enum
from typing import Any, Dict, List, Optional, Tuple

from jsonargparse import lazy_instance


class E(enum.Enum):
    A = 1
    B = 2


@dataclasses.dataclass
class DC:
    x: int = 1
    ys: List[int] = dataclasses.field(default_factory=lambda: [1, 2])
    t: Tuple[List[E], int] = dataclasses.field(default_factory=lambda: ([E.A], 2))


@dataclasses.dataclass
class DCOuter:
    d: DC = dataclasses.field(default_factory=DC)
    ds: List[DC] = dataclasses.field(default_factory=list)


class Base:
    def __init__(self, xs: List[int] = [1, 2], tp: Tuple[List[E], str] = ([E.A], "a")):
        self.xs = xs
        self.tp = tp


class Sub(Base):
    def __init__(self, xs: List[int] = [3], tp: Tuple[List[E], str] = ([E.B], "b"), d: Dict[str, List[int]] = {"k": [1]}):
        super().__init__(xs, tp)
        self.d = d


class Other(Base):
    def __init__(self, n: int = 0, **kwargs):
        super().__init__()
        self.n = n
        self.kwargs = kwargs


LAZY_INNER = lazy_instance(Sub, xs=[7, 8])
LAZY_HOLDER_INNER = lazy_instance(Sub, xs=[9])
PLAIN_INSTANCE = Sub(xs=[5])


class Holder(Base):
    """A component that owns other components (nested class_path positions, also inside list / dict / tuple)."""

    def __init__(
        self,
        inner: Base = LAZY_HOLDER_INNER,
        items: List[Base] = [],
        named: Dict[str, Base] = {},
        pair: Optional[Tuple[Base, int]] = None,
    ):
        super().__init__()
        self.inner = inner
        self.items = items
        self.named = named
        self.pair = pair


class Outer:
    """Added with add_class_arguments: parameters whose defaults are containers, a lazy instance, a live instance."""

    def __init__(
        self,
        inner: Base = LAZY_INNER,
        plain: Base = PLAIN_INSTANCE,
        lst: List[int] = [1, 2],
        dct: Dict[str, int] = {"a": 1},
        tl: Tuple[List[int], int] = ([1], 2),
        anything: Any = None,
    ):
        self.inner = inner
        self.plain = plain
        self.lst = lst
        self.dct = dct
        self.tl = tl
        self.anything = anything


DEFAULT_INSTANCES = [LAZY_INNER, LAZY_HOLDER_INNER, PLAIN_INSTANCE]
FIXTURE_CLASSES = (DC, DCOuter, Base, Outer)


def reset():
    """Put fresh default objects into every fixture signature and default instance.

    Called by the harness before every case: the library is known to rewrite containers that sit inside tuples of
    such defaults (C08 finding), and a case must never start from what an earlier case left behind."""
    Base.__init__.__defaults__ = ([1, 2], ([E.A], "a"))
    Sub.__init__.__defaults__ = ([3], ([E.B], "b"), {"k": [1]})
    Other.__init__.__defaults__ = (0,)
    Holder.__init__.__defaults__ = (LAZY_HOLDER_INNER, [], {}, None)
    Outer.__init__.__defaults__ = (LAZY_INNER, PLAIN_INSTANCE, [1, 2], {"a": 1}, ([1], 2), None)
    LAZY_INNER._lazy_kwargs = {"xs": [7, 8]}
    LAZY_HOLDER_INNER._lazy_kwargs = {"xs": [9]}
    PLAIN_INSTANCE.xs = [5]
    PLAIN_INSTANCE.tp = ([E.B], "b")
    PLAIN_INSTANCE.d = {"k": [1]}


def upper(v):
    """compute_fn of a link"""
    return [x + 100 for x in v] if isinstance(v, list) else v


def hexint(v):
    """A user-written converter given as type= of a plain argparse action (not a type hint: the argument stays an
    argparse store action).  Converts hexadecimal text, passes integers through, rejects everything else."""
    if isinstance(v, bool) or not isinstance(v, (str, int)):
        raise ValueError(f"not a hexadecimal number: {v!r}")
    return int(v, 16) if isinstance(v, str) else v
