"""Fixture classes for C10 (importable as mc.fixtures.c10.lib so that class_path values resolve).

The module is imported only from inside functions, after the process has been bound to the tree under test
(`lazy_instance` comes from that tree)."""

import dataclasses
import enum
import pathlib
from typing import Dict, List, Optional, Tuple, Union


class E(enum.Enum):
    A = 1
    B = 2


# members whose *names* are what a YAML reader takes for null / bool
EY = enum.Enum("EY", ["null", "true", "on", "no", "y"])
EY.__module__ = __name__
EY.__qualname__ = "EY"


class ES(str, enum.Enum):
    """The common `class Mode(str, Enum)` idiom: every member IS a str instance."""

    A = "a"
    B = "b"


class Money:
    """A user type registered with jsonargparse.typing.register_type (serializer str, deserializer parse)."""

    def __init__(self, cents: int):
        self.cents = cents

    @staticmethod
    def parse(text):
        if isinstance(text, Money):
            raise TypeError("already a Money")  # the library must not deserialise twice
        if isinstance(text, bool) or not isinstance(text, (str, int)):
            raise ValueError(f"not an amount: {text!r}")
        text = str(text).strip()
        if not text.endswith("c") or not text[:-1].lstrip("-").isdigit():
            raise ValueError(f"not an amount: {text!r}")
        return Money(int(text[:-1]))

    def __str__(self):
        return f"{self.cents}c"

    def __repr__(self):
        return f"Money({self.cents})"

    def __eq__(self, other):
        return isinstance(other, Money) and other.cents == self.cents

    def __hash__(self):
        return hash(("Money", self.cents))


# ------------------------------------------------------------------------------------------------
# dataclasses


@dataclasses.dataclass
class Point:
    x: int = 1
    label: str = "p"
    w: Optional[float] = None


@dataclasses.dataclass
class Outer:
    p: Point = dataclasses.field(default_factory=Point)
    tags: List[str] = dataclasses.field(default_factory=lambda: ["t"])
    n: int = 3


@dataclasses.dataclass
class Mixed:
    """Defaults written the way users write them: an int for a float field, typed objects elsewhere."""

    f: float = 1
    e: E = E.A
    t: Tuple[int, str] = (1, "a")
    where: pathlib.Path = pathlib.Path("w/x")
    opt: Optional[E] = None


@dataclasses.dataclass
class Req:
    """A required field (no default) next to defaulted ones."""

    r: int
    s: str = "s"


# ------------------------------------------------------------------------------------------------
# classes for class-typed arguments


class Inner:
    def __init__(self, v: float = 0.5, name: str = "in"):
        self.v = v
        self.name = name


class Base:
    def __init__(self, a: int = 1):
        self.a = a


class SubA(Base):
    def __init__(self, a: int = 2, s: str = "x", opt: Optional[str] = None):
        super().__init__(a)
        self.s = s
        self.opt = opt


class SubB(Base):
    def __init__(self, inner: Optional[Inner] = None, items: List[int] = [1, 2], u: Union[int, str] = "u", **kwargs):  # noqa: B006
        super().__init__(**kwargs)
        self.inner = inner
        self.items = items
        self.u = u


class SubC(Base):
    """Required init argument without default and a dict/tuple."""

    def __init__(self, req: str, d: Dict[str, int] = {"k": 1}, t: Tuple[int, str] = (1, "a")):  # noqa: B006
        super().__init__()
        self.req = req
        self.d = d
        self.t = t


class SubD(Base):
    """Signature defaults in user style: int for float, enum member, pathlib object, tuple, set."""

    def __init__(
        self,
        lr: float = 1,
        mode: E = E.B,
        where: pathlib.Path = pathlib.Path("w"),
        size: Tuple[int, int] = (1, 2),
        tags: Optional[set] = None,
        ratio: Optional[float] = None,
    ):
        super().__init__()
        self.lr, self.mode, self.where, self.size, self.tags, self.ratio = lr, mode, where, size, tags, ratio


class SubK(Base):
    """Accepts arbitrary keyword arguments (dict_kwargs in the configuration)."""

    def __init__(self, a: int = 3, **kwargs):
        super().__init__(a)
        self.extra = kwargs


def _lazy(cls, **kw):
    from jsonargparse import lazy_instance

    return lazy_instance(cls, **kw)


class Holder:
    """Nested class-typed parameters, one with a lazy-instance default."""

    def __init__(self, child: Base = _lazy(SubA, a=7), other: Optional[Base] = None, k: int = 0):  # noqa: B008
        self.child, self.other, self.k = child, other, k


# ------------------------------------------------------------------------------------------------
# callables


def fn_a(x: int) -> int:
    return x + 1


def fn_b(x: int) -> int:
    return x * 2


class Scale:
    """A class whose instances are callable."""

    def __init__(self, factor: float = 1):
        self.factor = factor

    def __call__(self, x: int) -> int:
        return int(x * self.factor)


def make_point(x: int = 2, scale: float = 1, label: Optional[str] = None):
    """Target of add_function_arguments."""
    return (x, scale, label)


NOT_A_CLASS = 5
