"""Fixture classes / functions for C03 (importable by class_path as mc.fixtures.c03.lib.<Name>)."""
from dataclasses import dataclass, field
from enum import Enum
from typing import Optional


class Color(Enum):
    red = 1
    blue = 2


class Base:
    def __init__(self, a: int = 1):
        self.a = a


class Sub1(Base):
    def __init__(self, a: int = 1, b: str = "x"):
        super().__init__(a)
        self.b = b


class Sub2(Base):
    """Takes another Base (nesting) and arbitrary keyword arguments (dict_kwargs)."""

    def __init__(self, inner: Optional[Base] = None, c: float = 0.5, **kwargs):
        super().__init__()
        self.inner, self.c, self.kwargs = inner, c, kwargs


class Other:
    """Not a subclass of Base."""

    def __init__(self, z: int = 0):
        self.z = z


def func(x: int) -> int:
    return x


def make_base(a: int = 2) -> Base:
    return Base(a)


not_a_class = 3


@dataclass
class Inner:
    v: int = 1
    w: Optional[str] = None


@dataclass
class DC:
    x: int = 1
    y: str = "a"
    inner: Inner = field(default_factory=Inner)


def double(v):
    """compute_fn of a link; fails on non-numbers (the failure must surface as a parse error)."""
    return v * 2


def strict_int(v):
    if not isinstance(v, int) or isinstance(v, bool):
        raise ValueError(f"strict_int got {v!r}")
    return v + 1
