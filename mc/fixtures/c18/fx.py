"""Fixture types for C18 (importable as mc.fixtures.c18.fx; jsonargparse imports the classes by class_path).

Tok is a user type registered with jsonargparse (`ensure_registered`): its serialiser raises for marked values,
which is how the check makes the serialisation of one chosen value fail while the value stays *valid*."""
import dataclasses
import enum


class Tok:
    def __init__(self, s):
        self.s = s

    def __eq__(self, other):
        return isinstance(other, Tok) and other.s == self.s

    def __hash__(self):
        return hash(("Tok", self.s))

    def __repr__(self):
        return f"Tok({self.s!r})"


BOOM = {"boom": RuntimeError, "boomV": ValueError, "boomT": TypeError}


def tok_serializer(v):
    if v.s in BOOM:
        raise BOOM[v.s](f"Tok {v.s!r} cannot be serialised (injected by the C18 harness)")
    return "tok:" + v.s


def tok_deserializer(s):
    if not isinstance(s, str) or not s.startswith("tok:"):
        raise ValueError(f"not a Tok text: {s!r}")
    return Tok(s[4:])


def ensure_registered():
    from jsonargparse.typing import register_type

    register_type(Tok, tok_serializer, tok_deserializer)


class Opaque:
    """A value that passes every per-argument serialiser that lets values through unchanged (e.g. an `Any`-typed
    option, or any option when validation is switched off) but that no dumper (yaml / json) can represent: the failure
    happens in the *dumper*, after the per-argument serialisation pass."""

    def __repr__(self):
        return "Opaque()"


class E(enum.Enum):
    A = 1
    B = 2
    C = 3  # a member that no input file and no default uses (value of an edit after loading)


class Base:
    def __init__(self, k: int = 1):
        self.k = k


class Plain(Base):
    def __init__(self, k: int = 1, name: str = "n"):
        super().__init__(k)
        self.name = name


class Sub(Base):
    def __init__(self, k: int = 1, t: Tok = Tok("d"), e: E = E.A):
        super().__init__(k)
        self.t, self.e = t, e


@dataclasses.dataclass
class DC:
    u: int = 1
    v: str = "v"
