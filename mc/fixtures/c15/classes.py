"""Fixture classes and compute functions for C15 (importable by class_path as mc.fixtures.c15.classes.<Name>).

Nothing here has behaviour: constructors only store; the link machinery is judged on configurations, never on
instances.  Compute functions are injective on the value alphabet of the check, so a target computed from a stale
(non-final) source value is always distinguishable from the correct one.
"""
from typing import Any, Dict, List, Mapping, Optional


class Data:
    """Class group holding link sources."""

    def __init__(self, n: int = 3, m: int = 4):
        self.n, self.m = n, m


class Model:
    """Class group whose parameter `k` (no default -> required unless linked) is a link target."""

    def __init__(self, k: int, free: int = 7):
        self.k, self.free = k, free


class ModelD:
    """Class group whose parameter `d` is a dict-typed link target (group-valued source)."""

    def __init__(self, d: Dict[str, int], free: int = 7):
        self.d, self.free = d, free


class DataL:
    """Class group holding a list-typed link source."""

    def __init__(self, n: List[int] = [3], m: int = 4):  # noqa: B006 - never mutated, jsonargparse copies defaults
        self.n, self.m = n, m


class ModelL:
    """Class group whose list-typed parameter `k` is a link target: its option has the append spelling --model.k+."""

    def __init__(self, k: List[int], free: int = 7):
        self.k, self.free = k, free


class Base:
    """Class-typed argument; `k` (required) is the link target."""

    def __init__(self, k: int, other: int = 0):
        self.k, self.other = k, other


class Derived(Base):
    def __init__(self, k: int, extra: int = 5):
        super().__init__(k)
        self.extra = extra


class DefK(Base):
    """`k` has a default of its own: the link must still win over it."""

    def __init__(self, k: int = 77, other: int = 0):
        super().__init__(k, other)


class NoK(Base):
    """Does not define the targeted parameter: the documentation says the link is then ignored."""

    def __init__(self, other: int = 0):
        super().__init__(0, other)


class OptK(Base):
    """`k` admits None (Optional) and has a default of its own: a link whose source ends as None must set it to None."""

    def __init__(self, k: Optional[int] = 5, other: int = 0):
        super().__init__(k or 0, other)


class SrcN:
    """Class-typed argument whose parameter `lim` is a link source that admits None; signature default None."""

    def __init__(self, lim: Optional[int] = None, name: int = 0):
        self.lim, self.name = lim, name


class SrcV:
    """Same, signature default 1 (= the `default` channel value of source leaf 0)."""

    def __init__(self, lim: Optional[int] = 1, name: int = 0):
        self.lim, self.name = lim, name


class Holder:
    """Class group with a class-typed parameter and a list-of-classes parameter (targets below a group)."""

    def __init__(self, save: int = 1, one: Optional[Base] = None, many: Optional[List[Base]] = None):
        self.save, self.one, self.many = save, one, many


def f1(a):
    return a * 10 + 1


def f2(a, b):
    return a * 1000 + b


def fgroup(g):
    """Group-valued source (a Namespace or dict with keys n, m) -> int."""
    return g["n"] * 1000 + g["m"]


def fgroup_dict(g: dict):
    """Annotated `dict`: jsonargparse hands the group over as a dict."""
    assert isinstance(g, dict), type(g)
    return g["n"] * 1000 + g["m"]


def fspec(x):
    """Whole class spec (Namespace or dict with class_path / init_args) as source -> int."""
    if x is None:
        return 7
    init = x["init_args"]
    return (init.get("k") or 0) * 100 + (init.get("other") or 0) * 10 + 2


def fopt(a):
    """Optional[int] -> int; total on None (a None-valued source is a value like any other), injective."""
    return -7 if a is None else a * 10 + 1


def fbad(a):
    """Ill-typed result for an int target (the documentation requires a value compatible with the target)."""
    return "v" + str(a)


def fhalf(g):
    """Reads only member m of a group-valued source."""
    return g["m"] * 10 + 3


def flist(a):
    """List of ints -> list of ints (injective)."""
    return [x * 10 + 1 for x in a]


def fnot(a):
    return not a


# Links with SEVERAL sources of which some are group-valued (family `mix`): a parameter annotated as a mapping
# (dict / Dict[...] / Mapping[...]) is documented to receive the group as a plain dict, whatever its position among
# the sources; an unannotated one receives the Namespace (both support g["n"]).  `_gd` makes the kind of object
# that arrived visible in the result (999 is no value n * 10 + m can take on the alphabet of the check); the
# reference model calls the same functions with plain dicts.


def _gd(g):
    return g["n"] * 10 + g["m"] if type(g) is dict else 999


def _gn(g):
    return g["n"] * 10 + g["m"]


def mix_s_gd(s: int, g: dict):
    return s * 1000 + _gd(g)


def mix_gd_s(g: Dict[str, int], s: int):
    return _gd(g) * 1000 + s


def mix_s_gn(s: int, g):
    return s * 1000 + _gn(g)


def mix_gn_s(g, s: int):
    return _gn(g) * 1000 + s


def mix_gd_gd(g: Mapping[str, Any], h: dict):
    return _gd(g) * 1000 + _gd(h)


def mix_gd_gn(g: Dict[str, Any], h):
    return _gd(g) * 1000 + _gn(h)


def mix_gn_gd(g, h: Dict[str, int]):
    return _gn(g) * 1000 + _gd(h)


def mix_s_s_gd(s: int, s2: int, g: dict):
    return (s * 100 + s2) * 1000 + _gd(g)


def mix_s_gn_gd(s: int, g, h: Mapping[str, int]):
    return (s * 1000 + _gn(g)) * 1000 + _gd(h)


def mix_gd_s_gd(g: dict, s: int, h: dict):
    return (_gd(g) * 100 + s) * 1000 + _gd(h)


FUNCS = {"fopt": fopt, "flist": flist, "fnot": fnot, "f1": f1, "f2": f2, "fgroup": fgroup, "fgroup_dict": fgroup_dict, "fspec": fspec, "fbad": fbad, "fhalf": fhalf}
FUNCS.update({f.__name__: f for f in (mix_s_gd, mix_gd_s, mix_s_gn, mix_gn_s, mix_gd_gd, mix_gd_gn, mix_gn_gd, mix_s_s_gd,
                                       mix_s_gn_gd, mix_gd_s_gd)})
