"""Fixture classes for C09 (imported by class_path, so they live in a real module).

Plain Python: nothing here uses jsonargparse, so importing the module keeps the process pristine."""
from dataclasses import dataclass, field
from typing import Any, Dict, Optional


class Base:
    def __init__(self, a: int = 1):
        if a < 0:
            raise ValueError("a must not be negative")
        self.a = a


class Sub(Base):
    """Forwards **kwargs to the base class (parameters are resolved through the MRO at parse time)."""

    def __init__(self, b: str = "x", **kwargs):
        super().__init__(**kwargs)
        self.b = b


class Other(Base):
    def __init__(self, c: float = 0.5):
        super().__init__()
        self.c = c


class BadDefault(Base):
    """The default of q does not conform to its annotation (only seen when class defaults are filled in)."""

    def __init__(self, q: int = "oops"):  # type: ignore[assignment]
        super().__init__()
        self.q = q


class Holder:
    """Has a nested class-typed parameter (links can target holder.init_args.inner.init_args.a)."""

    def __init__(self, inner: Base, k: int = 0):
        self.inner = inner
        self.k = k


class Unrelated:
    def __init__(self, z: int = 0):
        self.z = z


@dataclass
class Opts:
    lr: float = 0.1
    steps: int = 3


@dataclass
class Pt:
    """Dataclass with two defaulted fields: a PARTIAL value ({"a": 6}) is completed from the defaults (world dcl)."""

    a: int = 1
    b: int = 2


@dataclass
class Nest:
    """Dataclass with a nested dataclass field."""

    k: int = 0
    inner: Pt = field(default_factory=Pt)


class DcUser:
    """Signature with dataclass-like values INSIDE type hints (Optional[Pt], Optional[Nest]) and a plain dataclass
    parameter (expanded into a nested group)."""

    def __init__(self, d: Optional[Pt] = None, e: Pt = Pt(a=3, b=4), n: Optional[Nest] = None):
        self.d = d
        self.e = e
        self.n = n


class Net:
    """An init argument whose default is None next to a plain one (world dmp: None-valued defaults at every level)."""

    def __init__(self, width: int = 8, ckpt: Optional[str] = None):
        self.width = width
        self.ckpt = ckpt


class WideNet(Net):
    def __init__(self, depth: int = 2, tag: Optional[str] = None, **kwargs):
        super().__init__(**kwargs)
        self.depth = depth
        self.tag = tag


class Trn:
    """Class group with a None-valued default; `steps` is a link source in world dmp."""

    def __init__(self, steps: int = 3, resume: Optional[str] = None):
        self.steps = steps
        self.resume = resume


class Tgt:
    """Base of the link-target classes of world lcs: the SAME init-argument names (`opts`, `k`) are declared with a
    different kind of type in every subclass (dataclass / Dict / Optional[dict] / Any / absent; int / float /
    Optional[int]), so what a link into `model.init_args.<name>` has to do depends on the class selected in the
    config of the call."""


class TakesData(Tgt):
    def __init__(self, opts: Pt, k: int = 0):
        self.opts = opts
        self.k = k


class TakesDict(Tgt):
    def __init__(self, opts: Dict[str, int], k: int = 0):
        self.opts = opts
        self.k = k


class TakesOptMap(Tgt):
    def __init__(self, opts: Optional[dict] = None, k: float = 0.5):
        self.opts = opts
        self.k = k


class TakesAny(Tgt):
    def __init__(self, opts: Any = None, k: Optional[int] = None):
        self.opts = opts
        self.k = k


class NoOpts(Tgt):
    """Has no init argument `opts` at all."""

    def __init__(self, k: int = 0):
        self.k = k


class Src:
    def __init__(self, size: int = 2):
        self.size = size
        self.double = size * 2


class Dst:
    def __init__(self, size: int = 0, name: str = "d"):
        self.size = size
        self.name = name


def times_ten(v):
    return v * 10


def to_name(v):
    return f"n{v}"
