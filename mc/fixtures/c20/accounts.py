"""Fixture classes for C20 part D (secrets): dataclasses with a secret field.

Imported only from inside worker functions, after jsonargparse has been bound to the tree under test.
No `from __future__ import annotations` here: jsonargparse must see real types in the annotations.
"""
import dataclasses

import pydantic
from jsonargparse.typing import SecretStr


@dataclasses.dataclass
class AccountJsa:
    token: SecretStr
    n: int = 1


@dataclasses.dataclass
class AccountPyd:
    token: pydantic.SecretStr
    n: int = 1
