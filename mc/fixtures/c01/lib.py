"""Fixture classes for C01 (importable as mc.fixtures.c01.lib so that class_path values resolve).

Only the standard library is imported here; nothing from jsonargparse."""

import dataclasses
import enum
from typing import Dict, List, Optional, Tuple, Union


class E(enum.Enum):
    A = 1
    B = 2


# members whose *names* are what a YAML reader takes for null / bool
EY = enum.Enum("EY", ["null", "true", "on", "no", "y"])
EY.__module__ = __name__
EY.__qualname__ = "EY"


@dataclasses.dataclass
class Point:
    x: int = 1
    label: str = "p"
    w: Optional[float] = None


@dataclasses.dataclass
class Outer:
    p: Point = dataclasses.field(default_factory=Point)
    tags: List[str] = dataclasses.field(default_factory=lambda: ["t"])
    n: int = 3


class Inner:
    def __init__(self, v: float = 0.5, name: str = "in"):
        self.v = v
        self.name = name


class Base:
    def __init__(self, a: int = 1):
        self.a = a


class SubA(Base):
    def __init__(self, a: int = 2, s: str = "x", opt: Optional[str] = None):
        super().__init__(a)
        self.s = s
        self.opt = opt


class SubB(Base):
    def __init__(self, inner: Optional[Inner] = None, items: List[int] = [1, 2], u: Union[int, str] = "u", **kwargs):  # noqa: B006
        super().__init__(**kwargs)
        self.inner = inner
        self.items = items
        self.u = u


class SubC(Base):
    """Required init argument without default and a dict/tuple."""

    def __init__(self, req: str, d: Dict[str, int] = {"k": 1}, t: Tuple[int, str] = (1, "a")):  # noqa: B006
        super().__init__()
        self.req = req
        self.d = d
        self.t = t


class KwOnly(Base):
    """Only free-form keyword arguments (no resolvable named parameter): an accepted value is class_path plus
    dict_kwargs and never has init_args."""

    def __init__(self, **kwargs):
        super().__init__()
        self.kwargs = kwargs


class KwNamed(Base):
    """A named Optional parameter whose default is not None, plus free-form keyword arguments."""

    def __init__(self, size: Optional[int] = 1, **kwargs):
        super().__init__()
        self.size = size
        self.kwargs = kwargs
