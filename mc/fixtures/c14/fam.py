"""Class families for C14.  Every constructor (and factory function) appends one record to LOG:

    (name of the class whose __init__ ran / of the function, the object being built (None for functions),
     the keyword arguments it received, by parameter name)

Constructors never call each other (no super().__init__), so one construction = exactly one record, and the
record tells which class' __init__ ran with which values.  Parameter types are limited to int / str / bool /
Optional[int] and class-typed parameters so that an independent validator can decide validity from
inspect.signature alone.
"""
import abc
from typing import Dict, List, Optional, Union

LOG = []


def reset():
    del LOG[:]


def _rec(name, obj, **kw):
    LOG.append((name, obj, kw))
    if obj is not None:
        obj.received = kw


# ---- family 1: concrete base and its subclasses -------------------------------------------------


class Base:
    def __init__(self, a: int = 1, s: str = "x"):
        _rec("Base", self, a=a, s=s)


class SubAdd(Base):
    """adds a parameter"""

    def __init__(self, a: int = 1, s: str = "x", b: bool = False):
        _rec("SubAdd", self, a=a, s=s, b=b)


class SubOver(Base):
    """overrides the type and default of `a`, drops `s`, adds `c`"""

    def __init__(self, a: str = "one", c: int = 0):
        _rec("SubOver", self, a=a, c=c)


class SubReq(Base):
    """requires a parameter"""

    def __init__(self, r: int, a: int = 1):
        _rec("SubReq", self, r=r, a=a)


class SubSub(SubAdd):
    """second level"""

    def __init__(self, a: int = 2, d: Optional[int] = None):
        _rec("SubSub", self, a=a, d=d)


class Twin(Base):
    """same class name exists in fam2 (ambiguous short name)"""

    def __init__(self, a: int = 1, t: int = 0):
        _rec("Twin", self, a=a, t=t)


class _Private(Base):
    """private: accepted by path, not resolvable by name"""

    def __init__(self, a: int = 1):
        _rec("_Private", self, a=a)


class Unrelated:
    """same signature as Base, not a subclass"""

    def __init__(self, a: int = 1, s: str = "x"):
        _rec("Unrelated", self, a=a, s=s)


# ---- family 2: the other member of Union[Base, Other] ------------------------------------------


class Other:
    def __init__(self, o: int = 0):
        _rec("Other", self, o=o)


class OtherSub(Other):
    def __init__(self, o: int = 0, p: str = "p"):
        _rec("OtherSub", self, o=o, p=p)


# ---- family 3: abstract base -------------------------------------------------------------------


class Abs(abc.ABC):
    def __init__(self, a: int = 1):
        _rec("Abs", self, a=a)

    @abc.abstractmethod
    def run(self):
        ...


class AbsImpl(Abs):
    def __init__(self, a: int = 1, z: int = 0):
        _rec("AbsImpl", self, a=a, z=z)

    def run(self):
        return 1


class AbsStill(Abs):
    """still abstract: accepted at parse time, cannot be instantiated"""

    def __init__(self, a: int = 1, y: int = 0):
        _rec("AbsStill", self, a=a, y=y)


# ---- lineage: the line of descent from the declared class to the named one passes through classes that are
# themselves NOT nameable (abstract / private), or there are two lines (diamond) ------------------------------


class AbsStillImpl(AbsStill):
    """concrete class below an abstract INTERMEDIATE class: Abs (abstract) <- AbsStill (abstract) <- AbsStillImpl"""

    def __init__(self, a: int = 1, y: int = 0, w: int = 0):
        _rec("AbsStillImpl", self, a=a, y=y, w=w)

    def run(self):
        return 2


class AbsStill2(AbsStill):
    """second abstract level (only an intermediate, never named)"""

    def __init__(self, a: int = 1):
        _rec("AbsStill2", self, a=a)


class AbsDeepImpl(AbsStill2):
    """concrete class below TWO abstract intermediates"""

    def __init__(self, a: int = 1, v: bool = False):
        _rec("AbsDeepImpl", self, a=a, v=v)

    def run(self):
        return 3


class MidAbs(Base, abc.ABC):
    """abstract intermediate below a CONCRETE base"""

    def __init__(self, a: int = 1, m: int = 0):
        _rec("MidAbs", self, a=a, m=m)

    @abc.abstractmethod
    def go(self):
        ...


class MidImpl(MidAbs):
    """concrete: Base (concrete) <- MidAbs (abstract) <- MidImpl"""

    def __init__(self, a: int = 1, m: int = 0, g: bool = False):
        _rec("MidImpl", self, a=a, m=m, g=g)

    def go(self):
        return 1


class BelowPrivate(_Private):
    """public class below a PRIVATE intermediate: Base <- _Private <- BelowPrivate"""

    def __init__(self, a: int = 1, u: int = 0):
        _rec("BelowPrivate", self, a=a, u=u)


class Diamond(SubAdd, SubOver):
    """reachable from Base along two lines of descent (must still be ONE class of that name)"""

    def __init__(self, a: int = 1, dd: int = 0):
        _rec("Diamond", self, a=a, dd=dd)


# ---- family 4: **kwargs used as a dict (dict_kwargs) -------------------------------------------


class Kw:
    def __init__(self, a: int = 1, **kwargs):
        _rec("Kw", self, a=a, **kwargs)


class KwSub(Kw):
    def __init__(self, a: int = 1, e: int = 0, **kwargs):
        _rec("KwSub", self, a=a, e=e, **kwargs)


# ---- callables ---------------------------------------------------------------------------------


def make_sub(a: int = 5, b: bool = True) -> SubAdd:
    _rec("make_sub", None, a=a, b=b)
    return SubAdd(a=a, b=b)


def make_base_str(a: int = 6) -> "Base":
    _rec("make_base_str", None, a=a)
    return Base(a=a)


def make_unrelated(a: int = 1) -> Unrelated:
    _rec("make_unrelated", None, a=a)
    return Unrelated(a=a)


def make_int(a: int = 1) -> int:
    _rec("make_int", None, a=a)
    return a


def make_untyped(a: int = 1):
    _rec("make_untyped", None, a=a)
    return Base(a=a)


# ---- importable non-classes --------------------------------------------------------------------

CONST = 3
TEXT = "SubAdd"
INST_BASE = Base(a=7)
INST_SUB = SubAdd(a=8, b=True)
INST_UNRELATED = Unrelated(a=9)
INST_OTHER = Other(o=4)


# ---- holders: classes with class-typed parameters ----------------------------------------------


class HoldOne:
    def __init__(self, inner: Base, n: int = 0):
        _rec("HoldOne", self, inner=inner, n=n)


class HoldOpt:
    def __init__(self, inner: Optional[Base] = None, n: int = 0):
        _rec("HoldOpt", self, inner=inner, n=n)


class HoldUnion:
    def __init__(self, inner: Union[Base, Other], n: int = 0):
        _rec("HoldUnion", self, inner=inner, n=n)


class HoldList:
    def __init__(self, elems: List[Base], n: int = 0):
        _rec("HoldList", self, elems=elems, n=n)


class HoldDict:
    def __init__(self, table: Dict[str, Base], n: int = 0):
        _rec("HoldDict", self, table=table, n=n)


class HoldDeep:
    def __init__(self, h: HoldOne, n: int = 0):
        _rec("HoldDeep", self, h=h, n=n)


class HoldSub(HoldOne):
    """a holder subclass narrowing nothing, adding a second class-typed parameter"""

    def __init__(self, inner: Base, second: Optional[Other] = None, n: int = 0):
        _rec("HoldSub", self, inner=inner, second=second, n=n)


class HoldPair:
    """two sibling class-typed parameters; the name of the first is a prefix of the name of the second"""

    def __init__(self, inner: Base, inner2: Base, n: int = 0):
        _rec("HoldPair", self, inner=inner, inner2=inner2, n=n)


class HoldPairR:
    """the same siblings declared in the opposite order (the longer name first)"""

    def __init__(self, inner2: Base, inner: Base, n: int = 0):
        _rec("HoldPairR", self, inner2=inner2, inner=inner, n=n)


reset()
