"""Second fixture module for C14: a class whose short name collides with fam.Twin."""
from mc.fixtures.c14 import fam


class Twin(fam.Base):
    def __init__(self, a: int = 1, u: int = 0):
        fam._rec("Twin2", self, a=a, u=u)


class Far(fam.SubAdd):
    """unique name, other module"""

    def __init__(self, a: int = 1, f: int = 0):
        fam._rec("Far", self, a=a, f=f)
