"""Classes that become available LATE: this module is never imported when the fixtures are loaded
(c14_model.ensure_loaded); a case of the family `late` imports it between an earlier use of the library (a parse that
resolved a class of the same declared type by its bare name) and the parse under test - a plugin imported after the
first parse.  Bare names are unique over all fixture modules (nothing becomes ambiguous by importing this)."""
from mc.fixtures.c14.fam import Abs, Base, MidAbs, SubAdd, _rec


class LateSub(Base):
    """directly below the declared class"""

    def __init__(self, a: int = 1, la: int = 0):
        _rec("LateSub", self, a=a, la=la)


class LateSubSub(SubAdd):
    """below a concrete intermediate class that was there from the start"""

    def __init__(self, a: int = 1, b: bool = False, lb: int = 0):
        _rec("LateSubSub", self, a=a, b=b, lb=lb)


class LateMidImpl(MidAbs):
    """below an abstract intermediate class that was there from the start"""

    def __init__(self, a: int = 1, lm: bool = False):
        _rec("LateMidImpl", self, a=a, lm=lm)

    def go(self):
        return 2


class LateAbsImpl(Abs):
    """concrete class below the abstract declared class"""

    def __init__(self, a: int = 1, lz: int = 0):
        _rec("LateAbsImpl", self, a=a, lz=lz)

    def run(self):
        return 4
