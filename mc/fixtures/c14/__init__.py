"""Fixture class families for C14 (importable as mc.fixtures.c14.fam / mc.fixtures.c14.fam2)."""
