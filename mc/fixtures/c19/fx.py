"""Fixture classes for C19 (imported lazily, after jsonargparse is bound to the tree under test).

Every level of a nested configuration has the same path-typed keys:
    files: List[Path_fr]   dir: Path_dw   out: Path_fc   slot: Optional[Path_fr]
"""
from dataclasses import dataclass, field
from typing import List, Optional

from jsonargparse.typing import Path_dw, Path_fc, Path_fr


@dataclass
class Level3:
    files: Optional[List[Path_fr]] = None
    dir: Optional[Path_dw] = None
    out: Optional[Path_fc] = None
    slot: Optional[Path_fr] = None


@dataclass
class Level2:
    files: Optional[List[Path_fr]] = None
    dir: Optional[Path_dw] = None
    out: Optional[Path_fc] = None
    slot: Optional[Path_fr] = None
    sub: Level3 = field(default_factory=Level3)


class Node:
    def __init__(
        self,
        files: Optional[List[Path_fr]] = None,
        dir: Optional[Path_dw] = None,
        out: Optional[Path_fc] = None,
        slot: Optional[Path_fr] = None,
        sub: Optional["Node"] = None,
    ):
        self.files, self.dir, self.out, self.slot, self.sub = files, dir, out, slot, sub


class SubNode(Node):
    pass
