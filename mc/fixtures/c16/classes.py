"""Fixture classes for C16: every constructor call is appended to LOG (class name, object, received kwargs).

The classes are deliberately dumb: parameters `p0..p3` (one per possible feeding component) are typed `Any` so that
whatever the link machinery hands over reaches the constructor unchanged; `v` is an ordinary configuration value;
`attr` is an object created in the constructor (so a link "from an attribute" can be checked by identity).

Value alphabet of source attributes (links "from an attribute" must hand over whatever the attribute holds): besides
`attr` every object has attributes whose value is None / falsy - `attr_none` None, `attr_zero` 0, `attr_empty` "",
`attr_false` False, `attr_list` a fresh empty list, `attr_fobj` an object whose truth value is False.  Parameters
`d0..d3` / `dr` / `da, db` / `da..ds` are link targets like `p0..p3` but with the NON-None default "unset", so that
"the link was not applied" and "the link delivered None" can be told apart.
"""
from typing import Any, Optional

UNSET = "unset"

LOG = []

# Fault injection (operation histories with an ABORTED instantiation): when armed, the `index`-th constructor call
# ("ctor") or compute_fn call ("fn") counted from the moment of arming raises; every other call behaves as usual.
FAULT = {"what": None, "index": None, "exc": None, "ctor": 0, "fn": 0, "fired": 0}


class InjectedFault(RuntimeError):
    """A constructor / compute_fn that fails for a reason of its own (not a type problem)."""


class InjectedValueError(ValueError):
    """The same, raised as a ValueError (what a validating constructor typically raises)."""


def reset():
    del LOG[:]


def arm(what=None, index=None, exc="R"):
    """arm("ctor" | "fn", index, "R" | "V") arms ONE fault; arm() disarms.  Counters restart."""
    FAULT.update(what=what, index=index, exc=exc, ctor=0, fn=0, fired=0)


def _fault_point(what, label):
    n = FAULT[what]
    FAULT[what] = n + 1
    if FAULT["what"] == what and FAULT["index"] == n:
        FAULT["fired"] += 1
        raise (InjectedValueError if FAULT["exc"] == "V" else InjectedFault)(f"injected fault in {what} call #{n} ({label})")


class Attr:
    """Value of the `attr` attribute of a constructed fixture object."""

    def __init__(self, owner, v):
        self.owner = owner
        self.v = v

    def __repr__(self):
        return f"Attr({self.owner},{self.v})"


class FalsyAttr(Attr):
    """An attribute value that is an object with truth value False."""

    def __bool__(self):
        return False

    def __repr__(self):
        return f"FalsyAttr({self.owner},{self.v})"


class FnResult:
    """What every compute_fn returns: keeps the argument objects so that identity can be checked."""

    def __init__(self, tag, args):
        self.tag = tag
        self.args = tuple(args)

    def __repr__(self):
        return f"FnResult({self.tag},{self.args!r})"


def make_fn(tag):
    def compute(*args):
        _fault_point("fn", tag)
        return FnResult(tag, args)

    compute.__name__ = "fn_" + tag
    return compute


class Base:
    def _log(self, kwargs):
        _fault_point("ctor", type(self).__name__)  # a failing constructor leaves no log entry
        LOG.append((type(self).__name__, self, kwargs))
        self.received = kwargs
        self.attr = Attr(type(self).__name__, kwargs.get("v"))
        self.attr_none, self.attr_zero, self.attr_empty, self.attr_false = None, 0, "", False
        self.attr_list, self.attr_fobj = [], FalsyAttr(type(self).__name__, kwargs.get("v"))

    def __repr__(self):
        return f"<{type(self).__name__}>"


class K0(Base):
    def __init__(self, p0: Any = None, p1: Any = None, p2: Any = None, p3: Any = None, v: int = 0,
                 d0: Any = UNSET, d1: Any = UNSET, d2: Any = UNSET, d3: Any = UNSET):
        self._log(dict(p0=p0, p1=p1, p2=p2, p3=p3, v=v, d0=d0, d1=d1, d2=d2, d3=d3))


class K1(Base):
    def __init__(self, p0: Any = None, p1: Any = None, p2: Any = None, p3: Any = None, v: int = 0,
                 d0: Any = UNSET, d1: Any = UNSET, d2: Any = UNSET, d3: Any = UNSET):
        self._log(dict(p0=p0, p1=p1, p2=p2, p3=p3, v=v, d0=d0, d1=d1, d2=d2, d3=d3))


class K2(Base):
    def __init__(self, p0: Any = None, p1: Any = None, p2: Any = None, p3: Any = None, v: int = 0,
                 d0: Any = UNSET, d1: Any = UNSET, d2: Any = UNSET, d3: Any = UNSET):
        self._log(dict(p0=p0, p1=p1, p2=p2, p3=p3, v=v, d0=d0, d1=d1, d2=d2, d3=d3))


class K3(Base):
    def __init__(self, p0: Any = None, p1: Any = None, p2: Any = None, p3: Any = None, v: int = 0,
                 d0: Any = UNSET, d1: Any = UNSET, d2: Any = UNSET, d3: Any = UNSET):
        self._log(dict(p0=p0, p1=p1, p2=p2, p3=p3, v=v, d0=d0, d1=d1, d2=d2, d3=d3))


# variants whose link-fed parameters are class-typed (the whole-object link then replaces a subclass action)
class T0(Base):
    def __init__(self, p0: Optional[Base] = None, p1: Optional[Base] = None, p2: Optional[Base] = None,
                 p3: Optional[Base] = None, v: int = 0):
        self._log(dict(p0=p0, p1=p1, p2=p2, p3=p3, v=v))


class T1(T0):
    pass


class T2(T0):
    pass


class T3(T0):
    pass


# three-level hierarchy: class group Root -> class-typed parameter child -> class-typed parameter grandchild
class Grandchild(Base):
    def __init__(self, pa: Any = None, pb: Any = None, v: int = 0, da: Any = UNSET, db: Any = UNSET):
        self._log(dict(pa=pa, pb=pb, v=v, da=da, db=db))


class Child(Base):
    def __init__(self, grandchild: Grandchild, pa: Any = None, pb: Any = None, v: int = 0, da: Any = UNSET,
                 db: Any = UNSET):
        self._log(dict(grandchild=grandchild, pa=pa, pb=pb, v=v, da=da, db=db))


class Root(Base):
    def __init__(self, child: Child, pa: Any = None, pb: Any = None, v: int = 0, da: Any = UNSET, db: Any = UNSET):
        self._log(dict(child=child, pa=pa, pb=pb, v=v, da=da, db=db))


class SrcA(Base):
    def __init__(self, pr: Any = None, v: int = 0, dr: Any = UNSET):
        self._log(dict(pr=pr, v=v, dr=dr))


class SrcB(Base):
    def __init__(self, pr: Any = None, v: int = 0, dr: Any = UNSET):
        self._log(dict(pr=pr, v=v, dr=dr))


# siblings inside one class-typed argument (links "within" a subclass argument are delegated to its own parser)
class SibA(Base):
    def __init__(self, qa: Any = None, qb: Any = None, qc: Any = None, qs: Any = None, v: int = 0,
                 da: Any = UNSET, db: Any = UNSET, dc: Any = UNSET, ds: Any = UNSET):
        self._log(dict(qa=qa, qb=qb, qc=qc, qs=qs, v=v, da=da, db=db, dc=dc, ds=ds))


class SibB(Base):
    def __init__(self, qa: Any = None, qb: Any = None, qc: Any = None, qs: Any = None, v: int = 0,
                 da: Any = UNSET, db: Any = UNSET, dc: Any = UNSET, ds: Any = UNSET):
        self._log(dict(qa=qa, qb=qb, qc=qc, qs=qs, v=v, da=da, db=db, dc=dc, ds=ds))


class SibC(Base):
    def __init__(self, qa: Any = None, qb: Any = None, qc: Any = None, qs: Any = None, v: int = 0,
                 da: Any = UNSET, db: Any = UNSET, dc: Any = UNSET, ds: Any = UNSET):
        self._log(dict(qa=qa, qb=qb, qc=qc, qs=qs, v=v, da=da, db=db, dc=dc, ds=ds))


class Holder(Base):
    def __init__(self, a: SibA, b: SibB, c: SibC, qs: Any = None, v: int = 0, ds: Any = UNSET):
        self._log(dict(a=a, b=b, c=c, qs=qs, v=v, ds=ds))
        self.a, self.b, self.c = a, b, c
