"""C05 - three further blocks on the machinery of c05.py (added for the independent seeds C05-4 .. C05-6).

  undef  - settings whose KEY the parser does not define ("... or is rejected in every case"): every name derived from
           the parser's own names (proper prefixes, one-character extensions, case variants, names of another level,
           an unrelated name, a key below a leaf) at every branch of the parser, and non-mapping values at the branch
           keys themselves; through the command line and every document / object channel in every dotted / nested cut.
  hist   - the parser is not fresh: every history of at most L operations (uses of the parser through each entry point,
           re-configurations through the documented settable properties env_prefix / default_env / parser_mode, and
           registration as a sub-command of another parser) precedes the parse; every channel on the used parser must
           give what a parser built directly in the final configuration gives.
  flags  - the env / defaults flags of the parse methods: two settings, split between the environment and another
           carrier in every way (all in the carrier, k in the environment, j in the environment, all in the
           environment), through every entry point with env=True and defaults in {True, False}.

A case is JSON with a key "block"; c05.run_case / c05.explore dispatch on it.
"""
from __future__ import annotations

import copy
import json
import os

from mc.checks import c05

# ------------------------------------------------------------------------------------------------------
# shared helpers


def _obs(fn, *args, **kwargs):
    """One call -> comparable observation (the bookkeeping key of the config option removed)."""
    from mc.util import outcome, tcanon

    o = outcome(fn, *args, **kwargs)
    if o["kind"] == "ok":
        import jsonargparse

        ns = jsonargparse.strip_meta(o["value"]).clone()
        _drop_cfg(ns)
        return ["ok", tcanon(ns)]
    if o["kind"] in ("escape", "ArgumentError"):
        return ["rejected"]
    return [o["kind"]]


def _drop_cfg(ns):
    ns.pop("cfg", None)
    for k in ("fit",):
        sub = ns.get(k) if k in ns else None
        if sub is not None and hasattr(sub, "pop"):
            sub.pop("cfg", None)


class _environ:
    """os.environ extended by `env` for the duration."""

    def __init__(self, env):
        self.env = env

    def __enter__(self):
        self.saved = dict(os.environ)
        os.environ.update(self.env)

    def __exit__(self, *exc):
        os.environ.clear()
        os.environ.update(self.saved)


def _partition(rows):
    """rows = [(family, observation)] -> 'ok1:cfg+obj|rej:argv' (coarse family when all its sub-families agree)."""
    ids, n_ok = {}, 0
    for _, o in rows:
        k = json.dumps(o)
        if k not in ids:
            if o[0] == "ok":
                n_ok += 1
                ids[k] = f"ok{n_ok}"
            else:
                ids[k] = "rej" if o[0] == "rejected" else o[0]
    fam = {}
    for f, o in rows:
        fam.setdefault(f, set()).add(ids[json.dumps(o)])
    groups = {}
    for coarse in sorted({f.split(".")[0] for f in fam}, key=lambda x: (c05.COARSE + [x]).index(x)):
        subs = sorted(f for f in fam if f.split(".")[0] == coarse)
        union = set().union(*(fam[f] for f in subs))
        if len(union) == 1:
            groups.setdefault(next(iter(union)), []).append(coarse)
        else:
            for f in subs:
                groups.setdefault("/".join(sorted(fam[f])), []).append(f)
    return "|".join(f"{cls}:{'+'.join(fams)}" for cls, fams in sorted(groups.items()))


# ------------------------------------------------------------------------------------------------------
# block "undef": keys the parser does not define

UNDEF_SHAPES = ["names-plain", "names-dataclass", "names-classgroup", "names-optdataclass"]
UNDEF_SHAPES_QUICK = ["names-plain", "names-dataclass", "names-optdataclass"]
# defined leaves (all int, distinct defaults) and branches per shape; the names are chosen so that string-prefix
# relations exist between siblings (abc / abcd), between levels, and between leaf and branch names
UNDEF_LEAVES = {
    "names-plain": ["abc", "abcd", "grp.abc", "grp.abe", "grp.sub.abc"],
    "names-dataclass": ["abc", "grp.abc", "grp.abe"],
    "names-classgroup": ["abc", "grp.abc", "grp.abe"],
    "names-optdataclass": ["abc", "grp.abc", "grp.abe"],
}


def undef_branches(shape):
    out = []
    for leaf in UNDEF_LEAVES[shape]:
        parts = leaf.split(".")
        for i in range(1, len(parts)):
            b = ".".join(parts[:i])
            if b not in out:
                out.append(b)
    return out


def undef_parser(shape, mode):
    import dataclasses
    import typing

    import jsonargparse

    p = jsonargparse.ArgumentParser(exit_on_error=False, parser_mode=mode, env_prefix=c05.ENV_PREFIX, default_env=False,
                                    allow_abbrev=False)
    p.add_argument("--cfg", action=jsonargparse.ActionConfigFile)
    if shape == "names-plain":
        for i, leaf in enumerate(UNDEF_LEAVES[shape]):
            p.add_argument("--" + leaf, type=int, default=i + 1)
        return p
    p.add_argument("--abc", type=int, default=1)
    if shape == "names-classgroup":

        class G:
            def __init__(self, abc: int = 2, abe: int = 3):
                pass

        p.add_class_arguments(G, "grp")
        return p
    D = dataclasses.make_dataclass("D", [("abc", int, dataclasses.field(default=2)), ("abe", int, dataclasses.field(default=3))])
    D.__module__ = __name__
    p.add_argument("--grp", type=D if shape == "names-dataclass" else typing.Optional[D], **({} if shape == "names-dataclass" else {"default": D()}))
    return p


def _name_variants(name):
    return [name[:i] for i in range(1, len(name))] + [name + "x", name.swapcase()]


def undef_keys(shape):
    """[(key, class)]: every undefined key derived from the parser's own names, at every branch of the parser."""
    leaves, branches = UNDEF_LEAVES[shape], undef_branches(shape)
    defined = set(leaves) | set(branches)
    names = []
    for k in leaves:
        for part in k.split("."):
            if part not in names:
                names.append(part)
    cands = []
    for n in names:
        for c in _name_variants(n) + [n]:
            if c not in cands:
                cands.append(c)
    cands.append("zz")
    out = []
    for site in [""] + branches:
        here = [k[len(site) + 1 if site else 0 :].split(".")[0] for k in defined if (k.startswith(site + ".") if site else True)]
        for c in cands:
            key = (site + "." if site else "") + c
            if key in defined:
                continue
            if any(h != c and h.startswith(c) for h in here):
                cls = "prefix-of-sibling"
            elif any(h != c and c.startswith(h) for h in here):
                cls = "extension-of-sibling"
            elif any(h != c and h.lower() == c.lower() for h in here):
                cls = "case-variant-of-sibling"
            elif c in names:
                cls = "name-of-another-level"
            else:
                cls = "unrelated"
            out.append((key, cls))
    for leaf in leaves:
        out.append((leaf + ".x", "below-leaf"))
    return out


UNDEF_VALUES_QUICK = [7, "a", {"x": 1}]
UNDEF_VALUES_MORE = [None, [1], True]
BRANCH_VALUES = [7, "a", None, [1], True]  # non-mapping values at a branch key


def undef_cases(quick):
    out = []
    for shape in UNDEF_SHAPES_QUICK if quick else UNDEF_SHAPES:
        modes = ["yaml", "json"] if (shape == "names-plain" or not quick) else ["yaml"]
        sib = {"": "abc", "grp": "abe", "grp.sub": "abc"}
        for key, cls in undef_keys(shape):
            site = key.rsplit(".", 1)[0] if "." in key else ""
            for v in UNDEF_VALUES_QUICK + ([] if quick else UNDEF_VALUES_MORE):
                out.append({"block": "undef", "shape": shape, "key": key, "class": cls, "value": v, "modes": modes})
            if cls != "below-leaf" and site in sib:
                # the undefined key next to a valid setting of a defined sibling (the document is otherwise valid)
                with_key = (site + "." if site else "") + sib[site]
                out.append({"block": "undef", "shape": shape, "key": key, "class": cls, "value": 7, "with": with_key, "modes": modes})
        for b in undef_branches(shape):
            for v in BRANCH_VALUES:
                out.append({"block": "undef", "shape": shape, "key": b, "class": "branch-key", "value": v, "modes": modes})
    return out


def undef_channels(case):
    """(name, family, kind, payload).  The environment is not a channel here: variables that name no argument are
    ignored by design (any environment is full of them)."""
    key, v = case["key"], case["value"]
    text = c05.text_of(v)
    settings = [(key, v)] + ([(case["with"], 9)] if "with" in case else [])
    argv_eq = [f"--{k}={c05.text_of(x)}" for k, x in settings]
    out = [("argv_eq", "argv", "argv", argv_eq), ("argv_sep", "argv", "argv", [w for k, x in settings for w in ("--" + k, c05.text_of(x))])]
    if "with" in case:
        out.append(("argv_eq_rev", "argv", "argv", argv_eq[::-1]))
    path = key.split(".")
    wpath = case["with"].split(".") if "with" in case else None
    seen = set()
    for order in ((0, 1), (1, 0)) if wpath else ((0,),):
        for idx, segs in enumerate(c05.compositions(path)):
            doc = {}
            for i in order:
                if i == 0:
                    c05._insert(doc, segs, copy.deepcopy(v))
                else:  # the valid sibling under the same cut of the key path (mixed cuts of two keys: two-settings block)
                    c05._insert(doc, c05.compositions(wpath)[idx], 9)
            t = json.dumps(doc)
            if t in seen:
                continue
            seen.add(t)
            n = len(seen) - 1
            sub = "" if len(segs) == len(path) else ".dotted" if len(segs) == 1 else ".mixed"
            out += [
                (f"parse_object#{n}", "obj" + sub, "object", doc),
                (f"parse_string#{n}", "cfg" + sub, "string", t),
                (f"cfg_str#{n}", "cfg" + sub, "argv", ["--cfg=" + t]),
            ]
            if sub == "" and order[0] == 0:
                out += [("cfg_file", "cfg", "file", t), ("parse_path", "cfg", "path", t)]
    return out


def undef_observe(case):
    from mc.util import restored_process_state, scratch_dir

    obs, parses = {}, 0
    with restored_process_state(), scratch_dir(chdir=True):
        for mode in case["modes"]:
            obs[mode] = {}
            for name, _fam, kind, payload in undef_channels(case):
                p = undef_parser(case["shape"], mode)
                payload = copy.deepcopy(payload)
                if kind == "argv":
                    o = _obs(p.parse_args, payload)
                elif kind == "object":
                    o = _obs(p.parse_object, payload)
                elif kind == "string":
                    o = _obs(p.parse_string, payload)
                else:
                    with open("u.json", "w") as f:
                        f.write(payload)
                    o = _obs(p.parse_args, ["--cfg", "u.json"]) if kind == "file" else _obs(p.parse_path, "u.json")
                obs[mode][name] = o
                parses += 1
    return obs, parses


def undef_judge(case, obs):
    chans = undef_channels(case)
    flat = {json.dumps(obs[m][c[0]]) for m in obs for c in chans}
    if len(flat) <= 1:
        return []
    parts = {m: _partition([(c[1], obs[m][c[0]]) for c in chans]) for m in obs}
    ref = next(iter(parts))
    part = parts[ref] + "".join(f";{m}:{parts[m]}" for m in parts if parts[m] != parts[ref])
    v = case["value"]
    if case["class"] == "branch-key":
        sig = f"branch-key:{'null' if v is None else 'non-mapping-value'}:{part}"
    else:
        sig = f"undefined-key:{case['class']}:{'mapping' if isinstance(v, dict) else 'null' if v is None else 'value'}:{part}"
    detail = {"key": case["key"], "value": v, "partition": part,
              "observations": {m: {n: c05._short(o) for n, o in obs[m].items()} for m in obs}}
    return [{"signature": sig, "detail": json.dumps(detail, default=repr)[:3000]}]


# ------------------------------------------------------------------------------------------------------
# block "hist": a parser with a history

HIST_USES = ["use:argv", "use:env_dict", "use:env_os", "use:object", "use:string", "use:help", "use:defaults", "use:dump"]
HIST_RECONF = ["set:env_prefix=TOOL", "set:env_prefix=False", "set:env_prefix=True", "set:default_env=True",
               "set:parser_mode=json", "as-subcommand"]
HIST_PROG = "prg.py"  # env_prefix=True derives the prefix from prog: PRG
HIST_OTHER = {"int": 8, "str": "b", json.dumps(["List", "int"]): [8, 9]}  # the value `u` the earlier uses set
HIST_SETTINGS = [("int", 1), ("str", "a"), (["List", "int"], [1])]


def hist_histories(length):
    ops = HIST_USES + HIST_RECONF
    out = [[]]
    frontier = [[]]
    for _ in range(length):
        nxt = []
        for h in frontier:
            for op in ops:
                if "as-subcommand" in h and not op.startswith("use:"):
                    continue  # after the registration only uses (through the root parser)
                nxt.append(h + [op])
        out += nxt
        frontier = nxt
    return out


def hist_cases(quick):
    out = []
    for shape in ["nested", "dataclass"] if quick else ["nested", "top", "dataclass", "classgroup", "optdataclass"]:
        for spec, v in HIST_SETTINGS[:2] if quick else HIST_SETTINGS:
            if quick and shape == "dataclass" and spec != "int":
                continue
            for h in hist_histories(2 if quick else 3 if shape == "nested" and spec == "int" else 2):
                c = {"block": "hist", "shape": shape, "type": spec, "value": v, "history": h}
                if quick:
                    c["quick"] = True
                out.append(c)
    return out


class _Cfg:
    """The configuration a history leads to, tracked independently of the library (the model of the settable knobs)."""

    def __init__(self):
        self.prefix, self.default_env, self.mode, self.sub = c05.ENV_PREFIX, False, "yaml", False

    def apply(self, op):
        if op == "set:env_prefix=TOOL":
            self.prefix = "TOOL"
        elif op == "set:env_prefix=False":
            self.prefix = ""
        elif op == "set:env_prefix=True":
            self.prefix = "PRG"
        elif op == "set:default_env=True":
            self.default_env = True
        elif op == "set:parser_mode=json":
            self.mode = "json"
        elif op == "as-subcommand":
            # the root parser (env_prefix ROOT, default_env False) decides from here on: add_subcommand hands its
            # prefix and its default_env down to the registered parser
            self.sub, self.default_env = True, False

    def env_name(self, key):
        """Documented scheme [PREFIX_][LEV__]*OPT; a sub-command is one more level below the ROOT prefix."""
        if self.sub:
            return ("ROOT_FIT__" + key).replace(".", "__").upper()
        return ((self.prefix + "_" if self.prefix else "") + key).replace(".", "__").upper()

    def env(self, settings):
        e = {self.env_name(k): t for k, t in settings.items()}
        if self.sub:
            e["ROOT_SUBCOMMAND"] = "fit"
        return e

    def key(self):
        return [self.prefix, self.default_env, self.mode, self.sub]


def _hist_register(p, mode):
    import jsonargparse

    root = jsonargparse.ArgumentParser(exit_on_error=False, env_prefix="ROOT", default_env=False, parser_mode=mode, prog=HIST_PROG)
    root.add_argument("--seed", type=int, default=0)
    root.add_subcommands().add_subcommand("fit", p)
    return root


def _hist_use(target, cfg, shape, spec, op):
    """One earlier use of the parser (its outcome is not judged), setting the key to the OTHER value u."""
    from mc.util import outcome

    key = c05.leaf_key(shape)
    u = HIST_OTHER[spec if isinstance(spec, str) else json.dumps(spec)]
    pre = ["fit"] if cfg.sub else []
    doc = c05.nested_doc(("fit." if cfg.sub else "") + key, u)
    env = cfg.env({"n" if shape == "optdataclass" else key: json.dumps({"k": u}) if shape == "optdataclass" else c05.text_of(u)})
    if op == "use:argv":
        outcome(target.parse_args, pre + [f"--{key}={c05.text_of(u)}"])
    elif op == "use:env_dict":
        outcome(target.parse_env, env)
    elif op == "use:env_os":
        with _environ(env):
            outcome(target.parse_args, [], env=True)
    elif op == "use:object":
        outcome(target.parse_object, copy.deepcopy(doc))
    elif op == "use:string":
        outcome(target.parse_string, json.dumps(doc))
    elif op == "use:help":
        outcome(target.format_help)
    elif op == "use:defaults":
        outcome(target.get_defaults)
    elif op == "use:dump":
        o = outcome(target.parse_args, pre + [f"--{key}={c05.text_of(u)}"])
        if o["kind"] == "ok":
            outcome(target.dump, o["value"])
    else:
        raise AssertionError(op)


def hist_used_parser(shape, spec, history):
    """Fresh parser of the main grammar, then the history replayed on it -> (parser to parse with, configuration)."""
    p = c05.build_parser(shape, spec, "yaml", prog=HIST_PROG)
    cfg, target = _Cfg(), p
    for op in history:
        if op.startswith("use:"):
            _hist_use(target, cfg, shape, spec, op)
        elif op == "as-subcommand":
            target = _hist_register(p, cfg.mode)
        elif op == "set:default_env=True":
            p.default_env = True
        elif op == "set:parser_mode=json":
            p.parser_mode = "json"
        else:
            p.env_prefix = {"TOOL": "TOOL", "False": False, "True": True}[op.split("=")[1]]
        cfg.apply(op)
    return target, cfg


def hist_fresh_parser(shape, spec, cfg):
    """A parser built directly in the configuration `cfg` (constructor arguments only, never used before)."""
    p = c05.build_parser(shape, spec, cfg.mode, prog=HIST_PROG, env_prefix=cfg.prefix if cfg.prefix else False,
                         default_env=cfg.default_env)
    return _hist_register(p, cfg.mode) if cfg.sub else p


def hist_final_channels(shape, spec, v, cfg, quick):
    """(name, family, how, payload) of the setting {k: v} for a parser in configuration cfg."""
    key = c05.leaf_key(shape)
    full = ("fit." if cfg.sub else "") + key
    pre = ["fit"] if cfg.sub else []
    text = c05.text_of(v)
    doc = c05.nested_doc(full, v)
    envk = cfg.env({key: text})
    out = [
        ("argv_eq", "argv", "argv", pre + [f"--{key}={text}"]),
        ("parse_object", "obj", "object", doc),
        ("parse_string", "cfg", "string", json.dumps(doc)),
    ]
    if not quick:
        out += [
            ("parse_object_dotted", "obj.dotted", "object", {full: v}),
            ("cfg_str", "cfg", "argv", pre + ["--cfg=" + json.dumps(c05.nested_doc(key, v))]),
        ]
    if shape != "optdataclass":
        out += [
            ("env_dict", "env", "env_dict", envk),
            ("env_os", "env", "env_os", envk),
            ("env_os_parse_object", "env.via", "env_os_object", envk),
        ]
        if cfg.default_env:
            out.append(("env_os_implicit", "env.implicit", "env_os_implicit", envk))
    if shape in c05.GROUP_SHAPES:
        g = json.dumps({"k": v})
        out.append(("argv_group", "argv.group", "argv", pre + [f"--n={g}"]))
        out.append(("env_group", "env.group", "env_dict", cfg.env({"n": g})))
    # not judged: the parser's answer without the setting (names the effect "setting ignored")
    out.append(("nothing", None, "argv", pre + []))
    return out


def _hist_parse(target, how, payload):
    payload = copy.deepcopy(payload)
    if how == "argv":
        return _obs(target.parse_args, payload)
    if how == "object":
        return _obs(target.parse_object, payload)
    if how == "string":
        return _obs(target.parse_string, payload)
    if how == "env_dict":
        return _obs(target.parse_env, payload)
    with _environ(payload):
        if how == "env_os":
            return _obs(target.parse_args, [], env=True)
        if how == "env_os_object":
            return _obs(target.parse_object, {}, env=True)
        if how == "env_os_implicit":
            return _obs(target.parse_args, [])
    raise AssertionError(how)


_fresh_cache = {}


def hist_observe(case):
    """{"used": {channel: obs}, "fresh": {channel: obs}}: every final channel on a parser with the history replayed
    from scratch, and on a parser built directly in the final configuration."""
    from mc.util import restored_process_state, scratch_dir

    shape, spec, v, history = case["shape"], case["type"], case["value"], case["history"]
    cfg = _Cfg()
    for op in history:
        cfg.apply(op)
    obs, parses = {"used": {}, "fresh": {}}, 0
    with restored_process_state(), scratch_dir(chdir=True):
        for name, _fam, how, payload in hist_final_channels(shape, spec, v, cfg, case.get("quick")):
            target, cfg2 = hist_used_parser(shape, spec, history)
            assert cfg2.key() == cfg.key()
            obs["used"][name] = _hist_parse(target, how, payload)
            ck = json.dumps([shape, spec, v, cfg.key(), name])
            if ck not in _fresh_cache:  # reference parses are shared between the cases of a worker; they are counted
                _fresh_cache[ck] = _hist_parse(hist_fresh_parser(shape, spec, cfg), how, payload)  # once per key (parent)
            obs["fresh"][name] = _fresh_cache[ck]
            parses += 1 + sum(1 for op in history if op.startswith("use:") and op not in ("use:help", "use:defaults"))
    return obs, parses


def _op_cat(op):
    return op.replace("set:", "").split("=")[0]


def hist_class(history):
    """Class of a history by shape: the kinds of re-configuration it contains (env_prefix / default_env / parser_mode /
    as-subcommand, whatever the value), preceded by 'use>' when a use of the parser comes before the first of them."""
    reconf = [i for i, op in enumerate(history) if not op.startswith("use:")]
    if not reconf:
        return "use-only" if history else "fresh"
    cats = sorted({_op_cat(history[i]) for i in reconf})
    return ("use>" if reconf[0] > 0 else "") + "+".join(cats)


def hist_judge(case, obs):
    shape, spec, v, history = case["shape"], case["type"], case["value"], case["history"]
    cfg = _Cfg()
    for op in history:
        cfg.apply(op)
    chans = [c for c in hist_final_channels(shape, spec, v, cfg, case.get("quick"))]
    devs = []
    # (1) the used parser against the parser built directly in the final configuration, channel by channel
    found = {}
    for name, fam, _how, payload in chans:
        if fam is None:
            continue
        u, f = obs["used"][name], obs["fresh"][name]
        if u != f:
            effect = "setting-ignored" if u == obs["used"]["nothing"] else "rejected" if u[0] != "ok" else "other-value"
            found.setdefault((fam.split(".")[0], effect), []).append(
                {"channel": name, "payload": payload, "used_parser_gives": c05._short(u), "fresh_parser_gives": c05._short(f)})
    by_effect = {}
    for (fam, effect), rows in found.items():
        by_effect.setdefault(effect, {})[fam] = rows
    for effect, fams in sorted(by_effect.items()):
        sig = "history:%s:%s:%s" % (hist_class(history), "+".join(f for f in c05.COARSE if f in fams), effect)
        rows = [r for f in fams.values() for r in f]
        devs.append({"signature": sig, "detail": json.dumps({"history": history, "deviating": rows[:4], "n": len(rows)}, default=repr)[:3000]})
    if obs["used"]["nothing"] != obs["fresh"]["nothing"]:
        devs.append({"signature": "history:%s:no-setting:other-value" % hist_class(history),
                     "detail": json.dumps({"history": history, "used": c05._short(obs["used"]["nothing"]), "fresh": c05._short(obs["fresh"]["nothing"])})[:3000]})
    # (2) the channels of the directly built parser among each other (configurations the main block does not build)
    rows = [(fam, obs["fresh"][name]) for name, fam, _h, _p in chans if fam is not None]
    if len({json.dumps(o) for _, o in rows}) > 1:
        conf = "+".join(sorted({_op_cat(op) for op in history if not op.startswith("use:")})) or "default"
        ref = obs["fresh"]["argv_eq"]
        fams = {fam.split(".")[0] for fam, o in rows if o != ref}
        devs.append({"signature": "configuration:%s:%s" % (conf, "+".join(f for f in c05.COARSE if f in fams)),
                     "detail": json.dumps({"partition": _partition(rows), "observations": {n: c05._short(o) for n, o in obs["fresh"].items()}}, default=repr)[:3000]})
    return devs


# ------------------------------------------------------------------------------------------------------
# block "flags": env=True x defaults in {True, False} x entry point x split of two settings between the
# environment and another carrier

FLAG_SHAPES_QUICK = ["nested", "dataclass", "optdataclass"]
FLAG_SHAPES = ["nested", "top", "deep", "dataclass", "classgroup", "optdataclass"]
FLAG_W = 5


def flags_cases(quick):
    out = []
    for shape in FLAG_SHAPES_QUICK if quick else FLAG_SHAPES:
        for spec in c05.MULTI_TYPES:
            for v in c05.MULTI_VALUES if quick else c05.MULTI_VALUES + c05.MULTI_VALUES_MORE:
                if not c05.in_space(v, spec):
                    continue
                if v is None and not c05.conforms(None, spec):
                    continue  # null at a non-Optional key splits text / typed renderings by design (known finding 1)
                for defaults in (True, False):
                    for mode in ["yaml"] if quick else ["yaml", "json"]:
                        out.append({"block": "flags", "shape": shape, "type": spec, "value": v, "defaults": defaults, "mode": mode})
    return out


def flags_renderings(case):
    """(name, entry point, split, environment, how, payload).  split: which part the environment carries."""
    shape, v = case["shape"], case["value"]
    kkey, jkey = c05.leaf_key(shape), c05.sibling_key(shape)
    if shape == "optdataclass":  # the fields are no arguments of their own: the group variable carries k
        env_k = {c05.env_name("n"): json.dumps({"k": v})}
        env_j = None
        env_both = {c05.env_name("n"): json.dumps({"k": v, "j": FLAG_W})}
    else:
        env_k = {c05.env_name(kkey): c05.text_of(v)}
        env_j = {c05.env_name(jkey): c05.text_of(FLAG_W)}
        env_both = {**env_k, **env_j}
    parts = {
        "none": ({}, [(kkey, v), (jkey, FLAG_W)]),
        "k": (env_k, [(jkey, FLAG_W)]),
        "j": (env_j, [(kkey, v)]),
        "both": (env_both, []),
    }
    out = []
    for split, (env, rest) in parts.items():
        if env is None:
            continue
        doc_n, doc_d = {}, {}
        for key, x in rest:
            c05._insert(doc_n, key.split("."), copy.deepcopy(x))
            doc_d[key] = copy.deepcopy(x)
        words = [f"--{key}={c05.text_of(x)}" for key, x in rest]
        tn = json.dumps(doc_n)
        out += [
            (f"argv/{split}", "parse_args", split, env, "argv", words),
            (f"cfg_str/{split}", "parse_args--cfg", split, env, "argv", ["--cfg=" + tn]),
            (f"cfg_file/{split}", "parse_args--cfg", split, env, "file", tn),
            (f"parse_object/{split}", "parse_object", split, env, "object", doc_n),
            (f"parse_string/{split}", "parse_string", split, env, "string", tn),
            (f"parse_path/{split}", "parse_path", split, env, "path", tn),
        ]
        if "." in kkey and rest:
            out += [
                (f"parse_object_dotted/{split}", "parse_object", split, env, "object", doc_d),
                (f"parse_string_dotted/{split}", "parse_string", split, env, "string", json.dumps(doc_d)),
            ]
        if split == "both":
            out.append((f"parse_env/{split}", "parse_env", split, env, "env", None))
    # not judged: each part alone (names what a deviating rendering has lost)
    out.append(("only_k", None, "none", {}, "object", c05.nested_doc(kkey, v)))
    out.append(("only_j", None, "none", {}, "object", c05.nested_doc(jkey, FLAG_W)))
    out.append(("nothing", None, "none", {}, "object", {}))
    return out


def flags_observe(case):
    from mc.util import restored_process_state, scratch_dir

    obs, parses = {}, 0
    kw = {"env": True, "defaults": case["defaults"]}
    with restored_process_state(), scratch_dir(chdir=True):
        for name, _ep, _split, env, how, payload in flags_renderings(case):
            p = c05.build_parser(case["shape"], case["type"], case["mode"])
            payload = copy.deepcopy(payload)
            with _environ(env):
                if how == "argv":
                    o = _obs(p.parse_args, payload, **kw)
                elif how == "object":
                    o = _obs(p.parse_object, payload, **kw)
                elif how == "string":
                    o = _obs(p.parse_string, payload, **kw)
                elif how == "env":
                    o = _obs(p.parse_env, defaults=case["defaults"])
                else:
                    with open("r.json", "w") as f:
                        f.write(payload)
                    o = _obs(p.parse_args, ["--cfg", "r.json"], **kw) if how == "file" else _obs(p.parse_path, "r.json", **kw)
            obs[name] = o
            parses += 1
    return obs, parses


def flags_judge(case, obs):
    rend = [r for r in flags_renderings(case) if r[1] is not None]
    keys = [json.dumps(obs[r[0]]) for r in rend]
    if len(set(keys)) <= 1:
        return []
    # the reference: what the plain command line gives for the two settings (no environment involved)
    ref = obs["argv/none"]
    found = {}
    for name, ep, split, env, _how, payload in rend:
        o = obs[name]
        if o == ref:
            continue
        env_part_alone = {"k": obs["only_k"], "j": obs["only_j"]}.get(split)
        rest_alone = {"k": obs["only_j"], "j": obs["only_k"]}.get(split)
        if split in ("k", "j") and o == rest_alone:
            effect = "environment-part-lost"
        elif split in ("k", "j") and o == env_part_alone:
            effect = "carrier-part-lost"
        elif split == "both" and o == obs["nothing"]:
            effect = "environment-part-lost"
        else:
            effect = "rejected" if o[0] != "ok" else "other-value"
        found.setdefault(effect, []).append(
            {"entry_point": ep, "rendering": name, "environment": env, "payload": payload, "got": c05._short(o), "argv_gives": c05._short(ref)})
    out = []
    for effect, rows in sorted(found.items()):
        eps = "+".join(sorted({r["entry_point"] for r in rows}))
        splits = "+".join(s for s in ("none", "k", "j", "both") if any(r["rendering"].endswith("/" + s) for r in rows))
        sig = f"env-flag:defaults={case['defaults']}:{eps}:env-carries-{splits}:{effect}"
        out.append({"signature": sig, "detail": json.dumps({"type": c05.type_name(case["type"]), "value": case["value"], "deviating": rows[:4], "n": len(rows)}, default=repr)[:3000]})
    return out


# ------------------------------------------------------------------------------------------------------
# driver side

_OBSERVE = {"undef": (undef_observe, undef_judge), "hist": (hist_observe, hist_judge), "flags": (flags_observe, flags_judge)}


def _dispatch(block):
    if block not in _OBSERVE:  # blocks "nargs" and "subcmd": mc/checks/c05_shapes.py (imports this module)
        from mc.checks import c05_shapes

        _OBSERVE.update(c05_shapes.OBSERVE)
    return _OBSERVE[block]


def cases(quick):
    from mc.checks import c05_shapes

    return undef_cases(quick) + hist_cases(quick) + flags_cases(quick) + c05_shapes.cases(quick)


def run_case(case):
    observe, judge = _dispatch(case["block"])
    obs, _ = observe(case)
    return judge(case, obs)


def _flat(obs):
    out = []
    for x in obs.values():
        if isinstance(x, dict):
            out += _flat(x)
        else:
            out.append(x)
    return out


def hist_fresh_keys(case):
    cfg = _Cfg()
    for op in case["history"]:
        cfg.apply(op)
    return [json.dumps([case["shape"], case["type"], case["value"], cfg.key(), c[0]])
            for c in hist_final_channels(case["shape"], case["type"], case["value"], cfg, case.get("quick"))]


def work(case):
    observe, judge = _dispatch(case["block"])
    obs, parses = observe(case)
    flat = _flat(obs)
    return {
        "fresh_keys": hist_fresh_keys(case) if case["block"] == "hist" else [],
        "case": case,
        "devs": judge(case, obs),
        "parses": parses,
        "accepted": sum(1 for o in flat if o[0] == "ok"),
        "rejected": sum(1 for o in flat if o[0] != "ok"),
    }
