"""C03 - every parse failure surfaces as ArgumentError or exit status 2, nothing else.

Fault enumeration on the real parsers.  Seven parser shapes (mc/checks/c03_shapes.py) are driven through all five
parse methods with every member of a finite, stated space of well- and ill-formed inputs:

  argv      one item (option-name form x value token x spelling) inserted into the shape's minimal valid command
            line; two items (context item + faulty item, both orders); in both exit_on_error modes
  string    the value tokens as whole documents, as `key: <token>` (raw YAML) and as `{"key": "<token>"}` (quoted),
            with the malformed key forms
  path      parse_path on missing / directory / binary / NUL / self-including / ... files and on generated documents
  object    parse_object with wrong-kind Python objects at every key (None, containers, non-string keys, cyclic
            objects) and the string tokens; also with defaults=False (objects / valid values at plain keys)
  env       parse_env with every token in every option's environment variable
  defcfg    parse_args([]) with a faulty default config file
  history   two (thorough: up to three) calls on ONE parser, drawn from a per-shape alphabet of valid calls, requested
            exits and cleanly reported faults (alone and combined with --print_config) through every channel; every
            call is judged by the single-call oracle (exit 0 only if that call itself asks for help / print_config)

Auxiliary parsers (sub-parsers of shape D, the ActionParser's parser of shape F) are built with default settings
when the main parser has exit_on_error=False, i.e. they rely on inheriting the parent's error mode (thorough: both
this and the explicit construction).

Oracle (independent of the implementation): the call must terminate within the horizon and end in one of
  Namespace | ArgumentError (exit_on_error False) | SystemExit(2) with usage + "error:" on stderr (exit_on_error
  True) | SystemExit(0) only when the command line asked for help / print_config AND something was printed.

A case is a JSON value {"shape", "eoe", "chan", <input>, "focus"[, "subs"]}; "focus" names the varied item (token class,
argument kind, name form) and determines the signature together with the observed deviation.  See notes/C03.md.
"""
from __future__ import annotations

import json
import os

from mc.checks import c03_shapes as S

META = {
    "id": "C03",
    "level": "fault_enumeration",
    "engine": "bounded exhaustive fault-token enumeration on real parsers (mc/checks/c03.py)",
    "technique": "exhaustive product of parser shapes x option-name forms x fault-value tokens x spelling x channel x "
    "exit_on_error on the real parse methods, each call classified by outcome type under a per-call time horizon",
    "level_text": "Every member of a finite, stated product of malformed inputs (option-name grammar x fault-token "
    "alphabet x seven parser shapes x five parse methods x both exit_on_error modes, single faults completely and "
    "pairs against a context set) is executed on the unmodified parse methods; the only accepted outcomes are a "
    "Namespace, ArgumentError, exit 2 with usage and error line, or a requested exit 0. The same oracle judges "
    "every call of all two-call histories over a per-shape call alphabet on one parser (a failed or exiting call "
    "must not change how the next call on the same parser reports). Fault enumeration is the right level because "
    "the property quantifies over malformed inputs and failure paths.",
    "level_note": "Trusted: the classification of one call in mc.util.outcome, the fixture classes, the option tables "
    "of the six shapes. Bounded by the token alphabet and by sequences of at most two (quick) / three (thorough) "
    "varying argv items; termination is decided by a per-call horizon (1 s of CPU time, about 300x the normal call, "
    "with a 5 s wall-clock backstop), not proved. Exceptions at parser construction and inputs of undocumented "
    "Python types (non-dict config objects) are out of scope.",
    "design_ref": "DESIGN.md §5 C03",
}

HORIZON = float(os.environ.get("C03_HORIZON", "5"))  # wall-clock backstop (blocking calls)
CPU_HORIZON = float(os.environ.get("C03_CPU_HORIZON", "1"))  # CPU seconds one parse call may burn (normal: < 0.03)
LIB = S.LIB
BIG = "<9x5000>"  # placeholder for a 5000-digit integer literal (expanded when the case is executed)
BIGF = "<1e400>"  # placeholder for the 401-digit integer 10**400 (an int that float() cannot represent)


def expand(s):
    return s.replace(BIG, "9" * 5000).replace(BIGF, "1" + "0" * 400) if isinstance(s, str) else s


# ------------------------------------------------------------------------------------------------
# value tokens: (token class, text, reduced sets the token belongs to)   - "valid" is substituted per option
#   reduced sets (quick tier only; the thorough tier uses the full alphabet everywhere):
#     a = argv items with a non-plain option-name form        d = documents / objects with a non-plain key form
#     s = non-plain name forms of scalar-typed options (argparse rejects the name before looking at the value)

VALUES = [
    ("valid", None, "ads"),
    ("empty", "", "ads"),
    ("space", " ", ""),
    ("dash", "-", "a"),
    ("double-dash", "--", "as"),
    ("null", "null", "ad"),
    ("open-bracket", "[", "ad"),
    ("open-brace", "{", ""),
    ("close-bracket", "]", ""),
    ("broken-list", "[1,", ""),
    ("broken-map", "{a", ""),
    ("bad-nesting", "a: b: c", ""),
    ("cyclic-alias-list", "&x [*x]", "ads"),
    ("cyclic-alias-map", "&x {k: *x}", ""),
    ("undefined-alias", "*x", ""),
    ("python-tag", "!!python/object:os.system", ""),
    ("binary-tag", "!!binary x", ""),
    ("directive", "%TAG", ""),
    ("complex-key", "? :", ""),
    ("tab", "\t", ""),
    ("nul", "\x00", "a"),
    ("float-overflow", "1e999", ""),
    ("huge-int", BIG, ""),
    ("int-beyond-float", BIGF, ""),
    ("dot-underscore", "._", ""),
    ("list-document", "[1, 2]", ""),
    ("int-key-mapping", "{1: 2}", ""),
    ("mapping-unknown-key", "zz: 1", ""),
    ("list-of-unknown-key-mapping", '[{"zz": 1}]', ""),
    ("mapping-sets-config-key", "cfg: 'i: 2'", ""),
    ("nonimportable-path", "no.such.Class", "ad"),
    ("module-attr-not-class", "os.path", ""),
    ("module", "os", ""),
    ("bare-class-name", "Calendar", ""),
    ("not-a-subclass", f"{LIB}.Other", ""),
    ("import-path-not-class", f"{LIB}.not_a_class", ""),
    ("spec-class_path-int", '{"class_path":1}', "a"),
    ("spec-init_args-list", '{"class_path":"calendar.Calendar","init_args":[1]}', "ad"),
    ("spec-no-class_path", '{"init_args":{}}', ""),
    ("spec-unknown-init-arg", f'{{"class_path":"{LIB}.Sub1","init_args":{{"zz":1}}}}', ""),
    ("spec-init_args-null", f'{{"class_path":"{LIB}.Sub1","init_args":null}}', ""),
    ("spec-dict_kwargs-list", f'{{"class_path":"{LIB}.Sub2","dict_kwargs":[1]}}', ""),
    ("spec-nested-bad-path", f'{{"class_path":"{LIB}.Sub2","init_args":{{"inner":"no.such.Class"}}}}', ""),
    ("missing-file", "missing.yaml", "a"),
    ("directory", "adir", ""),
    ("empty-file", "empty.yaml", ""),
    ("binary-file", "binary.yaml", ""),
    ("nul-file", "nul.yaml", ""),
    ("self-including-file", "self.yaml", ""),
    ("file-sets-config-key", "setcfg.yaml", ""),
    ("list-document-file", "list.yaml", ""),
    ("scalar-document-file", "scalar.yaml", ""),
    ("broken-file", "broken.yaml", ""),
    ("cyclic-list-file", "cyclist.yaml", ""),
    ("cyclic-map-file", "cycmap.yaml", ""),
    ("unknown-key-file", "unknown.yaml", ""),
]
FILE_TOKENS = {c for c, t, _ in VALUES if c.endswith("-file") or c in ("directory",)}
OBJECTS_REDUCED = ("py-none", "py-int", "py-list", "py-dict", "py-cyclic-list", "py-spec-init_args-list")

# tokens that make the dict -> Namespace conversion run forever on the current tree (known finding); they are
# enumerated at conversion-prone positions only through a handful of representatives (see ntp_policy)
NTP_TOKENS = {"cyclic-alias-map", "cyclic-map-file"}
NTP_KIND_BASES = {"config", "dataclass", "class", "class-link-target", "action-parser",
                  "document", "list-class", "default-config-file", "parse_path-argument", "subcommand-key",
                  "subcommand-branch", "subsubcommand-branch", "subcommand-branch-unselected"}

# python objects for parse_object (JSON encodable; markers are expanded by build_obj)
OBJECTS = [
    ("py-none", None),
    ("py-true", True),
    ("py-int", 1),
    ("py-float", 1.5),
    ("py-int-beyond-float", {"__pow__": [10, 400]}),
    ("py-empty-list", []),
    ("py-empty-dict", {}),
    ("py-list", [1]),
    ("py-dict", {"a": 1}),
    ("py-list-none", [None]),
    ("py-list-of-unknown-key-dict", [{"zz": 1}]),
    ("py-nonstring-key-dict", {"__items__": [[1, 2]]}),
    ("py-cyclic-list", {"__cyclic__": "list"}),
    ("py-cyclic-dict", {"__cyclic__": "dict"}),
    ("py-spec-class_path-int", {"class_path": 1}),
    ("py-spec-init_args-list", {"class_path": "calendar.Calendar", "init_args": [1]}),
    ("py-spec-no-class_path", {"init_args": {}}),
    ("py-spec-init_args-none", {"class_path": f"{LIB}.Sub1", "init_args": None}),
    ("py-bytes", {"__bytes__": "00ff"}),
    ("py-tuple", {"__tuple__": [1, 2]}),
]
NTP_OBJECTS = {"py-cyclic-dict"}


def build_obj(x):
    """Fresh Python object from its JSON encoding."""
    if isinstance(x, list):
        return [build_obj(v) for v in x]
    if isinstance(x, dict):
        if "__items__" in x:
            return {build_obj(k): build_obj(v) for k, v in x["__items__"]}
        if "__cyclic__" in x:
            if x["__cyclic__"] == "list":
                v = []
                v.append(v)
            else:
                v = {}
                v["k"] = v
            return v
        if "__pow__" in x:
            return x["__pow__"][0] ** x["__pow__"][1]
        if "__bytes__" in x:
            return bytes.fromhex(x["__bytes__"])
        if "__tuple__" in x:
            return tuple(build_obj(v) for v in x["__tuple__"])
        return {k: build_obj(v) for k, v in x.items()}
    return expand(x)


# ------------------------------------------------------------------------------------------------
# option-name forms


def name_forms(dest, kind):
    """(form label, option string without value) for one declared option."""
    k = dest
    forms = [
        ("plain", f"--{k}"),
        ("plus", f"--{k}+"),
        ("trailing-dot", f"--{k}."),
        ("empty-segment", f"--{k}..x"),
        ("unknown-subkey", f"--{k}.zz"),
        ("init_args-subkey", f"--{k}.init_args.zz"),
        ("class_path-subkey", f"--{k}.class_path"),
        ("dict_kwargs-subkey", f"--{k}.dict_kwargs.z"),
        ("help-subkey", f"--{k}.help"),
        ("triple-dash", f"---{k}"),
        ("leading-dot", f"--.{k}"),
    ]
    last = k.split(".")[-1]
    if len(last) >= 2:
        forms.append(("abbreviation", f"--{k[:-1]}"))
    if kind.startswith("class") or kind == "list-class":
        forms.append(("init-arg-short", f"--{k}.a"))
        forms.append(("init-arg-long", f"--{k}.init_args.a"))
    return forms


KEY_FORMS = [  # for documents / objects: (form label, key built from dest)
    ("plain", "{k}"),
    ("plus", "{k}+"),
    ("trailing-dot", "{k}."),
    ("empty-segment", "{k}..x"),
    ("unknown-subkey", "{k}.zz"),
    ("init_args-subkey", "{k}.init_args.zz"),
    ("class_path-subkey", "{k}.class_path"),
    ("dict_kwargs-subkey", "{k}.dict_kwargs.z"),
]

GLOBAL_NAMES = [  # pseudo options every shape is asked about (kind "unknown-option")
    ("unknown", "--zz"),
    ("unknown-dotted", "--zz.y"),
    ("bare-double-dash", "--"),
    ("bare-dash", "-"),
    ("empty-name", "--="),
    ("short-unknown", "-z"),
]

HELPISH = ("--help", "-h", "--print_config", "--version")


def allows_exit0(argv):
    for a in argv:
        name = a.split("=", 1)[0]
        if name in HELPISH or name.endswith(".help") or name.startswith("--print_"):
            return True
    return False


# ------------------------------------------------------------------------------------------------
# signatures: (deviation, fault-token family, position family).  Families merge token classes / argument kinds
# that reach the same code, so that one root cause gives one signature; the exact token class, argument kind and
# name form are part of the detail text.

TOK_FAMILY = {
    "cyclic-list-file": "cyclic-alias-list",
    "py-cyclic-list": "cyclic-alias-list",
    "cyclic-map-file": "cyclic-alias-map",
    "py-cyclic-dict": "cyclic-alias-map",
    "dot-underscore": "unconstructible-yaml-number",
    "huge-int": "unconstructible-yaml-number",
    "nul-file": "nul-in-document",
    "file-sets-config-key": "sets-config-key",
    "self-including-file": "sets-config-key",
    "mapping-sets-config-key": "sets-config-key",
    "py-spec-init_args-list": "spec-init_args-list",
    "py-spec-class_path-int": "spec-class_path-int",
    "py-spec-no-class_path": "spec-no-class_path",
    "py-spec-init_args-none": "spec-init_args-null",
    "py-nonstring-key-dict": "int-key-mapping",
    "py-int-beyond-float": "int-beyond-float",
    "py-list-of-unknown-key-dict": "list-of-unknown-key-mapping",
}
# faults that strike in the loader / conversion layer, before the declared type of the argument matters: their
# position is named coarsely (document / config-option / other-argument / parse_path-argument / default-config-file)
LOADER_LEVEL = {"cyclic-alias-list", "cyclic-alias-map", "unconstructible-yaml-number", "binary-file", "nul"}

POS_FAMILY = {
    "config": "config", "config@sub": "config", "config@subsub": "config", "action-parser": "sub-parser",
    "document": "document",
    "parse_path-argument": "parse_path-argument",
    "default-config-file": "default-config-file",
    "subcommand-key": "subcommand-key", "subsubcommand-key": "subcommand-key",
    "subcommand-branch": "subcommand-branch", "subsubcommand-branch": "subcommand-branch",
    "subcommand-branch-unselected": "subcommand-branch",
    "unknown-option": "unknown-option", "positional": "positional", "unexpected-positional": "positional",
    "builtin-option": "builtin-option",
    "dataclass": "structured", "class": "structured", "list-class": "structured",
    "class-link-target": "structured",
    "any": "untyped", "untyped-dict": "untyped", "untyped-list": "untyped", "link-source-strict": "untyped",
    "nargs-2-int": "nargs", "nargs-star-int": "nargs", "nargs-optional-int": "nargs",
    "registered-decimal": "registered-decimal", "restricted-float": "restricted-number",
    "type": "type-of-class", "callable": "callable", "dict-str-int": "typed-dict", "list-int": "typed-list",
    "optional-list-str": "typed-list", "list-any": "list-any", "list-dataclass": "list-dataclass",
    "nargs-plus-choices": "nargs-choices",
    "registered-uuid": "registered-uuid", "registered-range": "registered-range",
    "registered-timedelta": "registered-timedelta", "registered-complex": "registered-complex",
    "registered-bytes": "registered-bytes", "registered-path": "registered-path",
}
PLAIN_FORMS = {"plain", "abbreviation", "raw", "quoted", "nested:raw"}


def tok_family(tok, kind):
    if kind == "default-config-file":
        if tok in ("broken-file", "cyclic-list-file", "list-document-file", "nul-file", "scalar-document-file"):
            return "malformed-document"
        if tok in ("self-including-file", "unknown-key-file", "file-sets-config-key", "valid"):
            return "loadable-document"
    if kind.startswith("sub") and (tok.startswith("py-") or tok == "unknown-subcommand") and tok not in (
            "py-dict", "py-empty-dict", "py-cyclic-dict", "py-cyclic-list", "py-nonstring-key-dict") and not tok.startswith("py-spec") and "branch" in kind:
        return "non-mapping"
    return TOK_FAMILY.get(tok, tok)


def pos_family(kind):
    return POS_FAMILY.get(kind, "typed")


def loader_level_position(case):
    focus = case["focus"]
    kind, form = focus["kind"], focus.get("form", "plain")
    if kind in ("parse_path-argument", "default-config-file"):
        return kind
    if kind == "document" or (case["chan"] in ("string", "path") and form.split(":")[-1] == "raw"):
        return "document"  # the token is part of the document text the loader reads
    return "config-option" if pos_family(kind) == "config" else "other-argument"


def signature(dev, case):
    focus = case["focus"]
    if dev == "escape:decimal.InvalidOperation" and focus["kind"] == "registered-decimal":
        # the Decimal deserializer fails the same way on every value it cannot read, whatever the token
        return f"{dev}:non-decimal-value:registered-decimal"
    if dev == "escape:jsonargparse._util.PathError" and focus["kind"] == "parse_path-argument":
        # parse_path checks its path argument before the try block: one behaviour for every path that fails the check
        return f"{dev}:bad-path:parse_path-argument"
    if dev == "escape:AssertionError" and focus["kind"] == "nargs-plus-choices" and case["chan"] != "argv":
        # an option with nargs and choices but no type asserts that the value is a list: one behaviour for every
        # value that is not a list, whatever the token and the key form
        return f"{dev}:non-list-value:nargs-choices"
    tok = tok_family(focus["tok"], focus["kind"])
    if focus.get("ctx") == "same-item-twice" and tok.startswith("spec-"):
        # the second of two identical class-spec-like items is merged into the first: one behaviour for every spec
        tok = "repeated-class-spec"
    if tok in LOADER_LEVEL:
        return f"{dev}:{tok}:{loader_level_position(case)}"
    form = focus.get("form", "plain")
    if form.endswith(":raw") or form.endswith(":quoted"):
        form = form.rsplit(":", 1)[0]
    if form not in PLAIN_FORMS:
        return f"{dev}:name-form-{form}:{pos_family(focus['kind'])}"
    return f"{dev}:{tok}:{pos_family(focus['kind'])}"


# ------------------------------------------------------------------------------------------------
# executing one case


def _short(t):
    return t[len("builtins."):] if t.startswith("builtins.") else t


class _CpuHorizon:
    """CPU-time bound for one call (SIGPROF), independent of machine load; complements the wall-clock horizon of
    mc.util.outcome.  Fires repeatedly until the exception has left the library (an `except Exception` in the
    library may swallow the first one)."""

    def __init__(self, seconds):
        self.seconds = seconds
        self.armed = False

    def _raise(self, signum, frame):
        if self.armed:
            from mc.core import Horizon

            raise Horizon(f"no termination within {self.seconds}s of CPU time")

    def __enter__(self):
        import signal

        self.old = signal.signal(signal.SIGPROF, self._raise)
        self.armed = True
        signal.setitimer(signal.ITIMER_PROF, self.seconds, 0.25)
        return self

    def __exit__(self, *exc):
        import signal

        self.armed = False
        signal.setitimer(signal.ITIMER_PROF, 0)
        signal.signal(signal.SIGPROF, self.old)
        return False


def outcome(fn, *args, horizon_s):
    """mc.util.outcome under both horizons."""
    from mc.core import Horizon
    from mc.util import outcome as _outcome

    guard = _CpuHorizon(CPU_HORIZON)
    try:
        with guard:
            return _outcome(fn, *args, horizon_s=horizon_s)
    except Horizon:  # fired between the library call and the disarming
        return {"kind": "timeout"}


def _call(parser, call):
    """One parse call on the given parser; `call` = {"chan", <input>} (a single-call case has the same keys)."""
    chan = call["chan"]
    if chan in ("argv", "defcfg"):
        return outcome(parser.parse_args, [expand(a) for a in call["argv"]], horizon_s=HORIZON)
    if chan == "string":
        return outcome(parser.parse_string, expand(call["text"]), horizon_s=HORIZON)
    if chan == "path":
        if "text" in call:
            with open("doc.yaml", "w", encoding="utf-8", newline="") as f:
                f.write(expand(call["text"]))
        return outcome(parser.parse_path, call["path"], horizon_s=HORIZON)
    if chan == "object":
        if call.get("defaults") is False:  # the documented keyword of every parse method: do not start from the defaults
            return outcome(lambda obj: parser.parse_object(obj, defaults=False), build_obj(call["obj"]), horizon_s=HORIZON)
        return outcome(parser.parse_object, build_obj(call["obj"]), horizon_s=HORIZON)
    if chan == "env":
        return outcome(parser.parse_env, {k: expand(v) for k, v in call["env"].items()}, horizon_s=HORIZON)
    raise AssertionError(chan)


def execute(case, only=None):
    """Run the case on a fresh parser; returns the mc.util.outcome dict (value replaced by its type name).

    A history case (chan "history") runs its calls one after the other on ONE fresh parser and returns the list of
    their outcomes; `only=i` runs just call i of the history (on a fresh parser)."""
    from mc.util import restored_process_state

    shape, eoe, chan = case["shape"], case["eoe"], case["chan"]
    fdir, listing = S.fixture_dir(shape)
    with restored_process_state():
        os.chdir(fdir)
        try:
            dcf = case.get("defcfg")
            parser = S.build(shape, eoe, default_config_files=[dcf] if dcf else None, subs=case.get("subs", "same"))
            if chan == "history":
                calls = case["calls"] if only is None else [case["calls"][only]]
                outs = []
                for call in calls:
                    os.chdir(fdir)
                    outs.append(_call(parser, call))
            else:
                outs = [_call(parser, case)]
        finally:
            os.chdir(fdir)
            if os.path.exists("doc.yaml"):
                os.unlink("doc.yaml")
            if sorted(os.listdir(fdir)) != listing:
                from mc.core import HarnessError

                raise HarnessError(f"a parse call changed the scratch directory: {sorted(os.listdir(fdir))}")
    for o in outs:
        if o["kind"] == "ok":
            import jsonargparse

            o["is_namespace"] = isinstance(o["value"], jsonargparse.Namespace)
            o["value"] = type(o["value"]).__name__
    return outs if chan == "history" else outs[0]


def judge(case, o):
    """The oracle: list of deviation labels for one outcome."""
    eoe = case["eoe"]
    kind = o["kind"]
    text = (o.get("message") or "") + (o.get("stderr") or "")
    if kind == "timeout" or "no termination within" in text:
        return ["timeout"]
    if kind == "escape":
        return ["escape:" + _short(o["type"])]
    if kind == "ok":
        return [] if o.get("is_namespace") else ["returns-non-Namespace"]
    if kind == "ArgumentError":
        return ["ArgumentError-raised-with-exit_on_error"] if eoe else []
    if kind == "exit":
        code = o["code"]
        if code == 0:
            if case["chan"] == "argv" and allows_exit0(case["argv"]):
                # status 0 means "the help / the configuration was printed": an exit 0 that printed nothing is a
                # failure that left through the wrong channel
                return [] if (o.get("stdout") or "").strip() else ["exit-0-without-output"]
            return ["exit-0-unrequested"]
        if code == 2:
            if not eoe:
                return ["exit-2-without-exit_on_error"]
            devs = []
            if "usage:" not in o["stderr"]:
                devs.append("exit-2-without-usage")
            if "error:" not in o["stderr"]:
                devs.append("exit-2-without-error-line")
            return devs
        return [f"exit-status-{code}"]
    raise AssertionError(kind)


def _detail(o):
    text = o.get("message") or o.get("stderr") or ("stdout: " + o["stdout"] if o.get("stdout") else "")
    return f"{o['kind']} {o.get('type', '')} {o.get('code', '')} {text[:300]!r}"


def _obs(o):
    obs = o["kind"] if o["kind"] != "exit" else f"exit{o['code']}"
    if o["kind"] == "escape":
        obs += ":" + _short(o["type"])
    return obs


def run_one(case):
    """Worker: execute + judge; returns (observation class, [(signature, detail)])."""
    if case["chan"] == "history":
        return run_history(case)
    o = execute(case)
    if judge(case, o) == ["timeout"]:
        # a horizon hit is confirmed by a second execution (the first call in a worker also pays for lazy imports)
        o = execute(case)
    devs = []
    found = judge(case, o)
    with_defaults = None
    if found and case.get("defaults") is False:
        # a deviation the same input also shows with defaults=True is not an effect of the keyword
        c2 = {k: v for k, v in case.items() if k != "defaults"}
        with_defaults = judge(c2, execute(c2))
    for d in found:
        detail = f"[{case['focus']['tok']} at {case['focus']['kind']}, {case['focus'].get('form', 'plain')}] " + _detail(o)
        sig = signature(d, case)
        if with_defaults is not None and d not in with_defaults:
            sig, detail = "no-defaults:" + sig, "[defaults=False] " + detail
        devs.append((sig, detail))
    return case, _obs(o), devs


def run_history(case):
    """Worker for a history case: every call of the history is judged by the single-call oracle (a call may exit
    with status 0 only if IT asks for help / print_config).  A deviation of a later call that the same call also
    shows on a fresh parser is not an effect of the history: it is reported under the single-call signature."""
    calls = case["calls"]

    def view(i):
        v = {"eoe": case["eoe"], "chan": calls[i]["chan"], "focus": calls[i]["focus"]}
        if "argv" in calls[i]:
            v["argv"] = calls[i]["argv"]
        return v

    outs = execute(case)
    if any(judge(view(i), o) == ["timeout"] for i, o in enumerate(outs)):
        outs = execute(case)
    devs = []
    for i, o in enumerate(outs):
        found = judge(view(i), o)
        if not found:
            continue
        fresh = found if i == 0 else judge(view(i), execute(case, only=i)[0])
        for d in found:
            where = f"[call {i + 1} of {[c['label'] for c in calls]}, exit_on_error={case['eoe']}] "
            if d in fresh:
                devs.append((signature(d, view(i)), where + _detail(o)))
            else:
                after = ">".join(c["fam"] for c in calls[:i])
                devs.append((f"reused-parser:{d}:after-{after}", where + _detail(o)))
    return case, ">".join(_obs(o) for o in outs), devs


def run_case(case):
    _, _, devs = run_one(case)
    return [{"signature": s, "detail": d} for s, d in devs]


# ------------------------------------------------------------------------------------------------
# the space


def all_options(shape):
    """[(argv prefix, key path prefix, dest, kind, valid)] for every declared option of the shape."""
    out = [([], dest, kind, valid) for dest, kind, valid in S.OPTIONS[shape]]
    out += [(list(pre), dest, kind, valid) for pre, dest, kind, valid in S.SUB_OPTIONS.get(shape, [])]
    return out


def values_for(valid, level=None):
    """level None: the full alphabet; "a"/"d"/"s": a reduced set (see VALUES)."""
    for cls, text, levels in VALUES:
        if level and level not in levels:
            continue
        yield cls, (valid if cls == "valid" else text)


SCALAR_KINDS = {"link-target", "registered-decimal", "restricted-float", "int", "str", "float", "bool", "optional-int", "enum", "group-int", "group-str", "dataclass-field",
                "class-group-field", "link-source", "choices", "yesno", "nargs-2-int", "nargs-star-int",
                "nargs-optional-int", "action-parser-field", "nargs-plus-choices", "registered-uuid",
                "registered-range", "registered-timedelta", "registered-complex", "registered-bytes", "registered-path"}
# kinds whose value is a container / a structure: the command line may give them twice (second item merged into /
# replacing the first); the pair context "same-item-twice" is enumerated for these
CONTAINER_KINDS = {"list-int", "list-any", "optional-list-str", "list-dataclass", "list-class", "class", "class-link-target",
                   "dataclass", "dict-str-int", "untyped-dict", "untyped-list", "any", "callable", "type"}


def is_ntp(tok, kind):
    return (tok in NTP_TOKENS or tok in NTP_OBJECTS) and kind.split("@")[0] in NTP_KIND_BASES


def place(shape, pre, items):
    """Insert the varying argv items into the shape's minimal valid command line."""
    if pre:
        return list(pre) + items
    return items + S.BASE_ARGV[shape]


def argv_single_cases(shape, tier):
    """(case without eoe, ntp flag, is_representative)"""
    quick = tier == "quick"
    for pre, dest, kind, valid in all_options(shape):
        opt = "/".join(pre + [dest])
        for form, name in name_forms(dest, kind):
            level = None
            if quick and shape == "G" and kind.startswith("registered-") and form not in ("plain", "plus"):
                continue  # malformed names of scalar options are rejected by name: enumerated with the scalars of shape A
            if quick and form != "plain":
                level = "s" if kind.split("@")[0] in SCALAR_KINDS else "a"
            for tok, text in values_for(valid, level):
                for sp in ("=", " "):
                    items = [f"{name}={text}"] if sp == "=" else [name, text]
                    focus = {"tok": tok, "kind": kind, "form": form, "opt": opt, "spelling": "k=v" if sp == "=" else "k v"}
                    case = {"shape": shape, "chan": "argv", "argv": place(shape, pre, items), "focus": focus}
                    yield case, is_ntp(tok, kind), (form == "plain" and sp == "=")
            focus = {"tok": "no-value", "kind": kind, "form": form}
            yield {"shape": shape, "chan": "argv", "argv": place(shape, pre, [name]), "focus": focus}, False, False
    for form, name in GLOBAL_NAMES:
        for tok, text in values_for("1", "a" if quick and form not in ("unknown", "bare-double-dash") else None):
            for sp in ("=", " "):
                items = [f"{name}={text}"] if sp == "=" else [name, text]
                focus = {"tok": tok, "kind": "unknown-option", "form": form, "spelling": "k=v" if sp == "=" else "k v"}
                yield {"shape": shape, "chan": "argv", "argv": place(shape, [], items), "focus": focus}, False, False
    # a bare value as positional
    for tok, text in values_for("7"):
        focus = {"tok": tok, "kind": "positional" if shape == "F" else "unexpected-positional", "form": "plain"}
        argv = [text] if shape == "F" else place(shape, [], [text])
        yield {"shape": shape, "chan": "argv", "argv": argv, "focus": focus}, False, False
    for name in ("--help", "-h", "--print_config", "--print_config=zz", "--print_config=comments"):
        focus = {"tok": "no-value", "kind": "builtin-option", "form": name.lstrip("-").replace("=", "-")}
        yield {"shape": shape, "chan": "argv", "argv": place(shape, [], [name]), "focus": focus}, False, False


def context_items(shape, pre, dest, kind, valid):
    """Context items combined with every plain single of the option (both orders)."""
    ctx = [("same-option-valid", [f"--{dest}={valid}"])]
    top = {d: v for d, k, v in S.OPTIONS[shape]}
    if pre:
        ctx.append(("config-loaded", [f"--cfg={valid if kind.startswith('config') else _sub_ok(pre)}"]))
    elif "cfg" in top:
        ctx.append(("config-loaded", ["--cfg=ok.yaml"]))
    elif shape == "F":
        ctx.append(("config-loaded", ["--inner=inner_ok.yaml"]))
    if shape not in ("C", "F"):
        ctx.append(("print_config", ["--print_config"]))
    if kind.startswith("class"):
        ctx.append(("other-class", [f"--{dest}={LIB}.Sub2"]))
        ctx.append(("init-arg", [f"--{dest}.a=5"]))
    if kind == "list-class":
        ctx.append(("append", [f"--{dest}+={LIB}.Sub2"]))
    if kind == "list-int":
        ctx.append(("append", [f"--{dest}+=3"]))
    if kind in ("list-any", "optional-list-str"):
        ctx.append(("append", [f"--{dest}+=b"]))
    return ctx


def _sub_ok(pre):
    return "sub_ok.yaml" if pre == ["s1"] else "subsub_ok.yaml"


def argv_pair_cases(shape, tier):
    """Two varying items: context item + plain single of the option, both orders.  The thorough tier adds three
    items: every ordered pair of distinct context items around the single."""
    for pre, dest, kind, valid in all_options(shape):
        if tier == "quick" and kind.startswith("registered-") and shape == "G":
            continue  # scalar kinds: the pair contexts of scalars are enumerated with the scalars of shape A
        ctxs = context_items(shape, pre, dest, kind, valid)
        for tok, text in values_for(valid, "a" if tier == "quick" and kind.split("@")[0] in SCALAR_KINDS else None):
            if is_ntp(tok, kind):
                continue
            item = [f"--{dest}={text}"]
            if kind.split("@")[0] in CONTAINER_KINDS:
                focus = {"tok": tok, "kind": kind, "form": "plain", "ctx": "same-item-twice"}
                yield {"shape": shape, "chan": "argv", "argv": place(shape, pre, item + item), "focus": focus}, False, False
            for cname, citems in ctxs:
                for order in ("ctx-first", "ctx-last"):
                    items = citems + item if order == "ctx-first" else item + citems
                    focus = {"tok": tok, "kind": kind, "form": "plain", "ctx": f"{cname}:{order}"}
                    yield {"shape": shape, "chan": "argv", "argv": place(shape, pre, items), "focus": focus}, False, False
            if tier != "quick":
                for c1, items1 in ctxs:
                    for c2, items2 in ctxs:
                        if c1 != c2:
                            focus = {"tok": tok, "kind": kind, "form": "plain", "ctx": f"{c1}:{c2}:around"}
                            argv = place(shape, pre, items1 + item + items2)
                            yield {"shape": shape, "chan": "argv", "argv": argv, "focus": focus}, False, False


BASE_DOC = {"D": {"subcommand": "s1"}, "F": {"pos": 7}}  # what a document needs besides the varied key


def _yaml_doc(shape, pre, keys, value_text):
    """Block-style YAML document: the shape's base content plus the raw text `value_text` at pre/keys."""
    lines = []
    if not pre:
        lines += [f"{json.dumps(k)}: {json.dumps(v)}" for k, v in BASE_DOC.get(shape, {}).items()]
    depth = 0
    for name in pre:
        lines.append("  " * depth + f'"subcommand": {json.dumps(name)}')
        lines.append("  " * depth + f"{json.dumps(name)}:")
        depth += 1
    for seg in keys[:-1]:
        lines.append("  " * depth + f"{json.dumps(seg)}:")
        depth += 1
    lines.append("  " * depth + f"{json.dumps(keys[-1])}: {value_text}")
    return "\n".join(lines) + "\n"


def _obj_doc(shape, pre, keys, value):
    """The same document as a Python object (JSON encodable)."""
    out = dict(BASE_DOC.get(shape, {})) if not pre else {}
    node = out
    for name in pre:
        node["subcommand"] = name
        node[name] = {}
        node = node[name]
    for seg in keys[:-1]:
        node[seg] = {}
        node = node[seg]
    node[keys[-1]] = value
    return out


def doc_cases(shape, tier, chan):
    """parse_string / parse_path documents.

    quick: parse_string gets the full alphabet at every plain key (raw YAML and quoted), the d-set at malformed
    keys (raw); parse_path (same code behind a file read) gets the d-set at plain keys only."""
    quick = tier == "quick"

    def mk(text, focus):
        case = {"shape": shape, "chan": chan, "text": text, "focus": focus}
        if chan == "path":
            case["path"] = "doc.yaml"
        return case

    if chan == "string" or not quick:
        for tok, text in values_for(json.dumps(BASE_DOC.get(shape, {}))):
            yield mk(text, {"tok": tok, "kind": "document", "form": "plain"}), is_ntp(tok, "document"), True
    for pre, dest, kind, valid in all_options(shape):
        opt = "/".join(pre + [dest])
        valid = S.DOC_VALID.get(dest, valid)
        for form, pat in KEY_FORMS:
            if quick and chan == "path" and form != "plain":
                continue
            key = pat.format(k=dest)
            level = "d" if quick and (form != "plain" or chan == "path") else None
            for tok, text in values_for(valid, level):
                ntp = is_ntp(tok, kind)
                focus = {"tok": tok, "kind": kind, "form": _f(form, "raw"), "opt": opt}
                yield mk(_yaml_doc(shape, pre, [key], text), focus), ntp, False
                if quick and level:
                    continue
                quoted = json.dumps(_obj_doc(shape, pre, [key], text))
                yield mk(quoted, {"tok": tok, "kind": kind, "form": _f(form, "quoted"), "opt": opt}), ntp, False
            if form == "plain" and "." in dest and not (quick and chan == "path"):
                # nested spelling of a dotted key
                for tok, text in values_for(valid, "d" if quick else None):
                    focus = {"tok": tok, "kind": kind, "form": "nested:raw", "opt": opt}
                    yield mk(_yaml_doc(shape, pre, dest.split("."), text), focus), is_ntp(tok, kind), False


def _f(form, style):
    return style if form == "plain" else f"{form}:{style}"


def path_fault_cases(shape, tier):
    names = [(c, t) for c, t, _ in VALUES if c in FILE_TOKENS] + [
        ("nul", "\x00"), ("empty", ""), ("dash", "-"), ("valid", "ok.yaml"), ("nonimportable-path", "no.such.Class")]
    for tok, name in names:
        focus = {"tok": tok, "kind": "parse_path-argument", "form": "plain"}
        yield {"shape": shape, "chan": "path", "path": name, "focus": focus}, is_ntp(tok, "document"), True


def object_cases(shape, tier):
    quick = tier == "quick"
    for tok, obj in OBJECTS:
        if isinstance(obj, dict) and not (set(obj) & {"__cyclic__", "__bytes__", "__tuple__", "__pow__"}):
            focus = {"tok": tok, "kind": "document", "form": "plain"}
            yield {"shape": shape, "chan": "object", "obj": obj, "focus": focus}, False, False
    for pre, dest, kind, valid in all_options(shape):
        opt = "/".join(pre + [dest])
        valid = S.DOC_VALID.get(dest, valid)
        for form, pat in KEY_FORMS:
            key = pat.format(k=dest)
            reduced = quick and form != "plain"
            vals = [(t, o) for t, o in OBJECTS if not reduced or t in OBJECTS_REDUCED]
            # string values reach the same adaptation code as argv strings: reduced sets in the quick tier
            vals += list(values_for(valid, None if not quick else ("d" if reduced else "a")))
            for tok, val in vals:
                ntp = is_ntp(tok, kind)
                if tok == "valid" and dest in S.DOC_VALID:
                    val = json.loads(val)  # a real list, not its text
                obj = _obj_doc(shape, pre, [key], val)
                focus = {"tok": tok, "kind": kind, "form": form, "opt": opt}
                yield {"shape": shape, "chan": "object", "obj": obj, "focus": focus}, ntp, form == "plain"
                if form == "plain" and not ntp and (tok.startswith("py-") or tok == "valid" or not quick):
                    focus = dict(focus, defaults=False)
                    yield {"shape": shape, "chan": "object", "obj": obj, "defaults": False, "focus": focus}, False, False
    if shape == "D":
        for tok, val in OBJECTS + [("py-str", "s1"), ("unknown-subcommand", "zz")]:
            for label, obj in (
                ("subcommand-key", {"subcommand": val}),
                ("subcommand-branch", {"subcommand": "s1", "s1": val}),
                ("subcommand-branch-unselected", {"s1": val}),
                ("subsubcommand-branch", {"subcommand": "s2", "s2": {"subcommand": "x", "x": val}}),
            ):
                ntp = tok in NTP_OBJECTS and label != "subcommand-key"
                focus = {"tok": tok, "kind": label, "form": "plain"}
                yield {"shape": shape, "chan": "object", "obj": obj, "focus": focus}, ntp, False
                if not ntp:
                    focus = dict(focus, defaults=False)
                    yield {"shape": shape, "chan": "object", "obj": obj, "defaults": False, "focus": focus}, False, False


def env_base(shape, pre):
    env = {}
    if shape == "F":
        env["APP_POS"] = "7"
    if shape == "D":
        pre = pre or ["s1"]
        prefix = "APP_"
        for name in pre:
            env[prefix + "SUBCOMMAND"] = name
            prefix += name.upper() + "__"
    return env


def env_cases(shape, tier):
    for pre, dest, kind, valid in all_options(shape):
        var = "APP_" + "".join(s.upper() + "__" for s in pre) + dest.replace(".", "__").upper()
        valid = S.DOC_VALID.get(dest, valid)
        for tok, text in values_for(valid):
            env = env_base(shape, pre)
            env[var] = text
            focus = {"tok": tok, "kind": kind, "form": "plain", "opt": "/".join(pre + [dest])}
            yield {"shape": shape, "chan": "env", "env": env, "focus": focus}, is_ntp(tok, kind), False
    if shape == "D":
        for tok, text in values_for("s1"):
            for var, label in (("APP_SUBCOMMAND", "subcommand-key"), ("APP_S2__SUBCOMMAND", "subsubcommand-key")):
                env = {"APP_SUBCOMMAND": "s2"} if label == "subsubcommand-key" else {}
                env[var] = text
                focus = {"tok": tok, "kind": label, "form": "plain"}
                yield {"shape": shape, "chan": "env", "env": env, "focus": focus}, False, False


def defcfg_cases(shape, tier):
    for tok, name in [(c, t) for c, t, _ in VALUES if c in FILE_TOKENS] + [("valid", "ok.yaml")]:
        focus = {"tok": tok, "kind": "default-config-file", "form": "plain"}
        case = {"shape": shape, "chan": "defcfg", "defcfg": name, "argv": list(S.BASE_ARGV[shape]), "focus": focus}
        yield case, is_ntp(tok, "document"), True


# ------------------------------------------------------------------------------------------------
# histories: several parse calls on ONE parser.  Per shape a small alphabet of calls (valid calls, requested exits,
# cleanly reported faults of every class, alone and combined with --print_config, through every channel); the
# quick tier runs every ordered pair (any call of the alphabet, then a call of the second-call subset), the
# thorough tier the full square and triples.

HIST_OPT = {  # shape -> (argv prefix of the last level, an option there): "option without its value" must come last
    "A": ([], "i"), "B": ([], "g.a"), "C": ([], "d"), "D": (["s1"], "a"), "E": ([], "src"), "F": (["7"], "ch"),
}
HIST_TOP_OPT = {"A": "i", "B": "g.a", "C": "d", "D": "t", "E": "src", "F": "ch"}
HIST_SECOND_QUICK = ("a-valid", "a-valid-opt", "a-missing-required", "a-invalid", "a-unknown", "a-print",
                     "s-valid", "t-valid", "t-invalid", "o-valid", "e-valid", "p-valid")


def hist_alphabet(shape):
    """[call]: call = {"label", "fam", "chan", <input>, "focus"}; labels are unique per shape."""
    kinds = {d: k for d, k, _ in S.OPTIONS[shape]}
    kinds.update({"/".join(pre + [d]): k for pre, d, k, _ in S.SUB_OPTIONS.get(shape, [])})
    has_print = "cfg" in kinds  # --print_config exists only next to a config file option
    top = HIST_TOP_OPT[shape]
    valid = {d: v for d, _, v in S.OPTIONS[shape]}[top]
    lpre, lopt = HIST_OPT[shape]
    base = list(S.BASE_ARGV[shape])
    out, seen = [], set()

    def add(label, fam, chan, tok, kind, **payload):
        key = json.dumps([chan, payload], sort_keys=True)
        if key in seen:  # e.g. "missing required" is the plain valid call for shapes without required arguments
            return
        seen.add(key)
        call = {"label": label, "fam": fam, "chan": chan, "focus": {"tok": tok, "kind": kind, "form": "plain"}}
        call.update(payload)
        out.append(call)

    def argv(label, fam, tok, kind, items):
        add(label, fam, "argv", tok, kind, argv=items)

    k_top, P = kinds[top], "--print_config"
    argv("a-valid", "valid", "valid", "builtin-option", base)
    argv("a-valid-opt", "valid", "valid", k_top, [f"--{top}={valid}"] + base)
    argv("a-missing-required", "missing-required", "no-value", "positional", [])
    argv("a-unknown", "argv-error", "valid", "unknown-option", ["--zz=1"] + base)
    argv("a-novalue", "argv-error", "no-value", k_top, lpre + [f"--{lopt}"])
    argv("a-invalid", "value-error", "open-bracket", k_top, [f"--{top}=["] + base)
    argv("a-help", "help", "no-value", "builtin-option", ["--help"] + base)
    if "cfg" in kinds:
        argv("a-cfg", "valid", "valid", "config", ["--cfg=ok.yaml"] + base)
        argv("a-cfg-missing", "config-error", "missing-file", "config", ["--cfg=missing.yaml"] + base)
        argv("a-cfg-broken", "config-error", "broken-file", "config", ["--cfg=broken.yaml"] + base)
    if has_print:
        argv("a-print", "print_config", "no-value", "builtin-option", [P] + base)
        argv("a-print+missing-required", "print_config+missing-required", "no-value", "builtin-option", [P])
        argv("a-print+unknown", "print_config+argv-error", "valid", "unknown-option", [P, "--zz=1"] + base)
        argv("a-print+novalue", "print_config+argv-error", "no-value", k_top, lpre + [P, f"--{lopt}"])
        argv("a-print+invalid", "print_config+value-error", "open-bracket", k_top, [P, f"--{top}=["] + base)
        argv("a-print+badflag", "print_config+value-error", "no-value", "builtin-option", [P + "=zz"] + base)
        argv("a-print+cfg-missing", "print_config+config-error", "missing-file", "config", [P, "--cfg=missing.yaml"] + base)
        # a config that is read leniently but cannot be dumped (a key the parser does not define)
        argv("a-print+cfg-unknown", "print_config+config-error", "unknown-key-file", "config", [P, "--cfg=unknown.yaml"] + base)
    if shape == "D":  # the same below the subcommands
        argv("s-valid", "valid", "valid", "int@sub", ["s1", "--a=2"])
        argv("s-invalid", "value-error", "open-bracket", "int@sub", ["s1", "--a=["])
        argv("s-unknown", "argv-error", "valid", "unknown-option", ["s1", "--zz=1"])
        argv("s-missing-required", "missing-required", "no-value", "positional", ["s2"])
        argv("s-help", "help", "no-value", "builtin-option", ["s1", "--help"])
        argv("s-print", "print_config", "no-value", "builtin-option", ["s1", P])
        argv("s-print+unknown", "print_config+argv-error", "valid", "unknown-option", ["s1", P, "--zz=1"])
        argv("s-print+invalid", "print_config+value-error", "open-bracket", "int@sub", ["s1", P, "--a=["])
        argv("ss-valid", "valid", "valid", "int@subsub", ["s2", "x", "--v=2"])
        argv("ss-print+unknown", "print_config+argv-error", "valid", "unknown-option", ["s2", "x", P, "--zz=1"])
        argv("ss-print+missing-required", "print_config+missing-required", "no-value", "builtin-option", ["s2", P])
    # the other channels
    dvalid = S.DOC_VALID.get(top, valid)
    try:
        vobj = json.loads(dvalid)
    except ValueError:
        vobj = dvalid
    add("t-valid", "valid", "string", "valid", k_top, text=json.dumps(_obj_doc(shape, [], [top], vobj)))
    add("t-invalid", "value-error", "string", "open-bracket", k_top, text=json.dumps(_obj_doc(shape, [], [top], "[")))
    add("t-unknown", "unknown-key", "string", "mapping-unknown-key", "document", text="zz: 1\n")
    add("t-broken", "document-error", "string", "broken-map", "document", text="{a: [1,\n")
    add("o-valid", "valid", "object", "valid", k_top, obj=_obj_doc(shape, [], [top], vobj))
    add("o-invalid", "value-error", "object", "open-bracket", k_top, obj=_obj_doc(shape, [], [top], "["))
    add("o-unknown", "unknown-key", "object", "mapping-unknown-key", "document", obj={"zz": 1})
    var = "APP_" + top.replace(".", "__").upper()
    add("e-valid", "valid", "env", "valid", k_top, env=dict(env_base(shape, []), **{var: dvalid}))
    add("e-invalid", "value-error", "env", "open-bracket", k_top, env=dict(env_base(shape, []), **{var: "["}))
    add("p-valid", "valid", "path", "valid", "parse_path-argument", path="ok.yaml")
    add("p-broken", "document-error", "path", "broken-file", "parse_path-argument", path="broken.yaml")
    return out


def history_cases(shape, tier):
    """Ordered sequences of calls on one parser.  quick: (any call, second-call subset); thorough: every ordered pair
    and every triple (any, any, second-call subset; exit_on_error=False only)."""
    if shape not in HIST_TOP_OPT:
        return  # shape G: single calls only
    alpha = hist_alphabet(shape)
    second = [c for c in alpha if c["label"] in HIST_SECOND_QUICK]
    seqs = [[c1, c2] for c1 in alpha for c2 in (second if tier == "quick" else alpha)]
    if tier != "quick":
        seqs += [[c1, c2, c3] for c1 in alpha for c2 in alpha for c3 in second]
    for calls in seqs:
        focus = {"tok": calls[-1]["label"], "kind": "reused-parser", "form": "plain",
                 "after": ">".join(c["label"] for c in calls[:-1])}
        yield {"shape": shape, "chan": "history", "calls": calls, "focus": focus}, False, False


SHAPES = "ABCDEFG"
A_SET = {c for c, _, levels in VALUES if "a" in levels}


def _malformed_key(case):
    """Document / object cases whose key is a malformed form of a declared name (the documented 'key+' form is not
    malformed): the quick tier runs them with exit_on_error=False only."""
    form = case["focus"].get("form", "plain").split(":")[0]
    return form not in ("plain", "raw", "quoted", "nested", "plus")


def space(tier):
    """The complete list of cases of the tier: (case, hang_prone)."""
    quick = tier == "quick"
    out = []
    reps = set()  # NTP representatives already chosen (quick): one per (channel, argument kind family)

    def admit(case, ntp, representative, modes):
        if ntp:
            # inputs known not to terminate on this tree (each costs the CPU horizon): exit_on_error False only, and
            # in the quick tier one representative per (channel, argument kind, token); document-level ones in shape A
            modes = (False,)
            if quick:
                if not representative or (case["chan"] != "argv" and case["shape"] != "A"):
                    return
                key = (case["chan"], case["focus"]["kind"].split("@")[0], case["focus"]["tok"])
                if key in reps:
                    return
                reps.add(key)
            elif case["chan"] == "path" and case["focus"]["kind"] not in ("document", "parse_path-argument"):
                return  # thorough: per-key documents with these tokens through parse_string only (same code)
            elif case["focus"].get("spelling") == "k v":
                return  # thorough: the '=' spelling only
        for eoe in modes:
            # auxiliary parsers (shapes D, F): built with the main parser's exit_on_error value ("same") or with
            # default settings, relying on inheritance ("default"); the two constructions differ only for
            # exit_on_error=False.  quick: the inheriting construction only; thorough: both.
            variants = ("same",)
            if case["shape"] in S.AUX_SHAPES and not eoe:
                variants = ("default",) if quick or ntp else ("same", "default")
            for subs in variants:
                c = dict(case)
                c["eoe"] = eoe
                if subs != "same":
                    c["subs"] = subs
                out.append((c, ntp))

    both = (False, True)
    for shape in SHAPES:
        for case, ntp, rep in argv_single_cases(shape, tier):
            f = case["focus"]
            reduced = quick and f.get("spelling") == "k v" and f["form"] not in ("plain", "unknown", "bare-double-dash")
            # quick: the two-item spelling of a malformed option name runs with exit_on_error=False only (the
            # one-item spelling and the plain names run in both modes); the two-item spelling of a plain name runs in
            # exit mode with the a-set of tokens only
            if quick and f.get("spelling") == "k v" and f["form"] == "plain" and f["tok"] not in A_SET:
                reduced = True
            admit(case, ntp, rep, (False,) if reduced else both)
        for case, ntp, rep in argv_pair_cases(shape, tier):
            admit(case, ntp, rep, (False,) if quick else both)
        for chan in ("string", "path"):
            for case, ntp, rep in doc_cases(shape, tier, chan):
                f = case["focus"]
                one_mode = quick and (_malformed_key(case) or (f.get("form") == "quoted" and f["tok"] not in A_SET))
                # quick: malformed keys, and the quoted style (a string value, as in objects) outside the a-set of
                # tokens, run with exit_on_error=False only
                admit(case, ntp, rep, (False,) if one_mode else both)
        for case, ntp, rep in path_fault_cases(shape, tier):
            admit(case, ntp, rep, both)
        for case, ntp, rep in object_cases(shape, tier):
            admit(case, ntp, rep, (False,) if quick and (_malformed_key(case) or case.get("defaults") is False) else both)
        for case, ntp, rep in env_cases(shape, tier):
            # quick: in exit mode the environment gets the a-set of tokens (the values reach the same code as argv strings)
            admit(case, ntp, rep, (False,) if quick and case["focus"]["tok"] not in A_SET else both)
        for case, ntp, rep in defcfg_cases(shape, tier):
            admit(case, ntp, rep, both)
        for case, ntp, rep in history_cases(shape, tier):
            admit(case, ntp, rep, both if len(case["calls"]) == 2 else (False,))
    return out


# ------------------------------------------------------------------------------------------------
# driver side

MAX_NEW_SIGNATURES = 12
# (shape:option:channel) triples whose well-formed value cannot be written as ONE item / scalar (documented below)
VALID_NOT_EXPRESSIBLE = {
    "F:n2:argv",  # nargs=2 needs two argv items; the one-item form is a (rejected) fault case by itself
    "F:yn:argv",  # ActionYesNo takes no explicit value on the command line
    "E:dst:argv",  # the target of a link is not a command line option (configs may name it; the link overrides it)
}


def explore(ctx):
    from mc.core import canon_json, load_known

    cases = space(ctx.tier)
    seen_ids = set()
    uniq = []
    for case, ntp in cases:
        cid = canon_json(case)
        if cid in seen_ids:
            continue
        seen_ids.add(cid)
        uniq.append((case, ntp))
    normal = [c for c, ntp in uniq if not ntp]
    slow = [c for c, ntp in uniq if ntp]

    obs_count = {}
    valid_seen, valid_ok = set(), set()
    per_chan = {}
    per_shape = {}
    devs_all = {}
    nontrivial = 0
    inputs = set()
    timeouts = 0
    hist_calls = [0]  # parse calls executed inside histories
    hist_valid = [0, 0]  # histories ending in a well-formed call / of these: accepted

    def absorb(results):
        nonlocal nontrivial, timeouts
        for case, obs, devs in results:
            if case["chan"] == "history":
                # the calls of a history are counted per position; the outcome-mix guards below count single calls
                parts = obs.split(">")
                for i, part in enumerate(parts):
                    k = f"history-call{i + 1}:{part}"
                    obs_count[k] = obs_count.get(k, 0) + 1
                hist_calls[0] += len(parts)
                last = case["calls"][-1]
                if last["fam"] == "valid":
                    hist_valid[0] += 1
                    hist_valid[1] += parts[-1] == "ok"
                obs = "timeout" if "timeout" in parts else "ok" if all(part == "ok" for part in parts) else "history-not-all-ok"
            else:
                obs_count[obs] = obs_count.get(obs, 0) + 1
            key = f"{case['chan']}:{'exit' if case['eoe'] else 'raise'}"
            per_chan[key] = per_chan.get(key, 0) + 1
            per_shape[case["shape"]] = per_shape.get(case["shape"], 0) + 1
            c2 = dict(case)
            c2.pop("eoe")
            c2.pop("focus")
            inputs.add(canon_json(c2))
            f = case["focus"]
            if f["tok"] == "valid" and "opt" in f and f.get("form", "plain") in ("plain", "raw", "quoted") and "ctx" not in f:
                vkey = f"{case['shape']}:{f['opt']}:{case['chan']}"
                valid_seen.add(vkey)
                if obs == "ok":
                    valid_ok.add(vkey)
            if obs != "ok":
                nontrivial += 1
            if obs == "timeout":
                timeouts += 1
            for sig, detail in devs:
                devs_all.setdefault(sig, []).append((case, detail))

    # hang-prone representatives first, one per task, so that they spread over the workers
    absorb(ctx.pmap(run_one, slow, chunk=1))
    absorb(ctx.pmap(run_one, normal))

    known = {e["signature"] for e in load_known("C03") if e.get("status") == "open"}
    new_sigs = sorted(s for s in devs_all if s not in known)
    suppressed = new_sigs[MAX_NEW_SIGNATURES:]
    for sig in sorted(devs_all):
        if sig in suppressed:
            continue
        for case, detail in devs_all[sig]:
            ctx.deviation(sig, case, detail)
    if suppressed:
        ctx.note(f"{len(suppressed)} further deviation signatures not reported individually (first {MAX_NEW_SIGNATURES} "
                 f"new ones are): {suppressed[:40]}")

    total = len(uniq)

    def per_chan_total(chan):
        return sum(v for k, v in per_chan.items() if k.startswith(chan + ":"))

    for c in (normal[0], normal[len(normal) // 2], normal[-1]):
        ctx.sample(c)
    for chan in ("string", "path", "object", "env", "defcfg", "history"):
        ctx.sample(next(c for c in normal if c["chan"] == chan))
    ctx.count("history:parse-calls", hist_calls[0])
    ctx.count("history:ending-in-a-well-formed-call", hist_valid[0])
    ctx.count("history:well-formed-last-call-accepted", hist_valid[1])
    for k, v in sorted(obs_count.items()):
        ctx.count("outcome:" + k, v)
    for k, v in sorted(per_chan.items()):
        ctx.count("cases:" + k, v)
    for k, v in sorted(per_shape.items()):
        ctx.count("cases:shape-" + k, v)
    ctx.cover(
        evaluations=total,
        states=len(inputs),
        transitions=total - per_chan_total("history") + hist_calls[0],
        traces_validated_against_impl=total,
        distinct_nontrivial=nontrivial,
        rule="a case is one parse call (shape, channel, input, exit_on_error) on a fresh parser, or a history of two "
        "(thorough: up to three) parse calls on one fresh parser; cases are distinct by "
        "construction (deduplicated on their canonical JSON); non-trivial = the call(s) did not simply return a "
        "configuration (a failure was reported, the process exit was requested, an exception escaped or the horizon "
        "was hit); states = distinct (shape, channel, input) triples, transitions = parse calls executed",
        exhaustive=True,
        caps_hit=[],
        bounds={
            "shapes": list(SHAPES),
            "value_tokens": len(VALUES),
            "python_objects": len(OBJECTS),
            "argv_items_varied": 2 if ctx.quick else 3,
            "pairs": "context item x plain-form single, both orders" + (", exit_on_error False only" if ctx.quick else ""),
            "non_plain_name_forms": "reduced value set" if ctx.quick else "full value set",
            "horizon_s": HORIZON,
            "cpu_horizon_s": CPU_HORIZON,
            "hang_prone_cases": len(slow),
            "auxiliary_parsers": "built with default settings (inheriting) when exit_on_error=False" if ctx.quick
            else "both constructions (explicit same value / default settings) when exit_on_error=False",
            "histories": "ordered pairs (any call of the per-shape call alphabet, second-call subset)" if ctx.quick
            else "all ordered pairs of the per-shape call alphabet + triples (any, any, second-call subset; exit_on_error=False)",
            "history_call_alphabet": {sh: len(hist_alphabet(sh)) for sh in SHAPES if sh in HIST_TOP_OPT},
        },
        distinct_observations=len(obs_count),
        horizon_hits=timeouts,
    )
    ctx.assume("exceptions raised while constructing a parser are out of scope (none occurs: construction is checked)")
    ctx.assume("config objects given to parse_object are dicts (other Python types are undocumented inputs)")
    ctx.assume(f"a call that burns more than {CPU_HORIZON}s of CPU time (or {HORIZON}s wall) does not terminate")
    ctx.require(total > 20000, "more than 20000 cases")
    if new_sigs:
        # the outcome mix is only a vacuity criterion while nothing new is reported: a tree on which, say, every
        # failure exits with another status must end in VIOLATION lines, not in a harness error
        ctx.note("outcome-mix guards not applied: the run reports new deviations")
    else:
        not_addressed = sorted(valid_seen - valid_ok - VALID_NOT_EXPRESSIBLE)
        ctx.require(not not_addressed, "every declared option accepts its well-formed value through every channel "
                    "(the harness addresses the options correctly)" + (f"; failing: {not_addressed}" if not_addressed else ""))
        ctx.require(len(valid_ok) >= 150, "at least 150 (shape, option, channel) triples reached with a well-formed value")
        ctx.require(obs_count.get("ok", 0) > 1000, "more than 1000 accepted inputs")
        ctx.require(obs_count.get("ArgumentError", 0) > 5000, "more than 5000 inputs rejected with ArgumentError")
        ctx.require(obs_count.get("exit2", 0) > 5000, "more than 5000 inputs rejected with exit status 2")
        ctx.require(obs_count.get("exit0", 0) >= 10, "help / print_config exits observed")
        ctx.require(hist_valid[0] > 1000 and hist_valid[1] >= 0.9 * hist_valid[0],
                    f"histories ending in a well-formed call have that call accepted ({hist_valid[1]} of {hist_valid[0]}: "
                    "the call alphabet addresses the options correctly)")
        for k in ("history-call1:exit0", "history-call1:ArgumentError", "history-call1:exit2", "history-call2:exit0",
                  "history-call2:ArgumentError", "history-call2:exit2", "history-call2:ok"):
            ctx.require(obs_count.get(k, 0) >= 50, f"histories: at least 50 observations of {k}")
    ctx.require(all(per_shape.get(s, 0) > 1000 for s in SHAPES), "every parser shape explored")
    ctx.require(all(any(k.startswith(ch + ":") for k in per_chan) for ch in ("argv", "string", "path", "object", "env", "defcfg", "history")),
                "every channel explored")
