"""C08 helper: the parser shapes, their configurations and the value-spec language.

Value specs are JSON.  Markers (single-key dicts) denote what JSON cannot say:
    {"__tuple__": [..]}  {"__set__": [..]}  {"__enum__": "A"}  {"__ns__": {..}} (a group / subcommand level: a nested
    Namespace in the Namespace form of the configuration, a nested dict in the dict form)
    {"__odict__": {..}}  a collections.OrderedDict instance (what a parse returns for an OrderedDict[...] hint: a
    mapping object of a class of its own, which the library's entry-level copies - clone / strip_meta /
    recreate_branches - hand on as it is)
A plain JSON object is a dict *value* (it stays a dict in every form).

Two families of shapes:
  * generic  "gen:<type expr>:<default form>"  one argument --v of a container nest generated from the grammar
             L(t)=List[t] D(t)=Dict[str,t] T(t)=Tuple[t,int] V(t)=Tuple[t,...] S(t)=Set[t] O(t)=Optional[t]
             R(t)=OrderedDict[str,t] over the leaves i=int, e=E, plus a second argument --w: List[int] (so that a failure in --w happens after --v
             has been processed and vice versa);
  * named    hand-written parsers (dataclasses, class-typed arguments, signature defaults, groups, subcommands,
             paths, environment, default config files, classic nargs/choices actions, Any, links, and every kind
             of argument that is NOT type-hint based: plain store actions with a converter and nargs, append,
             ActionJsonSchema, ActionJsonnet, ActionParser, ActionYesNo - with raw-form and final-form defaults).
"""
from __future__ import annotations

import copy
import itertools
import json
import os

FIX = "mc.fixtures.c08.lib"
BAD = "zz"  # invalid for every position of the shapes below except Any / str

# ---------------------------------------------------------------------------------------------------
# value specs


MARKERS = ("__tuple__", "__set__", "__enum__", "__ns__", "__odict__")


def is_marker(spec, name=None):
    if isinstance(spec, dict) and len(spec) == 1:
        (k,) = spec
        if k in MARKERS:
            return name is None or k == name
    return False


class Unbuildable(Exception):
    """The value spec denotes no Python object (an unhashable invalid value placed inside a set)."""


def build(spec, form):
    """Fresh Python object for a spec.  form: "dict" (group levels are dicts) | "ns" (group levels are Namespaces)."""
    if isinstance(spec, list):
        return [build(x, form) for x in spec]
    if isinstance(spec, dict):
        if is_marker(spec, "__tuple__"):
            return tuple(build(x, form) for x in spec["__tuple__"])
        if is_marker(spec, "__set__"):
            try:
                return {build(x, form) for x in spec["__set__"]}
            except TypeError as ex:
                raise Unbuildable(str(ex)) from ex
        if is_marker(spec, "__enum__"):
            from mc.fixtures.c08.lib import E

            return E[spec["__enum__"]]
        if is_marker(spec, "__odict__"):
            from collections import OrderedDict

            return OrderedDict((k, build(v, form)) for k, v in spec["__odict__"].items())
        if is_marker(spec, "__ns__"):
            inner = {k: build(v, form) for k, v in spec["__ns__"].items()}
            if form == "ns":
                from jsonargparse import Namespace

                ns = Namespace()
                for k, v in inner.items():
                    ns[k] = v
                return ns
            return inner
        return {k: build(v, form) for k, v in spec.items()}
    return spec


def build_root(cfg, form):
    """The top level of a configuration is a mapping of argument names: a dict or a Namespace."""
    return build({"__ns__": cfg}, form)


def to_json(spec):
    """What the same value looks like in a JSON / YAML document or in an argv / environment string."""
    if isinstance(spec, list):
        return [to_json(x) for x in spec]
    if isinstance(spec, dict):
        if is_marker(spec, "__tuple__"):
            return [to_json(x) for x in spec["__tuple__"]]
        if is_marker(spec, "__set__"):
            return [to_json(x) for x in spec["__set__"]]
        if is_marker(spec, "__enum__"):
            return spec["__enum__"]
        if is_marker(spec, "__ns__") or is_marker(spec, "__odict__"):
            (m,) = spec
            return {k: to_json(v) for k, v in spec[m].items()}
        return {k: to_json(v) for k, v in spec.items()}
    return spec


def _children(spec):
    """(key, child) pairs of the logical value."""
    if isinstance(spec, list):
        return list(enumerate(spec))
    if isinstance(spec, dict):
        if is_marker(spec):
            (m,) = spec
            if m == "__enum__":
                return []
            inner = spec[m]
            return list(inner.items()) if isinstance(inner, dict) else list(enumerate(inner))
        return list(spec.items())
    return []


def positions(cfg):
    """Every position (path) of a configuration, in document order: leaves and containers alike."""
    out = []

    def walk(spec, path):
        for k, child in _children(spec):
            out.append(path + [k])
            walk(child, path + [k])

    walk(cfg, [])
    return out


def inject(spec, path, bad):
    """Copy of spec with the node at path replaced by `bad`."""
    if not path:
        return bad
    k, rest = path[0], path[1:]
    if isinstance(spec, list):
        return [inject(x, rest, bad) if i == k else x for i, x in enumerate(spec)]
    if is_marker(spec):
        (m,) = spec
        inner = spec[m]
        if isinstance(inner, dict):
            return {m: {kk: (inject(v, rest, bad) if kk == k else v) for kk, v in inner.items()}}
        return {m: [inject(x, rest, bad) if i == k else x for i, x in enumerate(inner)]}
    return {kk: (inject(v, rest, bad) if kk == k else v) for kk, v in spec.items()}


def flatten(cfg, prefix=""):
    """(dotted key, value spec) for every argument of a configuration (group levels are descended)."""
    out = []
    for k, v in cfg.items():
        if is_marker(v, "__ns__"):
            out += flatten(v["__ns__"], prefix + k + ".")
        else:
            out.append((prefix + k, v))
    return out


def _token(v):
    j = to_json(v)
    return j if isinstance(j, str) else json.dumps(j)


def _option(shape, k, v):
    """Command-line tokens of one argument.  Arguments declared with nargs take their items as separate tokens,
    append actions one occurrence per item, yes/no flags no value at all (shape["argv_style"]); everything else is
    --key=<text or JSON>."""
    style = shape.get("argv_style", {}).get(k)
    j = to_json(v)
    if style == "flag" and isinstance(j, bool):
        head, _, leaf = k.rpartition(".")
        return [f"--{k}"] if j else [f"--{head + '.' if head else ''}no_{leaf}"]
    if style and isinstance(j, list):
        toks = [x if isinstance(x, str) else json.dumps(x) for x in j]
        if style == "nargs":
            return [f"--{k}"] + toks
        if style == "repeat":
            return [f"--{k}={t}" for t in toks]
    return [f"--{k}={_token(v)}"]


def argv_of(shape, cfg):
    items = flatten(cfg)
    sub = shape.get("subcommand_key")
    if not sub:
        return [tok for k, v in items for tok in _option(shape, k, v)]
    chosen = cfg.get(sub)
    head = [f"--{k}={_token(v)}" for k, v in items if k != sub and not (isinstance(chosen, str) and k.startswith(chosen + "."))]
    if not isinstance(chosen, str):
        return head
    tail = [f"--{k[len(chosen) + 1:]}={_token(v)}" for k, v in items if k.startswith(chosen + ".")]
    return head + [chosen] + tail


def env_of(shape, cfg):
    prefix = shape.get("env_prefix", "APP")
    return {prefix + "_" + k.replace(".", "__").upper(): _token(v) for k, v in flatten(cfg)}


def text_of(cfg):
    return json.dumps(to_json({"__ns__": cfg}))


# ---------------------------------------------------------------------------------------------------
# generic family: container nests


CONSTRUCTORS = "LDTVSOR"


def gen_types(depth):
    """Type expressions (nested lists) of constructor depth <= depth; sets only over hashable element types."""
    levels = [[["i"], ["e"]]]
    for _ in range(depth):
        prev = levels[-1]
        cur = []
        for c in CONSTRUCTORS:
            for t in prev:
                if c == "S" and not hashable(t):
                    continue
                cur.append([c, t])
        levels.append(cur)
    return [t for lv in levels[1:] for t in lv]


def hashable(t):
    if t[0] in ("i", "e"):
        return True
    if t[0] in ("T", "V", "O"):
        return hashable(t[1])
    return False


def has_constructor(t, c):
    return t[0] == c or (len(t) > 1 and has_constructor(t[1], c))


def leaf_of(t):
    return t[0] if len(t) == 1 else leaf_of(t[1])


def type_depth(t):
    return 0 if len(t) == 1 else 1 + type_depth(t[1])


def type_name(t):
    return t[0] if len(t) == 1 else f"{t[0]}({type_name(t[1])})"


def parse_type_name(s):
    if "(" not in s:
        return [s]
    return [s[0], parse_type_name(s[2:-1])]


def py_type(t):
    from collections import OrderedDict
    from typing import Dict, List, Optional, Set, Tuple

    from mc.fixtures.c08.lib import E

    c = t[0]
    if c == "i":
        return int
    if c == "e":
        return E
    sub = py_type(t[1])
    return {
        "L": lambda: List[sub],
        "D": lambda: Dict[str, sub],
        "T": lambda: Tuple[sub, int],
        "V": lambda: Tuple[sub, ...],
        "S": lambda: Set[sub],
        "O": lambda: Optional[sub],
        "R": lambda: OrderedDict[str, sub],
    }[c]()


def gen_value(t, form, counter=None):
    """An accepted value spec.  form "raw": every leaf a string, tuples and sets written as lists, ordered dicts as
    plain dicts (everything needs conversion); "final": exactly what a parse returns (ints, enum members, tuples, sets,
    OrderedDict instances); "mixed": the containers already objects of their final classes, the leaves still strings
    (a configuration put together by hand from the right container classes)."""
    if counter is None:
        counter = itertools.count(1)
    c = t[0]
    if c == "i":
        n = next(counter)
        return n if form == "final" else str(n)
    if c == "e":
        n = next(counter)
        name = "AB"[n % 2]
        return {"__enum__": name} if form == "final" else name
    sub = t[1]
    if c == "L":
        return [gen_value(sub, form, counter), gen_value(sub, form, counter)]
    if c == "D":
        return {"k": gen_value(sub, form, counter), "m": gen_value(sub, form, counter)}
    if c == "T":
        items = [gen_value(sub, form, counter), gen_value(["i"], form, counter)]
        return items if form == "raw" else {"__tuple__": items}
    if c == "V":
        items = [gen_value(sub, form, counter), gen_value(sub, form, counter)]
        return items if form == "raw" else {"__tuple__": items}
    if c == "S":
        items = [gen_value(sub, form, counter), gen_value(sub, form, counter)]
        return items if form == "raw" else {"__set__": items}
    if c == "O":
        return gen_value(sub, form, counter)
    if c == "R":
        items = {"k": gen_value(sub, form, counter), "m": gen_value(sub, form, counter)}
        return items if form == "raw" else {"__odict__": items}
    raise AssertionError(t)


def gen_shape(name):
    """name = "gen:<type expr>:<default form>" with default form in none | final | raw."""
    _, texpr, dform = name.split(":")
    t = parse_type_name(texpr)

    def make(scratch):
        from typing import List

        from jsonargparse import ArgumentParser

        p = ArgumentParser(exit_on_error=False, env_prefix="APP", default_env=False)
        kw = {}
        if dform != "none":
            kw["default"] = build(gen_value(t, dform, itertools.count(20)), "dict")
        p.add_argument("--v", type=py_type(t), **kw)
        p.add_argument("--w", type=List[int], **({"default": [8, 9]} if dform != "none" else {}))
        return p

    cfgs = [
        {"v": gen_value(t, "raw"), "w": ["5", "6"]},
        {"v": gen_value(t, "final"), "w": [5, 6]},
    ]
    if has_constructor(t, "R"):
        # the value is an object of a mapping class of its own: also as a hand-made object whose leaves still need
        # conversion (for list / dict / tuple / set nests the raw configuration is that already)
        cfgs.append({"v": gen_value(t, "mixed"), "w": [5, "6"]})
    return {"name": name, "make": make, "configs": cfgs, "env_prefix": "APP"}


# ---------------------------------------------------------------------------------------------------
# named shapes


def _parser(**kw):
    from jsonargparse import ArgumentParser

    kw.setdefault("exit_on_error", False)
    kw.setdefault("env_prefix", "APP")
    kw.setdefault("default_env", False)
    return ArgumentParser(**kw)


def _headline(scratch):
    from typing import Dict, List, Set, Tuple

    from mc.fixtures.c08.lib import E

    from jsonargparse import ActionConfigFile

    p = _parser()
    p.add_argument("--cfg", action=ActionConfigFile)
    p.add_argument("--a", type=Tuple[List[E], Dict[str, E]], default=([E.A], {"k": E.B}))
    p.add_argument("--s", type=Set[Tuple[int, int]], default={(1, 2)})
    p.add_argument("--l", type=List[Tuple[List[int], str]], default=[([1], "x")])
    p.add_argument("--d", type=Dict[str, List[Tuple[int, str]]], default={"k": [(1, "x")]})
    return p


def _dataclasses(scratch):
    from typing import List, Optional

    from mc.fixtures.c08.lib import DC, DCOuter

    p = _parser()
    p.add_argument("--items", type=List[DC], default=[DC(x=4)])
    p.add_argument("--one", type=DC, default=DC(ys=[7]))
    p.add_argument("--outer", type=Optional[DCOuter], default=None)
    return p


def _classes(scratch):
    from collections import OrderedDict
    from typing import Dict, List, Optional, Tuple

    from jsonargparse import lazy_instance
    from mc.fixtures.c08.lib import Base, Sub

    p = _parser()
    p.add_argument("--obj", type=Base, default=lazy_instance(Sub, xs=[3, 4]))
    p.add_argument("--objs", type=List[Base], default=[])
    p.add_argument("--named", type=Dict[str, Base], default={})
    p.add_argument("--pair", type=Optional[Tuple[Base, int]], default=None)
    # components held by a mapping object of a class of its own (the parsed value is an OrderedDict instance)
    p.add_argument("--onamed", type=OrderedDict[str, Base], default=OrderedDict())
    return p


def _sigdefaults(scratch):
    from mc.fixtures.c08.lib import Outer

    p = _parser()
    p.add_class_arguments(Outer, "outer")
    p.add_argument("--n", type=int, default=1)
    return p


def _groups(scratch):
    from typing import Dict, List, Tuple

    from mc.fixtures.c08.lib import E

    p = _parser()
    p.add_argument("--g.x", type=List[int], default=[1, 2])
    p.add_argument("--g.t", type=Tuple[List[E], int], default=([E.A], 1))
    p.add_argument("--g.h.d", type=Dict[str, List[int]], default={"k": [1]})
    p.add_argument("--top", type=List[List[int]], default=[[1], [2]])
    return p


def _exit_mode(scratch):
    """The default error mode: failures print the usage and leave through SystemExit(2)."""
    from typing import Dict, List, Tuple

    from jsonargparse import ActionConfigFile
    from mc.fixtures.c08.lib import E

    p = _parser(exit_on_error=True)
    p.add_argument("--cfg", action=ActionConfigFile)
    p.add_argument("--g.t", type=Tuple[List[E], int], default=([E.A], 1))
    p.add_argument("--d", type=Dict[str, List[int]], default={"k": [1]})
    return p


def _subcommands(scratch, required=True):
    """Two subcommands; required=True is the default of add_subcommands (a configuration must name its subcommand),
    required=False makes the choice optional: a configuration may then hold settings of subcommands without saying
    which one is meant (the library chooses implicitly)."""
    from typing import Dict, List, Tuple

    from mc.fixtures.c08.lib import E

    p = _parser()
    p.add_argument("--v", type=List[int], default=[0])
    fit = _parser()
    fit.add_argument("--t", type=Tuple[List[E], int], default=([E.A], 1))
    fit.add_argument("--l", type=List[Dict[str, int]], default=[{"a": 1}])
    test = _parser()
    test.add_argument("--m", type=Dict[str, List[int]], default={"k": [1]})
    sc = p.add_subcommands(required=required)
    sc.add_subcommand("fit", fit)
    sc.add_subcommand("test", test)
    return p


def _subcommands_optional(scratch):
    return _subcommands(scratch, required=False)


def _subcommand_configs():
    """Configurations of the two subcommand shapes: three complete ones (raw / raw / final form), then the whole
    product  explicit choice in {absent, fit, test}  x  settings given for a subset of {fit, test}  (one raw and one
    final leaf per value).  Absent choice + settings = the library has to choose; explicit choice + settings of the
    other subcommand = the library has to drop a branch.  The first six get every invalid position as well."""
    fit = {"__ns__": {"l": [{"a": "1", "b": 2}]}}
    test = {"__ns__": {"m": {"k": ["1", 2]}}}
    cfgs = [
        {"v": ["1"], "subcommand": "fit", "fit": {"__ns__": {"t": [["A", "B"], "2"], "l": [{"a": "1"}, {"b": 2}]}}},
        {"subcommand": "test", "test": {"__ns__": {"m": {"k": ["1", 2]}}}},
        {"v": [1], "subcommand": "fit", "fit": {"__ns__": {"t": _t([E_A], 2)}}},
    ]
    product = []
    for choice in (None, "test", "fit"):
        for with_fit in (True, False):
            for with_test in (True, False):
                cfg = {} if choice is None else {"subcommand": choice}
                if with_fit:
                    cfg["fit"] = fit
                if with_test:
                    cfg["test"] = test
                product.append(cfg)
    # simplest-first would put the empty configuration first; the ones that make the library choose or drop come
    # first instead, because only the first six configurations of a shape get the invalid-position variants
    front = [c for c in product if "fit" in c and ("test" in c or "subcommand" not in c)][:3]
    return cfgs + front + [c for c in product if c not in front and c not in cfgs]


def _paths(scratch):
    from typing import List, Optional

    from jsonargparse import ActionConfigFile, ActionJsonSchema
    from jsonargparse.typing import Path_fr

    os.makedirs(os.path.join(scratch, "conf", "sub"), exist_ok=True)
    for rel in ("conf/one.txt", "conf/sub/two.txt"):
        with open(os.path.join(scratch, rel), "w") as f:
            f.write("x\n")
    with open(os.path.join(scratch, "conf", "inner.json"), "w") as f:
        f.write(json.dumps({"p": "sub/two.txt", "n": [1]}))
    with open(os.path.join(scratch, "conf", "sub", "nums.json"), "w") as f:
        f.write(json.dumps([["1", 2], [3]]))
    with open(os.path.join(scratch, "conf", "sub", "badnums.json"), "w") as f:
        f.write(json.dumps([["1", 2], ["zz"]]))
    with open(os.path.join(scratch, "conf", "sub", "obj.json"), "w") as f:
        f.write(json.dumps({"tags": [1, 2]}))
    with open(os.path.join(scratch, "conf", "sub", "badobj.json"), "w") as f:
        f.write(json.dumps({"tags": [1, "zz"]}))
    object_schema = copy.deepcopy(OBJECT_SCHEMA)
    p = _parser()
    p.add_argument("--cfg", action=ActionConfigFile)
    p.add_argument("--p", type=Optional[Path_fr], default=None)
    p.add_argument("--pl", type=List[Path_fr], default=[])
    p.add_argument("--n", type=List[int], default=[0])
    p.add_argument("--nf", type=List[List[int]], enable_path=True, default=[])
    # a schema-validated value read from a file keeps the file it came from (__path__ inside the value; save with
    # multifile=True writes it back to a file of its own)
    p.add_argument("--js", action=ActionJsonSchema(schema=object_schema), default={"tags": [0]})
    DECLARATIONS[id(p)] = (p, [("js:schema", object_schema)])
    return p


def _env(scratch):
    from typing import Dict, List, Tuple

    from mc.fixtures.c08.lib import E

    p = _parser(default_env=True)
    p.add_argument("--a", type=Tuple[List[E], int], default=([E.A], 1))
    p.add_argument("--n", type=List[int], default=[1])
    p.add_argument("--g.d", type=Dict[str, List[int]], default={"k": [1]})
    return p


def _default_config(scratch, content=None):
    from typing import Dict, List, Tuple

    from mc.fixtures.c08.lib import E

    os.makedirs(os.path.join(scratch, "dc"), exist_ok=True)
    with open(os.path.join(scratch, "dc", "defaults.json"), "w") as f:
        f.write(json.dumps({"a": [["B"], 5], "n": [4, 5]}) if content is None else content)
    p = _parser(default_config_files=[os.path.join(scratch, "dc", "*.json")])
    p.add_argument("--a", type=Tuple[List[E], int], default=([E.A], 1))
    p.add_argument("--n", type=List[int], default=[1])
    p.add_argument("--d", type=Dict[str, List[int]], default={"k": [1]})
    return p


def _default_config_bad(scratch):
    return _default_config(scratch, json.dumps({"a": [["B"], 5], "n": [4, "zz"]}))


def _classic(scratch):
    p = _parser()
    p.add_argument("--n", nargs="+", type=int, default=[1, 2])
    p.add_argument("--c", choices=["x", "y"], default="x")
    p.add_argument("--f", type=float, nargs=2, default=[0.5, 1.5])
    p.add_argument("--flag", action="store_true")
    return p


def _any(scratch):
    from typing import Any, Dict, List, Optional, Union

    p = _parser()
    p.add_argument("--x", type=Any, default=[{"k": [1]}])
    p.add_argument("--u", type=Optional[Union[List[int], Dict[str, List[int]]]], default=None)
    p.add_argument("--ld", type=List[dict], default=[{"a": [1]}])
    return p


def _links(scratch):
    from typing import List

    from mc.fixtures.c08.lib import Base, upper

    p = _parser()
    p.add_argument("--src", type=List[int], default=[1, 2])
    p.add_class_arguments(Base, "b")
    p.link_arguments("src", "b.xs", compute_fn=upper)
    return p


# Further objects in which the user declared defaults, per parser built by a shape: id(parser) -> (parser, [(label,
# object)]).  (Filled by the make functions; the parser is kept in the entry so that the id cannot be recycled; the
# harness drops the entry at the end of the case.)
DECLARATIONS = {}


def declarations(parser):
    return DECLARATIONS.get(id(parser), (None, []))[1]


# Schemas of the ActionJsonSchema arguments: validation fills in the schema defaults ("weight", "tags", "lvl"), so
# a value without them is a value that still needs adaptation.
ARRAY_SCHEMA = {
    "type": "array",
    "items": {
        "type": "object",
        "properties": {
            "name": {"type": "string"},
            "weight": {"type": "integer", "default": 7},
            "tags": {"type": "array", "items": {"type": "integer"}, "default": [1]},
        },
        "additionalProperties": False,
    },
}
OBJECT_SCHEMA = {
    "type": "object",
    "properties": {"tags": {"type": "array", "items": {"type": "integer"}}, "lvl": {"type": "integer", "default": 3}},
    "additionalProperties": False,
}

# Declared defaults of the non-type-hint arguments in the two forms (as in the generated family): "raw" = not yet
# converted / completed (hexadecimal text, objects without their schema defaults), "final" = what a parse returns.
ACTION_DEFAULTS = {
    "raw": {
        "plus": ["ff", "10"],
        "star": ["1"],
        "two": ["1", "2"],
        "opt": "a",
        "acc": ["p"],
        "arr": [{"name": "a"}, {"name": "b", "tags": [2]}],
        "obj": {"tags": [1]},
        "jn": {"a": [1, {"b": [2]}]},
        "inner.xs": ["a", "b"],
        "inner.ys": [1],
    },
    "final": {
        "plus": [255, 16],
        "star": [1],
        "two": [1, 2],
        "opt": 10,
        "acc": ["p"],
        "arr": [{"name": "a", "weight": 7, "tags": [1]}, {"name": "b", "weight": 7, "tags": [2]}],
        "obj": {"tags": [1], "lvl": 3},
        "jn": {"a": [1, {"b": [2]}]},
        "inner.xs": [10, 11],
        "inner.ys": [1],
    },
}


def _actions(scratch, dform):
    """Every kind of argument that is NOT type-hint based and can hold a container: plain argparse store actions
    with a user-written converter as type= and nargs + / * / N / ?, an append action, ActionJsonSchema (array and
    object schema with schema defaults), ActionJsonnet, a nested parser (ActionParser) with such arguments, ActionYesNo;
    declared defaults in raw or in final form."""
    from typing import List

    from jsonargparse import ActionConfigFile, ActionJsonnet, ActionJsonSchema, ActionParser, ActionYesNo
    from mc.fixtures.c08.lib import hexint

    d = build(ACTION_DEFAULTS[dform], "dict")
    array_schema, object_schema = copy.deepcopy(ARRAY_SCHEMA), copy.deepcopy(OBJECT_SCHEMA)  # fresh per parser
    inner = _parser()
    inner.add_argument("--xs", nargs="+", type=hexint, default=d["inner.xs"])
    inner.add_argument("--ys", type=List[int], default=d["inner.ys"])
    p = _parser()
    p.add_argument("--cfg", action=ActionConfigFile)
    p.add_argument("--plus", nargs="+", type=hexint, default=d["plus"])
    p.add_argument("--star", nargs="*", type=hexint, default=d["star"])
    p.add_argument("--two", nargs=2, type=hexint, default=d["two"])
    p.add_argument("--opt", nargs="?", type=hexint, const="5", default=d["opt"])
    p.add_argument("--acc", action="append", default=d["acc"])
    p.add_argument("--arr", action=ActionJsonSchema(schema=array_schema), default=d["arr"])
    p.add_argument("--obj", action=ActionJsonSchema(schema=object_schema), default=d["obj"])
    p.add_argument("--jn", action=ActionJsonnet(), default=d["jn"])
    p.add_argument("--inner", action=ActionParser(parser=inner))
    p.add_argument("--yn", action=ActionYesNo, default=False)
    # the schemas are declarations of the user as well (they carry the "default" keywords that validation fills in):
    # the harness watches them together with the declared defaults
    DECLARATIONS[id(p)] = (p, [("arr:schema", array_schema), ("obj:schema", object_schema)])
    return p


def _actions_raw(scratch):
    return _actions(scratch, "raw")


def _actions_final(scratch):
    return _actions(scratch, "final")


_ACTION_CONFIGS = [
    # every argument (but the jsonnet one) given, everything still to be converted / completed
    {
        "plus": ["a", "b"],
        "star": ["c", "d"],
        "two": ["1", "2"],
        "opt": "f",
        "acc": ["x", "y"],
        "arr": [{"name": "q"}, {"name": "r", "tags": [2, 3]}],
        "obj": {"tags": [2, 3]},
        "inner": {"__ns__": {"xs": ["d", "e"], "ys": ["3", 4]}},
        "yn": True,
    },
    # final form: nothing needs conversion  (the jsonnet argument is given here only: every evaluation of a jsonnet
    # text costs 40 ms, and each invalid-position variant of a configuration evaluates it in eight text-based calls)
    {
        "plus": [10, 11],
        "two": [1, 2],
        "arr": [{"name": "q", "weight": 7, "tags": [1]}],
        "obj": {"tags": [2], "lvl": 3},
        "jn": {"a": [1, {"b": [2]}]},
        "inner": {"__ns__": {"xs": [13, 14], "ys": [3]}},
    },
    # nothing given: the declared defaults themselves travel through the whole call
    {},
]
_ACTION_ARGV = {"plus": "nargs", "star": "nargs", "two": "nargs", "inner.xs": "nargs", "acc": "repeat", "yn": "flag"}


def _cp(cls, **init):
    d = {"class_path": f"{FIX}.{cls}"}
    if init:
        d["init_args"] = init
    return d


E_A = {"__enum__": "A"}
E_B = {"__enum__": "B"}


def _t(*items):
    return {"__tuple__": list(items)}


NAMED = {
    "headline": {
        "make": _headline,
        "config_option": True,
        "configs": [
            {"a": [["A", "B"], {"k": "B", "m": "A"}], "s": [["1", "2"], [3, 4]], "l": [[["1", "2"], "x"]], "d": {"k": [["1", "x"], [2, "y"]]}},
            {
                "a": _t([E_A, E_B], {"k": E_B, "m": E_A}),
                "s": {"__set__": [_t(1, 2), _t(3, 4)]},
                "l": [_t([1, 2], "x"), _t([3], "y")],
                "d": {"k": [_t(1, "x"), _t(2, "y")]},
            },
            {"a": _t(["A", E_B], {"k": "B"})},
        ],
    },
    "dataclasses": {
        "make": _dataclasses,
        "configs": [
            {"items": [{"x": "2", "ys": ["3", 4], "t": [["A"], "1"]}, {"x": 5}], "one": {"__ns__": {"x": "3", "ys": ["1"]}}},
            {"items": [{"x": 2, "ys": [3, 4], "t": _t([E_A], 1)}], "outer": {"d": {"x": 9, "t": [["B"], 2]}, "ds": [{"ys": ["1"]}]}},
        ],
    },
    "classes": {
        "make": _classes,
        "configs": [
            {"obj": _cp("Sub", xs=["1", 2], tp=[["A"], "s"], d={"k": ["1"]}), "objs": [_cp("Base", xs=[1]), f"{FIX}.Sub"]},
            {
                "obj": _cp("Holder", inner=_cp("Sub", xs=[1]), items=[_cp("Sub", xs=["2"])], pair=[_cp("Base"), 1]),
                "named": {"a": _cp("Sub", tp=_t([E_A], "q"))},
                "pair": _t(_cp("Sub", xs=[1]), 2),
            },
            {"obj": {"class_path": f"{FIX}.Other", "init_args": {"n": "3"}, "dict_kwargs": {"extra": [1, 2]}}, "pair": [{"class_path": f"{FIX}.Other", "dict_kwargs": {"e": {"k": [1]}}}, "2"]},
            {},
            # components inside an OrderedDict: as a plain mapping (document form) / as a hand-made OrderedDict object
            {"onamed": {"a": _cp("Sub", xs=["1"]), "b": f"{FIX}.Base"}},
            {"onamed": {"__odict__": {"a": _cp("Sub", tp=_t([E_A], "q")), "b": {"class_path": f"{FIX}.Other", "dict_kwargs": {"e": [1]}}}}},
        ],
    },
    "sigdefaults": {
        "make": _sigdefaults,
        "configs": [
            {},
            {"outer": {"__ns__": {"lst": ["3"], "dct": {"b": "2"}, "tl": [["4", 5], "6"], "anything": [{"k": [1]}]}}, "n": "2"},
            {"outer": {"__ns__": {"inner": _cp("Holder", items=[_cp("Sub")]), "tl": _t([1, 2], 3)}}},
        ],
    },
    "groups": {
        "make": _groups,
        "configs": [
            {"g": {"__ns__": {"x": ["1", 2], "t": [["A", "B"], "1"], "h": {"__ns__": {"d": {"k": ["1"], "m": [2]}}}}}, "top": [["1"], [2, "3"]]},
            {"g": {"__ns__": {"t": _t([E_A], 1)}}, "top": [[1]]},
        ],
    },
    "exit_mode": {
        "make": _exit_mode,
        "config_option": True,
        "configs": [{"g": {"__ns__": {"t": [["A", "B"], "1"]}}, "d": {"k": ["1"], "m": [2]}}],
    },
    "subcommands": {"make": _subcommands, "subcommand_key": "subcommand", "configs": _subcommand_configs()},
    "subcommands_optional": {"make": _subcommands_optional, "subcommand_key": "subcommand", "configs": _subcommand_configs()},
    "paths": {
        "make": _paths,
        "files": True,
        "config_option": True,
        "chdir": "conf",
        "configs": [
            {"p": "one.txt", "pl": ["one.txt", "sub/two.txt"], "n": ["1"]},
            {"cfg": "inner.json", "n": [2]},
            {"nf": "sub/nums.json"},
            {"nf": "sub/badnums.json", "n": ["1"]},
            {"js": "sub/obj.json", "n": ["1"]},
            {"js": "sub/badobj.json"},
        ],
    },
    "env": {
        "make": _env,
        "configs": [
            {"a": [["A", "B"], "2"], "n": ["1", 2], "g": {"__ns__": {"d": {"k": ["1"]}}}},
            {"a": _t([E_B], 2)},
        ],
    },
    "default_config": {"make": _default_config, "files": True, "configs": [{}, {"a": [["A"], "2"], "d": {"m": ["1"]}}]},
    "default_config_bad": {"make": _default_config_bad, "files": True, "configs": [{}, {"n": ["1"]}]},
    "classic": {
        "make": _classic,
        "configs": [{"n": ["1", "2"], "c": "y", "f": ["1", 2], "flag": True}, {"n": [3], "f": [0.25, 0.5]}],
    },
    "any": {
        "make": _any,
        "configs": [
            {"x": {"a": [_cp("Sub", xs=[1]), {"b": ["1"]}]}, "u": {"k": ["1", 2]}, "ld": [{"z": ["1"]}, {}]},
            {"x": _cp("Sub", xs=["1"]), "u": ["1", 2]},
            {"x": _t([1], {"k": [2]})},
        ],
    },
    "links": {
        "make": _links,
        "configs": [{"src": ["1", 2]}, {"src": [3], "b": {"__ns__": {"tp": [["A"], "z"]}}}],
    },
    "actions_raw": {"make": _actions_raw, "config_option": True, "argv_style": _ACTION_ARGV, "configs": _ACTION_CONFIGS},
    "actions_final": {"make": _actions_final, "config_option": True, "argv_style": _ACTION_ARGV, "configs": _ACTION_CONFIGS},
}

for _n, _s in NAMED.items():
    _s["name"] = _n
    _s.setdefault("env_prefix", "APP")


def get_shape(name):
    if name.startswith("gen:"):
        return gen_shape(name)
    return NAMED[name]


