"""C20 part C - built-in registered types: value grids (products) x parser mode x dump format x channel.

For every value v of the grid of type T:   cfg = parse_object({"x": v});  text = dump(cfg, format);
ser = the serialised form read back as an object;  then through every channel
    config string (parse_string), config file (--cfg FILE), object (parse_object({"x": ser})), argv (--x=<ser>)
the parsed value must be of exactly type(v) and equal to v under the type's own == (nan-aware; for range also
start/stop/step, because the round trip is claimed to be lossless and range.__eq__ compares as sequences).
"""
from __future__ import annotations

import itertools
import math

TYPES = ["complex", "Decimal", "UUID", "timedelta", "bytes", "bytearray", "range", "Path", "PosixPath"]


def pytype(tname):
    import datetime
    import decimal
    import pathlib
    import uuid

    return {
        "complex": complex, "Decimal": decimal.Decimal, "UUID": uuid.UUID, "timedelta": datetime.timedelta,
        "bytes": bytes, "bytearray": bytearray, "range": range, "Path": pathlib.Path, "PosixPath": pathlib.PosixPath,
    }[tname]  # fmt: skip


# ------------------------------------------------------------------------------------------------------
# value grids - every grid is a product of small component alphabets; values are JSON-encoded


def _complex_grid(tier):
    parts = ["0.0", "-0.0", "1.0", "-1.5", "0.1", "1e-07", "1e+16", "nan", "inf", "-inf"]
    if tier != "quick":
        parts += ["5e-324", "1.7976931348623157e+308", "0.3333333333333333", "-2.0", "123456789.0"]
    return [[a, b] for a in parts for b in parts]


def _decimal_grid(tier):
    # quick: every length up to 18 digits (all float-exactness boundaries: 15, 16, 17 digits), then a few longer ones
    lengths = list(range(1, 19)) + [20, 22, 25, 30] if tier == "quick" else range(1, 31)
    families = {
        "asc": lambda n: ("1234567890" * 3)[:n],
        "nines": lambda n: "9" * n,
        "one-zeros-one": lambda n: "1" if n == 1 else "1" + "0" * (n - 2) + "1",
    }
    if tier != "quick":
        families["one-zeros"] = lambda n: "1" + "0" * (n - 1)
        families["fives"] = lambda n: "5" * n
    out = ["0", "-0", "0.0", "0E+3", "0E-7", "NaN", "-NaN", "sNaN", "Infinity", "-Infinity",
           "0.5", "-0.25", "0.125", "1", "-2", "1024", "9007199254740992", "1E+2"]  # fmt: skip
    for n in lengths:
        for fam in families.values():
            digits = fam(n)
            for sign in ("", "-"):
                # exponent placements: integer, one decimal, pure fraction, scaled up, scaled far down / up
                places = [digits, digits[:-1] + "." + digits[-1] if n > 1 else "0." + digits, "0." + digits,
                          digits + "E+5", digits + "E-30"]
                if tier != "quick":
                    places += [digits + "E+30", digits + "E-400", digits + "E+400", "0.000" + digits]
                out += [sign + p for p in places]
    seen, uniq = set(), []
    for s in out:
        if s not in seen:
            seen.add(s)
            uniq.append(s)
    return uniq


def _uuid_grid(tier):
    import uuid

    out = [c * 32 for c in "0123456789abcdef"]
    out += ["%032x" % n for n in (1, 2**64, 2**127, 2**128 - 2, 10**30)]
    out += ["12345678123456781234567812345678", "00000000000000000000000000000001", "1e300000000000000000000000000000",
            "0e000000000000000000000000000000", "00001e30000000000000000000000000"]  # fmt: skip
    for ns in (uuid.NAMESPACE_DNS, uuid.NAMESPACE_URL):
        for name in ("", "a", "example.org"):
            out.append(uuid.uuid3(ns, name).hex)
            out.append(uuid.uuid5(ns, name).hex)
    if tier != "quick":
        out += ["%032x" % (1 << k) for k in range(0, 128, 4)]
    return list(dict.fromkeys(out))


def _timedelta_grid(tier):
    days = [-999999999, -2, -1, 0, 1, 2, 400, 999999999]
    secs = [0, 1, 59, 60, 3599, 3600, 3603, 86399]
    micro = [0, 1, 500000, 999999]
    if tier != "quick":
        days += [-400, 7, 36500]
        secs += [36000, 43200, 82800]
        micro += [10, 100000, 123456]
    return [[d, s, u] for d, s, u in itertools.product(days, secs, micro)]


def _bytes_grid(tier, small=False):
    from base64 import b64decode

    vals = [b""] + [bytes([i]) for i in range(256)]
    edge = [0x00, 0x7F, 0x80, 0xFF]
    vals += [bytes([a, b]) for a in edge for b in edge]
    # values whose base64 text is a scalar that a YAML / JSON reader takes for something else
    alphabet = "01e+x" if not small else "01e"
    if tier != "quick":
        alphabet = "0179eE+xob" if not small else "01e+x"
    for combo in itertools.product(alphabet, repeat=4):
        vals.append(b64decode("".join(combo)))
    for word in ("null", "Null", "NULL", "true", "True", "TRUE", "Infinity", "NaN+", "1234", "12345678",
                 "0x1F", "0o17", "0b11", "1e30", "1E30", "+1e3", "1e+3", "+123", "yes+", "None", "+0o7"):
        vals.append(b64decode(word))
    if tier != "quick" and not small:
        vals += [bytes(range(256)), bytes(range(255, -1, -1)), b"\x00" * 64]
    else:
        vals += [bytes(range(256))]
    return [v.hex() for v in dict.fromkeys(vals)]


def _range_grid(tier):
    big = 10**20
    starts = [-2, 0, 1, big]
    stops = [-3, 0, 1, 3, 10, -big]
    steps = [-3, -1, 1, 2, 5, big]
    if tier != "quick":
        starts += [-1, 2, 7, -big]
        stops += [-1, 2, 7, big]
        steps += [-2, 3, -big]
    return [[a, b, c] for a, b, c in itertools.product(starts, stops, steps)]


PATH_TOKENS = ["a", ".", "..", "/", " ", "~", "1", "1e3", "null", "true", "#", ":", ": ", "- ", "[a]", "{a}", "*", "&a",
               "!a", "%", "@", "`", "'", '"', "\n", "é", "-", "--x", "=", "\\", "|", ">", "0x1", ".5", "x.yaml", ",",
               # texts on which YAML 1.1 (PyYAML) and YAML 1.2 (ruyaml, used for commented dumps) resolve differently
               "on", "1:30", "1_0"]  # fmt: skip


def _path_grid(tier, depth):
    import pathlib

    seen, out = set(), []
    for n in range(0, depth + 1):
        for combo in itertools.product(PATH_TOKENS, repeat=n):
            s = "".join(combo)
            key = str(pathlib.PurePosixPath(s))  # distinct *values* (pathlib normalises on construction)
            if key not in seen:
                seen.add(key)
                out.append(s)
    return out


def values(tname, tier):
    if tname == "complex":
        return _complex_grid(tier)
    if tname == "Decimal":
        return _decimal_grid(tier)
    if tname == "UUID":
        return _uuid_grid(tier)
    if tname == "timedelta":
        return _timedelta_grid(tier)
    if tname == "bytes":
        return _bytes_grid(tier)
    if tname == "bytearray":
        return _bytes_grid(tier, small=True)
    if tname == "range":
        return _range_grid(tier)
    if tname == "Path":
        return _path_grid(tier, 2)
    if tname == "PosixPath":
        return _path_grid(tier, 1 if tier == "quick" else 2)
    raise KeyError(tname)


def decode(tname, enc):
    T = pytype(tname)
    if tname == "complex":
        return complex(float(enc[0]), float(enc[1]))
    if tname in ("Decimal", "Path", "PosixPath"):
        return T(enc)
    if tname == "UUID":
        return T(hex=enc)
    if tname == "timedelta":
        return T(days=enc[0], seconds=enc[1], microseconds=enc[2])
    if tname in ("bytes", "bytearray"):
        return T(bytes.fromhex(enc))
    if tname == "range":
        return range(*enc)
    raise KeyError(tname)


# ------------------------------------------------------------------------------------------------------
# shapes (class of value, for signatures) and typed equality


import re as _re

# texts that YAML resolves to something other than a string (numbers, null, booleans)
_YAML_NONSTRING = _re.compile(
    r"[-+]?(?:\d[\d_]*)(?:\.[\d_]*)?(?:[eE][-+]?\d+)?|[-+]?\.\d[\d_]*(?:[eE][-+]?\d+)?|0x[0-9a-fA-F_]+|0o?[0-7_]+|0b[01_]+"
    r"|~|null|Null|NULL|true|True|TRUE|false|False|FALSE|yes|Yes|YES|no|No|NO|on|On|ON|off|Off|OFF|[-+]?\.(?:inf|Inf|INF)"
    r"|\.(?:nan|NaN|NAN)"
)


def _single_nonstring_key_mapping(text):
    """Classification only (PyYAML's stock loader, not the code under test): the text is a YAML mapping with one
    key that is not a string (number, null, boolean) and an empty value."""
    import yaml

    try:
        y = yaml.safe_load(text)
    except Exception:
        return False
    if not (isinstance(y, dict) and len(y) == 1):
        return False
    (key, val), = y.items()
    return val is None and (not isinstance(key, str) or bool(_YAML_NONSTRING.fullmatch(key)))


def _range_len(r):
    if r.step > 0:
        return max(0, (r.stop - r.start + r.step - 1) // r.step)
    return max(0, (r.start - r.stop - r.step - 1) // (-r.step))


def shape(tname, v):
    if tname == "Decimal":
        import decimal

        if v.is_snan():
            return "snan"
        if v.is_nan():
            return "nan"
        if v.is_infinite():
            return "infinite"
        f = float(v)
        if not math.isinf(f) and decimal.Decimal(f) == v:
            return "float-exact"
        if not math.isinf(f) and decimal.Decimal(repr(f)) == v:
            return "float-repr-exact"
        return "float-lossy"
    if tname == "complex":
        parts = (v.real, v.imag)
        if any(math.isnan(p) or math.isinf(p) for p in parts):
            return "nonfinite-part"
        if any(p == 0 for p in parts):
            return "zero-part"
        return "finite"
    if tname == "timedelta":
        tags = []
        if v.days < 0:
            tags.append("negative")
        elif v.days:
            tags.append("days")
        if v.microseconds:
            tags.append("subsecond")
        return "+".join(tags) or "within-a-day"
    if tname in ("bytes", "bytearray"):
        if len(v) == 0:
            return "empty"
        from base64 import b64encode

        text = b64encode(bytes(v)).decode()
        if text.isdigit():
            return "b64-all-digits"
        if set(text) <= set("0123456789eE+x.ob"):
            return "b64-number-like"
        if text.lower() in ("null", "true", "none", "infinity", "nan+", "yes+", "fals"):
            return "b64-keyword-like"
        return "b64-plain" if len(v) <= 6 else "long"
    if tname == "range":
        n = _range_len(v)
        if n == 0:
            return "empty"
        if v.step == 1:
            return "step1-start0" if v.start == 0 else "step1"
        if n == 1:
            return "single-element-with-step"
        return "negative-step" if v.step < 0 else "step"
    if tname in ("Path", "PosixPath"):
        s = str(v)
        if _single_nonstring_key_mapping(s):
            return "yaml-mapping-with-nonstring-key"  # "1:", "null: ", "1e3:", "&a:" ... load as {1: None}, {None: None}
        if s != s.strip() or "\n" in s:
            return "whitespace"
        if s[:1] in "-[{#&*!|>'\"%@`~" or ": " in s or " #" in s or s.endswith(":"):
            return "yaml-indicator"
        if s.replace(".", "").replace("e", "").replace("x", "").isdigit() or s in ("null", "true"):
            return "scalar-like"
        return "plain"
    return "value"


def respell_class(plain_text, commented_text):
    """How the commented dump (PyYAML text re-emitted by ruyaml) spells the scalar of `x` compared with the plain
    yaml dump: the class of a yaml_comments-only deviation."""

    def scalar(text):
        lines = text.split("\n")
        for i, line in enumerate(lines):
            if line.startswith("x:"):
                return "\n".join([line[2:]] + lines[i + 1 :]).strip()
        return None

    a, b = scalar(plain_text or ""), scalar(commented_text or "")
    if a is None or b is None:
        return "no-scalar"
    if a == b:
        return "same-scalar"
    if a[:1] in ("'", '"'):
        return "quoted-scalar-respelled" if b[:1] == a[:1] else "quotes-dropped"
    return "plain-scalar-respelled"


def same(tname, want, got):
    """None when `got` is the same value as `want`; else the verdict."""
    if type(got) is not type(want):
        return "wrong-type"
    if tname == "complex":
        def feq(a, b):
            return (math.isnan(a) and math.isnan(b)) or a == b

        return None if feq(want.real, got.real) and feq(want.imag, got.imag) else "unequal"
    if tname == "Decimal":
        if want.is_nan() or got.is_nan():
            return None if (want.is_nan() and got.is_nan() and want.is_snan() == got.is_snan()) else "unequal"
        return None if want == got else "unequal"
    if tname == "range":
        if want != got:
            return "unequal"
        if (want.start, want.stop, want.step) != (got.start, got.stop, got.step):
            return "start-stop-step-differ"
        return None
    return None if want == got else "unequal"


# ------------------------------------------------------------------------------------------------------
# execution


def formats(mode, tier):
    if mode == "yaml":
        return ["yaml", "json", "yaml_comments"] if tier == "quick" else ["yaml", "json", "json_indented", "yaml_comments"]
    return ["json"] if tier == "quick" else ["json", "json_indented"]


def build_parser(tname, mode, J):
    p = J.ArgumentParser(exit_on_error=False, parser_mode=mode)
    p.add_argument("--cfg", action=J.ActionConfigFile)
    p.add_argument("--x", type=pytype(tname))
    return p


def _argv_text(ser):
    if isinstance(ser, str):
        return ser
    if isinstance(ser, float):
        return repr(ser)
    import json

    return json.dumps(ser)


def roundtrip(tname, enc, mode, tier):
    """-> (list of (channel, fmt, verdict, detail), evaluations, library operations)"""
    import json
    import os

    import jsonargparse as J
    from mc.util import outcome, scratch_dir

    v = decode(tname, enc)
    parser = build_parser(tname, mode, J)
    results, evals, ops = [], 0, 0

    def parsed(o):
        if o["kind"] == "ok":
            return same(tname, v, o["value"].x), repr(o["value"].x)
        if o["kind"] == "ArgumentError":
            return "rejected", o["message"][-160:]
        if o["kind"] == "escape":
            return "escape-" + o["type"].rsplit(".", 1)[-1], o["message"][:160]
        return "escape-" + o["kind"], ""

    o = outcome(parser.parse_object, {"x": decode(tname, enc)})
    ops += 1
    evals += 1
    verdict, detail = parsed(o)
    if verdict:
        results.append(("instance", "-", verdict, detail))
        return results, evals, ops
    cfg = o["value"]
    ser = None
    texts = {}
    with scratch_dir() as d:
        for fmt in formats(mode, tier):
            o = outcome(parser.dump, cfg, format=fmt)
            ops += 1
            if o["kind"] != "ok":
                evals += 1
                results.append(("dump", fmt, "dump-raises-" + o.get("type", o["kind"]).rsplit(".", 1)[-1],
                                o.get("message", "")[:160]))
                continue
            text = texts[fmt] = o["value"]
            if fmt == "json":
                ser = json.loads(text)["x"]
            o = outcome(parser.parse_string, text)
            ops += 1
            evals += 1
            verdict, detail = parsed(o)
            if verdict:
                results.append(("string", fmt, verdict, f"dump {text!r} -> {detail}"))
            if tier == "quick" and mode == "yaml" and fmt != "yaml":
                continue  # quick tier, yaml mode: json / commented text through parse_string only; --cfg FILE gets the
                # plain yaml dump (and, in json mode, the json dump); the file is read by the same loader as the string
            path = os.path.join(d, "c." + ("json" if fmt.startswith("json") else "yaml"))
            with open(path, "w") as f:
                f.write(text)
            o = outcome(parser.parse_args, ["--cfg", path])
            ops += 1
            evals += 1
            verdict, detail = parsed(o)
            if verdict:
                results.append(("file", fmt, verdict, f"dump {text!r} -> {detail}"))
    if ser is not None:
        o = outcome(parser.parse_object, {"x": ser})
        ops += 1
        evals += 1
        verdict, detail = parsed(o)
        if verdict:
            results.append(("object", "-", verdict, f"serialised {ser!r} -> {detail}"))
        if _argv_text(ser) != "--":  # argparse itself (3.12: _get_values) drops a value that is exactly "--"
            o = outcome(parser.parse_args, ["--x=" + _argv_text(ser)])
            ops += 1
            evals += 1
            verdict, detail = parsed(o)
            if verdict:
                results.append(("argv", "-", verdict, f"--x={_argv_text(ser)!r} -> {detail}"))
    if any(r[1] == "yaml_comments" for r in results):
        cls = respell_class(texts.get("yaml"), texts.get("yaml_comments"))
        results = [r + (cls,) if r[1] == "yaml_comments" else r for r in results]
    return results, evals, ops


def signatures(tname, enc, results):
    v = decode(tname, enc)
    shp = shape(tname, v)
    out = []
    fails_plain_yaml = {r[0] for r in results if r[1] == "yaml"}
    for channel, fmt, verdict, detail, *extra in results:
        if fmt == "yaml_comments" and channel not in fails_plain_yaml:
            # only the commented dump fails: its text went through a second YAML library (root cause is the format)
            sig = "roundtrip:yaml_comments-only:%s" % verdict
            if verdict == "unequal":
                # the commented text parsed, but to another value: name the type so that the entry stays narrow
                sig += ":" + ("Path" if tname == "PosixPath" else tname)
            # how the second library re-spelled the scalar: quotes dropped / plain scalar re-written / ...
            sig += ":" + (extra[0] if extra else "no-scalar")
        else:
            # pathlib.Path and pathlib.PosixPath share one handler (and one class of instances on this platform)
            sig = "roundtrip:%s:%s:%s" % ("Path" if tname == "PosixPath" else tname, verdict, shp)
            if tname == "Decimal" and shp == "float-repr-exact":
                # the float text is exact for these values, so only channels that carry a float object may lose
                sig += ":argv" if channel == "argv" else ":config"
        out.append((sig, "%s/%s %r: %s" % (channel, fmt, v, detail)))
    return out


def run_values(arg):
    """Worker: a slice of one type's grid, both parser modes."""
    tname, tier, lo, hi = arg
    res = {"devs": [], "evals": 0, "ops": 0, "inputs": 0, "nontrivial": 0, "shapes": set(), "ok": 0, "tname": tname}
    for enc in values(tname, tier)[lo:hi]:
        v = decode(tname, enc)
        res["shapes"].add(shape(tname, v))
        for mode in ("yaml", "json"):
            results, evals, ops = roundtrip(tname, enc, mode, tier)
            res["inputs"] += 1
            res["evals"] += evals
            res["ops"] += ops
            res["ok"] += evals - len(results)
            try:
                trivial = v == type(v)()
            except Exception:
                trivial = False
            if not trivial:
                res["nontrivial"] += evals
            for sig, detail in signatures(tname, enc, results):
                res["devs"].append((sig, {"part": "reg", "type": tname, "value": enc, "mode": mode, "tier": tier}, detail))
    return res


def run_case(case):
    results, _, _ = roundtrip(case["type"], case["value"], case["mode"], case.get("tier", "quick"))
    return [{"signature": s, "detail": d} for s, d in signatures(case["type"], case["value"], results)]
