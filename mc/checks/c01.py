"""C01 - a dumped configuration re-parses to the same configuration.

Bounded exhaustive product (shape P of DESIGN.md) executed on the real parser, two layers:

1. scalar layer: every string over the scalar token alphabet (derived from the YAML implicit-resolver tables of
   the stock dumper and of jsonargparse's loader, plus the YAML indicators) up to a token bound, placed at seven
   positions (str value, Optional[str], Union[int,str], List[str] item, Dict[str,int] key, Any value, leaf of a
   nested Any value), accepted through parse_object (and argv where the spelling is direct), dumped in yaml / json /
   json_indented with nulls kept and re-parsed with the same parser; plus the full slot product of YAML's timestamp
   pattern (date x separator x time x fraction x zone, canonical and non-canonical spellings, impossible dates) and a
   reduced alphabet of characters that are special to a YAML reader (NEL / LS / PS, DEL, C1, BOM, ...);
2. typed layer (c01_typed.py): type grammar x accepted values x defaults x parser shapes (flat, nested group,
   subcommand without arguments, subcommand chosen by alias, --print_config before / after a config file option,
   dataclass, Optional/List/Dict of dataclass, class-typed argument - the spec as the value, as a Union member, as a
   list item, as a dict value, inside Any; with init_args, with dict_kwargs only, with both -, two-level subcommands,
   link, inner parser with a sub-config file) x {dump x 3 formats x skip_default, dump without validation,
   --print_config[=flags] -> --config, save single-file and multi-file (the default) with nulls kept -> parse_path}.

Oracle: typed equality (value and exact type at every level, nan == nan, sets as sets) of the re-parsed
configuration with the original after removing metadata keys and the config-file bookkeeping key.
"""
from __future__ import annotations

import itertools
import json
import re

from mc.checks.c01_common import (
    JSON_FORMATS,
    SIG_JSON_KEY,
    SIG_JSON_NONFINITE,
    SIG_JSON_RAWCHAR,
    SIG_YAML_RAWBREAK,
    YAML_FORMATS,
    json_key_root_cause,
    json_nonfinite_root_cause,
    json_rawchar_root_cause,
    yaml_rawbreak_root_cause,
    judge_reparse,
    merge_formats,
    ruyaml_root_cause,
    short,
    strip_cfg,
)

META = {
    "id": "C01",
    "level": "exploration",
    "engine": "bounded exhaustive product enumeration on the real ArgumentParser (mc/checks/c01.py, c01_typed.py)",
    "technique": "exhaustive enumeration of token strings x positions x formats and of type grammar x accepted "
    "values x defaults x parser shapes x serialisation channels; differential round-trip oracle with typed equality",
    "level_text": "Every member of the stated finite space is executed on the unmodified implementation: each "
    "accepted configuration is serialised through every channel the statement names (dump in three formats with "
    "nulls kept, with and without validation, skip_default, --print_config with each flag fed back through --config, "
    "single-file and multi-file save followed by parse_path) and re-parsed with the same parser; the result must be typed-equal to the original. The token "
    "alphabet is derived from the implicit-resolver tables of both YAML components, and a vacuity guard requires "
    "that every alternative of every resolver pattern is matched by an enumerated string, so the bound covers "
    "each way a plain scalar can be taken for a non-string. The verdict is exhaustive within the bounds.",
    "level_note": "Trusted: typed equality (mc.util.tcanon), the difference classifier, Python's json module and "
    "PyYAML's safe_dump in the root-cause test for non-finite floats. Bounds: token count per string, type "
    "constructor depth 2, the value pools, the parser shapes. Strings over other characters, deeper types, "
    "toml/jsonnet modes and user-registered loaders are not covered.",
    "design_ref": "DESIGN.md §5 C01",
}

# ---------------------------------------------------------------------------------------------------
# scalar token alphabet

NUM = list("0179_.eE+-:xob")
KW = (
    ["~"]
    + [w for base in ("null", "true", "false", "yes", "no", "on", "off") for w in (base, base.capitalize(), base.upper())]
    + ["y", "Y", "n", "N", "inf", "Inf", "INF", "nan", "NaN", "NAN"]
)
DATE = ["2001-01-01", "T00:00:00", "Z"]
IND = ["{", "}", "[", "]", ",", "#", "&", "*", "!", "|", ">", "'", '"', "%", "@", "`", "?", "=", "<<"]
WS = [" ", "\n", "\t"]
OTHER = ["z", "é"]
SIGMA = NUM + KW + DATE + IND + WS + OTHER
# reduced alphabets explored deeper
FLT = ["1", ".", "e", "-", ":", "_"]  # reaches the sexagesimal float and exponent alternatives
# characters that are legal in a str value but special to a YAML reader: the Unicode line breaks NEL / LS / PS, DEL and
# a C1 control, a non-character, ESC, NUL, the byte order mark, the no-break space, CR - with a letter and a space
# ... and the code points at the edges of the planes: the first and the last one outside the Basic Multilingual Plane and
# an emoji (JSON escapes for them are UTF-16 surrogate PAIRS, a YAML emitter needs the eight-digit escape), and the last
# BMP character a YAML reader accepts
CTL = ["\x85", "\u2028", "\u2029", "\x7f", "\x9f", "\ufffe", "\x1b", "\x00", "\ufeff", "\xa0", "\r", "a", " ",
       "\U00010000", "\U0001f680", "\U0010ffff", "\ufffd"]
MID = (
    ["1", ".", "e", "-", ":", "_", "~", "null", "No", "y", "inf", "2001-01-01", "T00:00:00"]
    + ["{", "[", ",", "#", "&", "*", "!", "|", ">", "'", '"', "%", "?", " ", "\n", "z"]
)


# date/time-shaped strings: the slots of YAML's timestamp pattern (date, separator, time, fraction, zone), each with
# its canonical AND its non-canonical spellings (one-digit month / day / hour, lowercase or blank separator, fraction
# of other than six digits, short or blank-separated zone offset) and with impossible calendar dates - a second YAML
# reader that takes an unquoted one for a timestamp re-spells it or fails on it.  Full product of the slots.
TS_DATE = ["2001-01-01", "2001-1-1", "2001-02-30", "2001-13-45"]
TS_SEP = ["T", "t", " ", "  "]
TS_TIME = ["00:00:00", "1:02:03", "21:59:43", "1:02"]  # the last one lacks the seconds: not a timestamp
TS_FRAC = ["", ".5", ".10", ".", ".123456", ".1234567"]
TS_ZONE = ["", "Z", " -5", "-05:00", " Z", "+5", "+05"]
TS_QUICK = {"sep": 3, "time": 2, "frac": 3, "zone": 4}  # quick tier: the first n members of the slot


def timestamp_strings(tier):
    """[(string, number of filled slots)] - the full product of the slots of the tier."""
    q = TS_QUICK if tier == "quick" else {}
    sep, time_, frac, zone = (lst[: q.get(k, len(lst))] for k, lst in
                              (("sep", TS_SEP), ("time", TS_TIME), ("frac", TS_FRAC), ("zone", TS_ZONE)))
    out = [(d, 1) for d in TS_DATE]
    for d in TS_DATE:
        out += [(d + s, 2) for s in sep]  # separator without a time: not a timestamp
        for s, t, f, z in itertools.product(sep, time_, frac, zone):
            out.append((d + s + t + f + z, 3 + bool(f) + bool(z)))
    return out


def timestamps_respelt_by_second_reader(strings):
    """How many of the strings a second YAML reader (ruyaml, the one behind yaml_comments) would NOT give back as
    written if they reached it unquoted: it takes them for a timestamp and re-spells them, or cannot construct the
    date.  None when ruyaml is not installed.  (Vacuity guard of the timestamp slot product.)"""
    import io

    try:
        import ruyaml
    except ImportError:
        return None
    n = 0
    for s in strings:
        try:
            y = ruyaml.YAML()
            out = io.StringIO()
            y.dump(y.load("v: " + s + "\n"), out)
            n += out.getvalue() != "v: " + s + "\n"
        except Exception:
            n += 1
    return n


def _strings(alphabet, kmax):
    for k in range(0, kmax + 1):
        for t in itertools.product(alphabet, repeat=k):
            yield "".join(t), k


def scalar_bounds(tier):
    if tier == "quick":
        return {"SIGMA": 2, "NUM": 3, "FLT": 4, "CTL": 2}
    return {"SIGMA": 2, "NUM": 4, "FLT": 5, "MID": 3, "CTL": 3}


def scalar_strings(tier):
    """All strings of the tier, simplest first (fewest tokens, then shortest), without duplicates."""
    alph = {"SIGMA": SIGMA, "NUM": NUM, "FLT": FLT, "MID": MID, "CTL": CTL}
    best = {}
    for name, k in scalar_bounds(tier).items():
        for s, n in _strings(alph[name], k):
            if s not in best or n < best[s]:
                best[s] = n
    for s, n in timestamp_strings(tier):
        best.setdefault(s, n)
    return sorted(best, key=lambda s: (best[s], len(s), s))


POSITIONS = ["str", "opt", "union", "item", "key", "any", "any_nested"]
# positions at which the yaml dump with help comments (= --print_config=comments) is exercised as well
COMMENT_POSITIONS = {"str", "key"}
# json_indented differs from json only in white space: exercised at the positions where the text shape differs most
INDENTED_POSITIONS = {"key", "any_nested"}
# quick tier: the json text of a string is the same quoted scalar whatever the type of the argument; it is not re-read
# at the two positions whose json text has the shape of the `str` position (the per-action serialisation, which does
# depend on the type, is format independent and runs there through the yaml format)
JSON_SAME_SHAPE_POSITIONS = {"opt", "union"}


def _pos_type(pos):
    from typing import Any, Dict, List, Optional, Union

    return {
        "str": str,
        "opt": Optional[str],
        "union": Union[int, str],
        "item": List[str],
        "key": Dict[str, int],
        "any": Any,
        "any_nested": Any,
    }[pos]


def _pos_obj(pos, s):
    return {"item": [s], "key": {s: 1}, "any_nested": {"k": [s, {"m": s}]}}.get(pos, s)


def build_scalar_parser(pos, mode="yaml"):
    from jsonargparse import ArgumentParser

    p = ArgumentParser(exit_on_error=False, parser_mode=mode)
    p.add_argument("--v", type=_pos_type(pos))
    return p


def scalar_case(s, pos, mode="yaml", quick=True):
    """One string at one position: accept, dump in every format the mode can read, re-parse, compare."""
    from mc.util import outcome

    formats = YAML_FORMATS if mode == "yaml" else JSON_FORMATS
    res = {"accepted": 0, "rejected": 0, "rt": 0, "ops": 0, "devs": [], "text": None, "escapes": 0}
    p = build_scalar_parser(pos, mode)
    o = outcome(p.parse_object, {"v": _pos_obj(pos, s)})
    res["ops"] += 1
    if o["kind"] != "ok":
        res["rejected"] += 1
        if o["kind"] != "ArgumentError":
            res["escapes"] += 1  # an escaping exception on input is C03's business, not a configuration
        return res
    c = strip_cfg(o["value"])
    res["accepted"] += 1
    results, details = {}, {}
    if quick and pos not in INDENTED_POSITIONS:
        formats = tuple(f for f in formats if f != "json_indented")
    if quick and mode == "yaml" and pos in JSON_SAME_SHAPE_POSITIONS:
        formats = tuple(f for f in formats if f not in JSON_FORMATS)
    variants = [(fmt, {"format": fmt}) for fmt in formats]
    if mode == "yaml" and pos in COMMENT_POSITIONS:
        variants.append(("yaml_comments", {"yaml_comments": True}))
    rawbreak = False
    for fmt, kw in variants:
        od = outcome(p.dump, c, skip_none=False, **kw)
        res["ops"] += 1
        if od["kind"] != "ok":
            results[fmt] = "dump-raises:" + (od.get("type", od["kind"]).rsplit(".", 1)[-1])
            details[fmt] = f"config {short(c)}: {od.get('message', '')}"
            continue
        text = od["value"]
        if fmt == "yaml" and pos == "str":
            res["text"] = text
        cls, detail, c1 = judge_reparse(p.parse_string, text, c, ())
        res["rt"] += 1
        res["ops"] += 1
        if cls and fmt in JSON_FORMATS and mode == "yaml" and json_nonfinite_root_cause(p.parse_string, text, c, ()):
            res["devs"].append((SIG_JSON_NONFINITE, f"[{fmt}] config {short(c)} text {text!r}: {detail}"))
            continue
        if cls and fmt in JSON_FORMATS and mode == "yaml" and json_key_root_cause(c, c1):
            res["devs"].append((SIG_JSON_KEY, f"[{fmt}] config {short(c)} text {text!r}: {detail}"))
            continue
        if cls and fmt in JSON_FORMATS and mode == "yaml" and json_rawchar_root_cause(p.parse_string, text, c, ()):
            res["devs"].append((SIG_JSON_RAWCHAR, f"[{fmt}] config {short(c)} text {text!r}: {detail}"))
            continue
        if cls and fmt == "yaml" and yaml_rawbreak_root_cause(
            p.parse_string, text, outcome(p.dump, c, skip_none=False, format="json").get("value"), c, ()
        ):
            res["devs"].append((SIG_YAML_RAWBREAK, f"[{fmt}] config {short(c)} text {text!r}: {detail}"))
            rawbreak = True
            continue
        if cls and fmt == "yaml_comments" and rawbreak:
            continue  # the text piped through ruyaml is the plain yaml dump, which already deviated for this root cause
        if cls:
            results[fmt] = cls
            details[fmt] = f"config {short(c)} text {text!r}: {detail}"
    for label, cls, f in merge_formats(results, formats):
        res["devs"].append((f"dump:{label}:{cls}", f"[{f}] {details[f]}"))
    cc = results.get("yaml_comments")
    if cc and cc != results.get("yaml"):
        od = outcome(p.dump, c, skip_none=False, format="yaml")
        sig = ruyaml_root_cause(p.parse_string, od["value"], c, ()) if od["kind"] == "ok" else None
        res["devs"].append((sig or f"dump-yaml_comments:yaml:{cc}", f"[yaml_comments] {details['yaml_comments']}"))
    return res


def scalar_worker(item):
    import time

    t0 = time.process_time()
    s, mode, quick = item
    out = {"s": s, "accepted": 0, "rejected": 0, "rt": 0, "ops": 0, "devs": [], "text": None, "escapes": 0}
    for pos in POSITIONS:
        if quick and mode == "json" and pos in JSON_SAME_SHAPE_POSITIONS:
            continue  # a json-mode parser writes json only: same text shape as the `str` position (see above)
        r = scalar_case(s, pos, mode, quick)
        for k in ("accepted", "rejected", "rt", "ops", "escapes"):
            out[k] += r[k]
        if r["text"] is not None:
            out["text"] = r["text"]
        for sig, detail in r["devs"]:
            out["devs"].append((sig, {"layer": "scalar", "s": s, "pos": pos, "mode": mode, "quick": quick}, detail))
    out["cpu"] = time.process_time() - t0
    return out


# ---------------------------------------------------------------------------------------------------
# resolver tables -> alternatives (vacuity guard: every alternative must be hit by an enumerated string)


def _split_alternatives(pattern, flags):
    """Top-level alternatives of a resolver pattern of the form ^(?:a|b|...)$ (textual split, verbose aware)."""
    src = pattern
    if flags & re.X:
        # verbose pattern: white space is insignificant except inside a character class ([ \t]) or escaped (the
        # tables contain no comments)
        out, in_cls, i = "", False, 0
        while i < len(src):
            ch = src[i]
            if ch == "\\":
                out += src[i : i + 2]
                i += 2
                continue
            if in_cls:
                in_cls = ch != "]"
            elif ch == "[":
                in_cls = True
            elif ch.isspace():
                i += 1
                continue
            out += ch
            i += 1
        src = out
    m = re.fullmatch(r"\^\(\?:(.*)\)\$", src, re.S)
    if not m:
        return None
    body, alts, depth, cur, i, in_class = m.group(1), [], 0, "", 0, False
    while i < len(body):
        ch = body[i]
        if ch == "\\":
            cur += body[i : i + 2]
            i += 2
            continue
        if in_class:
            in_class = ch != "]"
        elif ch == "[":
            in_class = True
        elif ch == "(":
            depth += 1
        elif ch == ")":
            depth -= 1
        elif ch == "|" and depth == 0:
            alts.append(cur)
            cur = ""
            i += 1
            continue
        cur += ch
        i += 1
    alts.append(cur)
    return alts


def resolver_alternatives():
    """[(table, tag, alternative source, compiled)] for the stock dumper table and jsonargparse's loader table."""
    import yaml

    tables = {"stock-dumper": yaml.SafeDumper.yaml_implicit_resolvers}
    try:
        from jsonargparse import _loaders_dumpers as ld

        tables["jsonargparse-loader"] = ld.get_yaml_default_loader().yaml_implicit_resolvers
        if hasattr(ld, "get_yaml_default_dumper"):
            tables["jsonargparse-dumper"] = ld.get_yaml_default_dumper().yaml_implicit_resolvers
    except Exception:  # internal names changed: the guard then covers the stock table only
        pass
    out, seen = [], set()
    for tname, table in tables.items():
        for lst in table.values():
            for tag, rx in lst:
                key = (tag, rx.pattern, rx.flags)
                if (tname, key) in seen:
                    continue
                seen.add((tname, key))
                alts = _split_alternatives(rx.pattern, rx.flags)
                short_tag = tag.rsplit(":", 1)[-1]
                if alts is None:
                    out.append((tname, short_tag, rx.pattern, rx, rx))
                    continue
                for a in alts:
                    out.append((tname, short_tag, a, re.compile("^(?:" + a + ")$"), rx))
    return out


def resolver_coverage(strings):
    """Which alternatives are matched by at least one enumerated string; sanity: alternatives == whole pattern."""
    alts = resolver_alternatives()
    hit = {}
    classified = set()
    inconsistent = []
    by_rx = {}
    for tname, tag, a, crx, whole in alts:
        by_rx.setdefault((tname, tag, whole.pattern), (whole, []))[1].append(crx)
    for s in strings:
        for tname, tag, a, crx, whole in alts:
            if crx.match(s):
                hit.setdefault((tname, tag, a), s)
                classified.add(s)
    for (tname, tag, _), (whole, crxs) in by_rx.items():
        for s in strings:
            if bool(whole.match(s)) != any(c.match(s) for c in crxs):
                inconsistent.append((tname, tag, s))
                break
    missing = [(t, g, a) for t, g, a, _, _ in alts if (t, g, a) not in hit]
    return {"alternatives": len({(t, g, a) for t, g, a, _, _ in alts}), "hit": len(hit), "missing": missing, "classified": classified,
            "inconsistent": inconsistent, "tables": sorted({t for t, *_ in alts})}


# ---------------------------------------------------------------------------------------------------
# replay / exploration


def run_case(case):
    if case.get("layer") == "scalar":
        r = scalar_case(case["s"], case["pos"], case.get("mode", "yaml"), case.get("quick", True))
        return [{"signature": s, "detail": d} for s, d in r["devs"]]
    if case.get("layer") == "history":
        from mc.checks import c01_history

        r = c01_history.history_case(case)
        return [{"signature": s, "detail": d} for s, d in r["devs"]]
    from mc.checks import c01_typed

    r = c01_typed.typed_case(case)
    return [{"signature": s, "detail": d} for s, d in r["devs"]]


def explore(ctx):
    from mc.checks import c01_typed

    tier = ctx.tier
    tot = {"rt": 0, "ops": 0, "accepted": 0, "rejected": 0, "escapes": 0, "cpu": 0.0}
    nontrivial = set()

    # ---- layer 1: scalar strings
    strings = scalar_strings(tier)
    cov = resolver_coverage(strings)
    items = [(s, "yaml", ctx.quick) for s in strings]
    json_mode_strings = [s for s in strings if s in cov["classified"] or len(s) <= 1]
    items += [(s, "json", ctx.quick) for s in json_mode_strings]
    quoted = 0
    for out in ctx.pmap(scalar_worker, items):
        for k in tot:
            tot[k] += out[k]
        for sig, case, detail in out["devs"]:
            ctx.deviation(sig, case, detail)
        if out["text"] is not None and out["text"] != f"v: {out['s']}\n":
            quoted += 1
            nontrivial.add(("s", out["s"]))
        if out["s"] in cov["classified"]:
            nontrivial.add(("s", out["s"]))
    scalar_rt = tot["rt"]
    scalar_states = tot["accepted"]
    ctx.note(f"worker CPU seconds: scalar layer {tot['cpu']:.0f}")
    ctx.count("scalar.strings", len(strings))
    ts = [s for s, _ in timestamp_strings(tier)]
    ts_respelt = timestamps_respelt_by_second_reader(ts)
    ctx.count("scalar.timestamp_shaped_strings", len(ts))
    ctx.count("scalar.timestamp_shaped_strings_a_second_yaml_reader_would_respell_or_reject", ts_respelt or 0)
    astral = [s for s in strings if any(ord(ch) > 0xFFFF for ch in s)]
    ctx.count("scalar.strings_with_a_character_outside_the_BMP", len(astral))
    ctx.count("scalar.strings_json_mode", len(json_mode_strings))
    ctx.count("scalar.roundtrips", scalar_rt)
    ctx.count("scalar.accepted_configs", tot["accepted"])
    ctx.count("scalar.rejected_inputs", tot["rejected"])
    ctx.count("scalar.input_escapes_left_to_C03", tot["escapes"])
    ctx.count("scalar.strings_a_resolver_takes_for_non_string", len(cov["classified"]))
    ctx.count("scalar.strings_quoted_or_rewritten_by_yaml_dump", quoted)
    for s in (strings[1], strings[len(strings) // 2], strings[-1]):
        ctx.sample({"layer": "scalar", "s": s, "positions": POSITIONS, "formats": list(YAML_FORMATS)})

    # ---- layer 2: typed
    typed = c01_typed.explore_typed(ctx, nontrivial)

    # ---- layer 3: one used parser whose defaults change between serialisations
    from mc.checks import c01_history

    hist = c01_history.explore_history(ctx, nontrivial)

    evaluations = scalar_rt + typed["rt"] + hist["rt"]
    ctx.cover(
        evaluations=evaluations,
        distinct_nontrivial=len(nontrivial),
        rule="an evaluation is one serialise -> re-parse -> compare round trip on the real parser. Scalar layer: "
        "every concatenation of <= k tokens of the alphabets in `bounds` at 7 positions x 3 formats (yaml-mode "
        "parser) and the resolver-classified strings x 2 json formats (json-mode parser); a string is non-trivial "
        "when a YAML implicit resolver of either table takes it for a non-string or the yaml dumper had to quote / "
        "rewrite it. Typed layer: (parser shape, type, default, value) cases whose value the parser accepted; "
        "non-trivial = distinct (shape, type, default, parsed configuration) with a value that differs from the "
        "default or a lookalike string. distinct_nontrivial counts distinct such strings plus distinct such "
        "typed configurations.",
        exhaustive=True,
        caps_hit=[],
        bounds={
            "scalar_token_bounds": scalar_bounds(tier),
            "alphabet_sizes": {"SIGMA": len(SIGMA), "NUM": len(NUM), "FLT": len(FLT), "MID": len(MID), "CTL": len(CTL)},
            "timestamp_slot_product": {"date": TS_DATE, "separator": TS_SEP, "time": TS_TIME, "fraction": TS_FRAC, "zone": TS_ZONE,
                                       "quick_takes_first": TS_QUICK, "strings": len(timestamp_strings(tier))},
            "positions": POSITIONS,
            "formats": list(YAML_FORMATS),
            "typed": typed["bounds"],
            "history": hist["bounds"],
        },
        states=scalar_states + typed["states"] + hist["states"],
        transitions=tot["ops"] + typed["ops"] + hist["ops"],
        traces_validated_against_impl=evaluations,
        resolver_alternatives=cov["alternatives"],
        resolver_alternatives_hit=cov["hit"],
        resolver_tables=cov["tables"],
        trusted_base=["mc.util.tcanon (typed equality)", "mc.checks.c01_common.first_diff (classification only)",
                      "json.loads + yaml.safe_dump in the non-finite-float root-cause test"],
    )
    ctx.assume("a yaml-mode parser re-reads yaml, json and json_indented text; a json-mode parser re-reads the two json formats only")
    ctx.assume("inputs that the parser rejects (or on which it raises) are not configurations; they belong to C02/C03")
    ctx.assume("dumps that drop None entries (skip_none, skip_null, default save) are judged on the entries that are not None")

    # vacuity guards
    ctx.require(not cov["inconsistent"], f"resolver patterns split into alternatives consistently {cov['inconsistent'][:2]}")
    ctx.require(not cov["missing"], f"every alternative of every resolver pattern is matched by an enumerated string (missing: {cov['missing'][:4]})")
    ctx.require(ts_respelt is None or ts_respelt >= 150, f"timestamp slot product: at least 150 strings that a second YAML reader would re-spell or reject if written unquoted ({ts_respelt})")
    ctx.require(len(astral) >= 90, f"scalar layer: at least 90 strings hold a character outside the Basic Multilingual Plane ({len(astral)})")
    ctx.require(len(cov["tables"]) >= 2, "resolver tables of both the stock dumper and jsonargparse's loader were read")
    ctx.require(tot["accepted"] > 50000, "scalar layer: more than 50000 accepted (string, position) configurations")
    ctx.require(quoted > 500, "scalar layer: more than 500 strings needed quoting by the yaml dumper")
    ctx.require(scalar_rt > 20000, "scalar layer: more than 20000 round trips")
    for what, ok in typed["guards"] + hist["guards"]:
        ctx.require(ok, what)
