"""C01, typed layer: type grammar x accepted values x defaults x parser shapes x serialisation channels.

A case is {"layer": "typed", "shape": S, "type": T, "default": D, "value": V, "mode": M} where T is a JSON type
spec (leaf name or [constructor, args...]), D a raw JSON value or "__unset__", V a raw JSON value.  Everything
(types, parser, fixture files, default object) is rebuilt from the case.
"""
from __future__ import annotations

import argparse
import copy
import dataclasses
import json
import math
import os

from mc.checks.c01_common import (
    DECIMAL_VIA_FLOAT,
    JSON_FORMATS,
    SIG_DECIMAL,
    SIG_JSON_KEY,
    SIG_JSON_NONFINITE,
    YAML_FORMATS,
    has_none,
    json_key_root_cause,
    json_nonfinite_root_cause,
    judge_reparse,
    merge_formats,
    neutralise_none,
    ruyaml_root_cause,
    short,
    strip_cfg,
)

UNSET = "__unset__"
SIG_MULTIFILE_UNSERIALISED = "save-multifile:sub-config-file-written-without-serialisation"
PC_ALL = ["", "skip_default", "skip_null", "comments"]
LIB = "mc.fixtures.c01.lib"
INF, NAN = math.inf, math.nan

# ---------------------------------------------------------------------------------------------------
# type grammar

CORE = ["str", "int", "float", "bool", "E"]
LEAVES = CORE + [
    "EY", "LitA", "LitB", "PositiveInt", "ClosedUnitInterval", "Gt1Le5", "Email", "UpperTwo",
    "Path_fr", "Path_fc", "Path_dc", "pathlib.Path", "complex", "Decimal", "UUID", "timedelta",
    "bytes", "bytearray", "range", "Any",
]  # fmt: skip

_TYPE_CACHE = {}


def tkey(spec):
    return json.dumps(spec, sort_keys=True)


def build_type(spec):
    k = tkey(spec)
    if k not in _TYPE_CACHE:
        _TYPE_CACHE[k] = _build_type(spec)
    return _TYPE_CACHE[k]


def _build_type(spec):
    import decimal
    import pathlib
    import uuid
    from datetime import timedelta
    from typing import Any, Dict, List, Literal, Optional, Set, Tuple, Union

    import jsonargparse.typing as jt
    from mc.fixtures.c01 import lib

    if isinstance(spec, str):
        leaf = {
            "str": lambda: str, "int": lambda: int, "float": lambda: float, "bool": lambda: bool,
            "E": lambda: lib.E, "EY": lambda: lib.EY,
            "LitA": lambda: Literal["a", 1, None], "LitB": lambda: Literal["1", "null", 2],
            "PositiveInt": lambda: jt.PositiveInt, "ClosedUnitInterval": lambda: jt.ClosedUnitInterval,
            "Gt1Le5": lambda: jt.restricted_number_type("C01Gt1Le5", float, [(">", 1), ("<=", 5)]),
            "Email": lambda: jt.Email,
            "UpperTwo": lambda: jt.restricted_string_type("C01UpperTwo", "^[A-Z]{2}$"),
            "Path_fr": lambda: jt.Path_fr, "Path_fc": lambda: jt.Path_fc, "Path_dc": lambda: jt.Path_dc,
            "pathlib.Path": lambda: pathlib.Path, "complex": lambda: complex, "Decimal": lambda: decimal.Decimal,
            "UUID": lambda: uuid.UUID, "timedelta": lambda: timedelta, "bytes": lambda: bytes,
            "bytearray": lambda: bytearray, "range": lambda: range, "Any": lambda: Any,
            "Base": lambda: lib.Base, "Point": lambda: lib.Point, "Outer": lambda: lib.Outer,
        }  # fmt: skip
        return leaf[spec]()
    ctor, args = spec[0], [build_type(a) for a in spec[1:]]
    if ctor == "Optional":
        return Optional[args[0]]
    if ctor == "Union":
        return Union[tuple(args)]
    if ctor == "List":
        return List[args[0]]
    if ctor == "DictStr":
        return Dict[str, args[0]]
    if ctor == "DictInt":
        return Dict[int, args[0]]
    if ctor == "Tuple2":
        return Tuple[args[0], args[1]]
    if ctor == "TupleVar":
        return Tuple[args[0], ...]
    if ctor == "Set":
        return Set[args[0]]
    raise ValueError(spec)


def make_dataclass(tspec, dobj, has_default):
    """Fresh dataclass with a field x of the given type (+ default) and a second field n: int = 1."""
    T = build_type(tspec)
    if not has_default:
        fields = [("x", T), ("n", int, dataclasses.field(default=1))]
    elif isinstance(dobj, (list, dict, set)):
        fields = [("x", T, dataclasses.field(default_factory=lambda: copy.deepcopy(dobj))), ("n", int, dataclasses.field(default=1))]
    else:
        fields = [("x", T, dataclasses.field(default=dobj)), ("n", int, dataclasses.field(default=1))]
    return dataclasses.make_dataclass("DCx", fields)


# ---------------------------------------------------------------------------------------------------
# value pools (raw JSON values; the parser decides what is accepted)

UNIVERSAL = [
    None, True, False, 0, 1, -1, 2, 10**20, 0.0, 1.0, 0.5, -2.5, 1e22, 1e-07, 1e16, INF, -INF, NAN,
    "", "a", "A", "B", "1", "01", "1.0", "1e3", "true", "null", "yes", "on", "y", ".inf", "-.inf", ".nan", "inf", "nan",
    "[1]", '{"a": 1}', "a@b.c", "AB", "2001-01-01", "1:30", "0x1F", "1_000", "-", " 1", "a: 1", "#x", "'q'", "é",
]  # fmt: skip

SPECIFIC = {
    "str": ["x y", "a\nb", "1e+3", "._1", "~", "NO", "{}", "[]", "%", "@", "`", "!t", "&a", "*a", "|", ">", "?", "- a", "k:", ": v", "\t", "<<", "=", "0o7", "0b1", "+.inf", "1:2:3", "1_0.5_1", "2001-01-01T00:00:00Z", "2001-1-1 1:02:03.5 -5", "\"", "'", "\\", "\U0001f680 \U00010000"],
    "int": ["-0", "0x10", "0o7", "0b11", "1_0", "+1", "007", "1:00", -10**20],
    "float": [-0.0, 5e-324, 1.7976931348623157e308, 0.1, 1 / 3, 1e15, 1e17, 123456789.123456789, "1e+3", ".5", "5.", "1_0.5", "+.inf", "-.INF", ".NaN", "1:30.5", "0x10"],
    "bool": ["false", "True", "FALSE", "no", "off", "n"],
    "E": [], "EY": ["no", "true"],
    "LitA": [], "LitB": ["2"],
    "PositiveInt": ["0x10", "1_0", 3],
    "ClosedUnitInterval": ["1e-3", "0.5", ".5", "1e0"],
    "Gt1Le5": [1.5, 5, 5.0, "2", "1.5e0", 1.0000000000000002],
    "Email": ["1@2.3", "x+y@z.io", "null@true.no"],
    "UpperTwo": ["NO", "ON", "AB", "XY"],
    "Path_fr": ["f.txt", "./f.txt", "d/../f.txt", "$CWD/f.txt", "missing.txt", "1e3", "null"],
    "Path_fc": ["new.txt", "f.txt", "d/new.txt", "$CWD/new.txt", "777"],
    "Path_dc": ["newdir", "d", ".", "$CWD/d"],
    "pathlib.Path": ["a/b", ".", "/abs/x", "~", "a b", "x:y"],
    "complex": ["1+2j", "(1+2j)", "1j", "-0j", "1e3+0j", "nan+infj", 2],
    "Decimal": ["0.1", "1.10", "1e3", "1E+3", "NaN", "Infinity", "-0", 0.1, "0.30000000000000004", "123456789012345678901234567890.123456789"],
    "UUID": ["12345678-1234-5678-1234-567812345678", "12345678123456781234567812345678", "{12345678-1234-5678-1234-567812345678}"],
    "timedelta": ["1:00:00", "1 day, 0:00:00", "0:00:00.500000", "-1 day, 23:59:59", "3 days, 1:02:03.000004", "0:00:00"],
    "bytes": ["YQ==", "MWUzMA==", "1e30", "AAAA", "bnVsbA==", "true", "null", "1234", "12e3", "+/+/"],
    "bytearray": ["YQ==", "1e30", "true", "null", "1234"],
    "range": ["range(3)", "range(1, 3)", "range(0, 10, 2)", "range(0)", "range(5, 1, -1)", "range(0, 1)"],
    "Any": [[], {}, [1, "1", 1.0, True, None], {"a": None}, {"a": {"b": [1.0, "x", "1e3"]}}, [None], {"1": 1}, {"null": "null"},
            [[1], [2.5]], {"k": INF}, [NAN], {"class_path": "x"}, "a: [1, 2]", "- 1\n- 2", "{a: 1e3}", "[.inf]", 1e300,
            "{1: a}", "{null: 1, true: 2}", {"\U0001f680": ["\U0010ffff", "é"]},
            # importable class specs held by an Any value (serialised through the class's own parser)
            {"class_path": LIB + ".KwOnly", "dict_kwargs": {"level": 3, "s": "1e3"}},
            {"class_path": LIB + ".SubA", "init_args": {"s": "null", "opt": None}},
            {"class_path": LIB + ".KwNamed", "init_args": {"size": None}, "dict_kwargs": {"k": None}}],
}  # fmt: skip

# reduced pools of the core leaves, used inside constructors
P = {
    "str": ["", "a", "1", "1e3", "null", "true", "[1]", "a: 1", " x ", "NO", "a\nb", "._1", "1_0", "~", "2001-01-01", "é", "-", "0x1", ".inf", "{}", "#"],
    "int": [0, 1, -1, 10**20, "1", "0x10", "1_0"],
    "float": [0.5, 1.0, 1, -0.0, 1e22, 1e-07, INF, -INF, NAN, "1e3", ".5", ".inf"],
    "bool": [True, False, "true", "false"],
    "E": ["A", "B"],
}  # fmt: skip

KEYS = ["k", "1", "1e3", "null", "true", "a.b", " ", "", "1.5", "~", "no", "[k]", "k: v", "é", "._1", "#", "2001-01-01", "\U0001f680"]
DEFAULTS_LEAF = {
    "str": ["d", "1e3", ""], "int": [1, 0], "float": [1.0, 0.5, INF], "bool": [True, False], "E": ["A"], "EY": ["null"],
    "LitA": ["a", None], "LitB": ["1", 2], "PositiveInt": [1], "ClosedUnitInterval": [0.5, 1], "Gt1Le5": [2.0],
    "Email": ["a@b.c"], "UpperTwo": ["NO"], "Path_fr": ["f.txt"], "Path_fc": ["new.txt"], "Path_dc": ["d"],
    "pathlib.Path": ["a/b"], "complex": ["1+2j"], "Decimal": ["0.5", "0.1"], "UUID": ["12345678-1234-5678-1234-567812345678"],
    "timedelta": ["1:00:00"], "bytes": ["YQ=="], "bytearray": ["YQ=="], "range": ["range(3)"], "Any": [1, 1.0, True, "1", [1], None],
}  # fmt: skip


def dedupe(values):
    out, seen = [], set()
    for v in values:
        k = json.dumps(v, sort_keys=True) + type(v).__name__
        if k not in seen:
            seen.add(k)
            out.append(v)
    return out


def pool(spec, wide=True, wide_str=True):
    """Raw candidate values for a type spec, simplest first (wide_str=False: the first 14 str lookalikes inside
    constructors instead of all 21)."""
    if isinstance(spec, str):
        if spec in P and not wide:
            return list(P[spec])
        return dedupe(SPECIFIC.get(spec, []) + (P.get(spec, [])) + UNIVERSAL)
    ctor = spec[0]
    sub = [pool(a, wide=False) for a in spec[1:]]
    if not wide_str:
        sub = [x[:14] if a == "str" else x for a, x in zip(spec[1:], sub)]
    if ctor == "Optional":
        return dedupe(sub[0] + [None, "null"])
    if ctor == "Union":
        return dedupe([v for s in sub for v in s] + [None])
    if ctor in ("List", "TupleVar", "Set"):
        s = sub[0]
        out = [[]] + [[v] for v in s]
        if len(s) >= 2:
            out += [[s[0], s[1]], [s[1], s[0]], [s[1], s[1]], [s[-1], s[0], s[1]]]
        return dedupe(out)
    if ctor == "DictStr":
        s = sub[0]
        out = [{}] + [{"k": v} for v in s] + [{k: s[0]} for k in KEYS]
        if len(s) >= 2:
            out += [{"a": s[0], "b": s[1]}, {"b": s[1], "a": s[0]}]
        out.append({"k": defaults(spec[1])[0], "a": s[0]})  # the default's item plus another one
        return dedupe(out)
    if ctor == "DictInt":
        s = sub[0]
        out = [{}] + [{"1": v} for v in s] + [{"0": s[0], "-1": s[-1]}, {"10": s[0]}, {"1_0": s[0]}, {"01": s[0]}, {"0x10": s[0]}, {"1.0": s[0]}, {"k": s[0]}]
        return dedupe(out)
    if ctor == "Tuple2":
        a, b = sub
        return dedupe([[v, b[0]] for v in a] + [[a[0], u] for u in b] + [[a[-1], b[-1]], [a[0]], []])
    raise ValueError(spec)


def defaults(spec):
    """Raw defaults tried for a type (besides UNSET); chosen to conform, the parser decides."""
    if isinstance(spec, str):
        return list(DEFAULTS_LEAF[spec])
    ctor = spec[0]
    d = [defaults(a) for a in spec[1:]]
    if ctor == "Optional":
        return [None, d[0][0]]
    if ctor == "Union":
        return dedupe([d[0][0], d[1][0], 1, 1.0, True])
    if ctor in ("List", "TupleVar"):
        return [[d[0][0]], [], [d[0][0], d[0][-1]]]
    if ctor == "Set":
        return [[d[0][0]], []]
    if ctor == "DictStr":
        return [{"k": d[0][0]}, {}]
    if ctor == "DictInt":
        return [{"1": d[0][0]}]
    if ctor == "Tuple2":
        return [[d[0][0], d[1][0]]]
    raise ValueError(spec)


CLASS_VALUES = [
    "SubA", LIB + ".SubA", LIB + ".Base",
    {"class_path": LIB + ".SubA"},
    {"class_path": "SubA", "init_args": {"a": 7, "s": "1e3", "opt": "null"}},
    {"class_path": "SubA", "init_args": {"s": "true", "opt": None}},
    {"class_path": "SubA", "init_args": {"s": "", "opt": ""}},
    {"class_path": LIB + ".SubB"},
    {"class_path": "SubB", "init_args": {"inner": {"class_path": LIB + ".Inner", "init_args": {"v": INF, "name": "1_0"}}}},
    {"class_path": "SubB", "init_args": {"inner": {"class_path": LIB + ".Inner"}, "items": [], "u": 1, "a": 9}},
    {"class_path": "SubB", "init_args": {"items": [3, 4], "u": "1"}},
    {"class_path": "SubB", "init_args": {"inner": None, "u": "null"}},
    {"class_path": "SubC", "init_args": {"req": "r"}},
    {"class_path": "SubC", "init_args": {"req": "1e3", "d": {"1": 1, "null": 2}, "t": [2, "2"]}},
    {"class_path": "SubC", "init_args": {"req": "no", "d": {}, "t": [0, ""]}},
    {"class_path": "SubC"},
    {"init_args": {"a": 3}},
    None,
    # classes taking free-form keyword arguments: the accepted value carries dict_kwargs, with and without
    # init_args (KwOnly has no named parameter at all), and an Optional named parameter whose default is not None
    {"class_path": "KwOnly"},
    {"class_path": "KwOnly", "dict_kwargs": {"level": 3, "mode": "fast"}},
    {"class_path": LIB + ".KwOnly", "dict_kwargs": {"s": "1e3", "t": "true", "n": None, "l": [1, "1", None], "e": "", "d": {"null": "1"}}},
    {"class_path": "KwOnly", "dict_kwargs": {}},
    {"class_path": "KwOnly", "init_args": {"level": 3}},
    {"class_path": "KwNamed", "dict_kwargs": {"level": "null"}},
    {"class_path": "KwNamed", "init_args": {"size": None}},
    {"class_path": "KwNamed", "init_args": {"size": None}, "dict_kwargs": {"level": 3.0, "x y": "a: 1"}},
    {"class_path": LIB + ".KwNamed", "init_args": {"size": 2}, "dict_kwargs": {"other": None}},
    # every class that shares the init arg `a` with the others, with `a` given explicitly as that class's OWN default:
    # under a default of another class whose `a` is not its default, the value differs from what the parser makes of
    # the bare class_path (init args that the new class accepts carry over from the default)
    {"class_path": LIB + ".Base", "init_args": {"a": 1}},
    {"class_path": "SubA", "init_args": {"a": 2}},
    {"class_path": "SubB", "init_args": {"a": 1}},
]  # fmt: skip
CLASS_DEFAULTS = [UNSET, {"class_path": LIB + ".SubA", "init_args": {"a": 5}}, {"class_path": LIB + ".SubB"}, None,
                  {"class_path": LIB + ".KwNamed", "dict_kwargs": {"level": 1}}]  # fmt: skip


def subst(v, cwd):
    if isinstance(v, str):
        return v.replace("$CWD", cwd)
    if isinstance(v, list):
        return [subst(x, cwd) for x in v]
    if isinstance(v, dict):
        return {subst(k, cwd): subst(x, cwd) for k, x in v.items()}
    return v


def argv_text(v):
    if isinstance(v, str):
        return v
    return json.dumps(v, ensure_ascii=False)


# ---------------------------------------------------------------------------------------------------
# parser shapes: build(tspec, dobj, has_default, mode) -> parser; place(v) -> (object, argv or None)

SUB_FILE = "sub.yaml"


def _kw(dobj, has_default):
    return {"default": dobj} if has_default else {}


def _new(mode, config=True):
    from jsonargparse import ArgumentParser

    p = ArgumentParser(exit_on_error=False, parser_mode=mode)
    if config:
        p.add_argument("--cfg", action="config")
    return p


def build_parser(shape, tspec, dobj, has_default, mode):
    from typing import Dict, List, Optional

    from jsonargparse import ActionParser

    kw = _kw(dobj, has_default)
    p = _new(mode)
    if shape == "flat":
        p.add_argument("--x", type=build_type(tspec), **kw)
        p.add_argument("--keep", type=str, default="keep")
    elif shape == "group":
        p.add_argument("--top", type=str, default="t")
        p.add_argument("--g.x", type=build_type(tspec), **kw)
        p.add_argument("--g.h.y", type=int, default=2)
        p.add_argument("--g.h.z", type=Optional[str], default=None)
    elif shape in ("dataclass", "dataclass_file"):
        p.add_argument("--d", type=make_dataclass(tspec, dobj, has_default))
    elif shape == "optdc":
        p.add_argument("--d", type=Optional[make_dataclass(tspec, dobj, has_default)], default=None)
    elif shape == "listdc":
        p.add_argument("--d", type=List[make_dataclass(tspec, dobj, has_default)], default=[])
    elif shape == "dictdc":
        p.add_argument("--d", type=Dict[str, make_dataclass(tspec, dobj, has_default)], default={})
    elif shape in SUB_SHAPES:
        p.add_argument("--top", type=int, default=0)
        sc = p.add_subcommands()
        a = _new(mode, config=True)
        a.add_argument("--x", type=build_type(tspec), **kw)
        a.add_argument("--n", type=int, default=1)
        b = _new(mode, config=False)
        b.add_argument("--m", type=Optional[int], default=None)
        sc.add_subcommand("a", a, aliases=("al",))  # reachable under a second name
        sc.add_subcommand("b", b)  # level order: all first-level subcommands before the second level
        sc.add_subcommand("e", _new(mode, config=False))  # a subcommand that declares no argument at all
        sc2 = b.add_subcommands()
        c = _new(mode, config=False)
        c.add_argument("--y", type=build_type(tspec), **kw)
        d = _new(mode, config=False)
        d.add_argument("--z", type=Optional[str], default=None)
        sc2.add_subcommand("c", c)
        sc2.add_subcommand("d", d)
    elif shape == "link":
        T = build_type(tspec)
        p.add_argument("--src.x", type=T, **kw)
        p.add_argument("--dst.y", type=T)
        p.add_argument("--dst.k", type=int, default=1)
        p.link_arguments("src.x", "dst.y")
    elif shape in ("inner", "inner_file"):
        inner = _new(mode, config=False)
        inner.add_argument("--x", type=build_type(tspec), **kw)
        inner.add_argument("--n", type=int, default=1)
        p.add_argument("--inner", action=ActionParser(parser=inner))
        p.add_argument("--keep", type=str, default="keep")
    elif shape == "class":
        p.add_argument("--c", type=build_type(tspec), **({"default": copy.deepcopy(dobj)} if has_default else {}))
        p.add_argument("--keep", type=str, default="keep")
    else:
        raise ValueError(shape)
    return p


def place(shape, v):
    """Where the value goes: (object for parse_object, argv list or None)."""
    t = argv_text(v)
    if shape == "flat":
        return {"x": v}, ["--x=" + t]
    if shape == "group":
        return {"g": {"x": v}}, ["--g.x=" + t]
    if shape == "dataclass":
        return {"d": {"x": v}}, ["--d.x=" + t]
    if shape == "optdc":
        return {"d": {"x": v}}, ["--d=" + json.dumps({"x": v}, ensure_ascii=False)]
    if shape == "listdc":
        o = [{"x": v}, {"x": v, "n": 2}]
        return {"d": o}, ["--d=" + json.dumps(o, ensure_ascii=False)]
    if shape == "dictdc":
        o = {"k": {"x": v}, "1": {"x": v, "n": 2}}
        return {"d": o}, ["--d=" + json.dumps(o, ensure_ascii=False)]
    if shape == "sub_a":
        return {"subcommand": "a", "a": {"x": v}}, ["a", "--x=" + t]
    if shape == "sub_bc":
        return {"b": {"c": {"y": v}}}, ["b", "c", "--y=" + t]
    if shape == "sub_alias":  # the subcommand a, chosen through its alias
        return {"subcommand": "al", "al": {"x": v}}, ["al", "--x=" + t]
    if shape == "sub_e":  # the subcommand without arguments (nothing to place: the value is not used)
        return {"subcommand": "e"}, ["e"]
    if shape == "link":
        return {"src": {"x": v}, "dst": {"k": 5}}, ["--src.x=" + t, "--dst.k=5"]
    if shape == "inner":
        return {"inner": {"x": v}}, ["--inner.x=" + t]
    if shape == "inner_file":
        return {"inner": SUB_FILE}, ["--inner=" + SUB_FILE]
    if shape == "dataclass_file":
        return {"d": SUB_FILE}, ["--d=" + SUB_FILE]
    if shape == "class":
        return {"c": v}, ["--c=" + t]
    raise ValueError(shape)


FILE_SHAPES = ("inner_file", "dataclass_file")
SUB_SHAPES = ("sub_a", "sub_bc", "sub_alias", "sub_e")

# ---------------------------------------------------------------------------------------------------
# one case


def _has_nan_inf(v):
    if isinstance(v, float):
        return v != v or v in (INF, -INF)
    if isinstance(v, list):
        return any(_has_nan_inf(x) for x in v)
    if isinstance(v, dict):
        return any(_has_nan_inf(x) for x in v.values())
    return False


def typed_case(case):
    from mc.util import restored_process_state, scratch_dir

    with restored_process_state(), scratch_dir(chdir=True) as cwd:
        with open("f.txt", "w") as f:
            f.write("content\n")
        os.mkdir("d")
        os.mkdir("out")
        return _typed_case(case, os.path.realpath(cwd))


def _typed_case(case, cwd):
    from mc.util import outcome, tcanon, teq

    shape, tspec, mode = case["shape"], case["type"], case.get("mode", "yaml")
    pc_flags = case.get("pc", PC_ALL)  # None: the argv channel is not exercised for this case
    save_all = case.get("sv") == "all"
    formats = YAML_FORMATS if mode == "yaml" else JSON_FORMATS
    f0 = formats[0]
    ext = "yaml" if mode == "yaml" else "json"
    res = {"status": None, "rt": 0, "ops": 0, "devs": [], "channels": {}, "key": None}
    value = subst(case["value"], cwd)
    has_default = case["default"] != UNSET
    dobj = None

    # the default as a well-typed Python object: what the parser itself makes of the raw default
    if has_default and shape != "class":
        hp = _new(mode, config=False)
        hp.add_argument("--x", type=build_type(tspec))
        o = outcome(hp.parse_object, {"x": copy.deepcopy(subst(case["default"], cwd))})
        res["ops"] += 1
        if o["kind"] != "ok":
            res["status"] = "default-not-accepted"
            return res
        dobj = o["value"].x
    elif has_default:
        dobj = copy.deepcopy(case["default"])

    def mk():
        return build_parser(shape, tspec, copy.deepcopy(dobj) if isinstance(dobj, (list, dict, set)) else dobj, has_default, mode)

    if shape in FILE_SHAPES:
        if _has_nan_inf(value):
            res["status"] = "not-expressible"
            return res
        with open(SUB_FILE, "w") as f:
            f.write(json.dumps({"x": value}, ensure_ascii=False))

    try:
        p = mk()
    except Exception as ex:  # a parser that cannot be built has no configurations
        res["status"] = "parser-not-buildable:" + type(ex).__name__
        return res
    obj, argv = place(shape, value)
    drop = ("cfg", "a.cfg", "al.cfg") if shape in ("sub_a", "sub_alias") else ("cfg",)
    o = outcome(p.parse_object, copy.deepcopy(obj))
    res["ops"] += 1
    c_obj = strip_cfg(o["value"], drop) if o["kind"] == "ok" else None
    raw_obj = o["value"] if o["kind"] == "ok" else None
    c_argv = None
    if pc_flags is not None and argv is not None and not any("\x00" in a for a in argv):
        oa = outcome(mk().parse_args, list(argv))
        res["ops"] += 1
        if oa["kind"] == "ok":
            c_argv = strip_cfg(oa["value"], drop)
    if c_obj is None and c_argv is None:
        res["status"] = "rejected"
        return res
    res["status"] = "accepted"
    configs = []
    if c_obj is not None:
        configs.append(("object", c_obj, raw_obj))
    if c_argv is not None and (c_obj is None or not teq(c_obj, c_argv)):
        configs.append(("argv", c_argv, None))
    res["key"] = json.dumps([shape, tspec, case["default"], mode, [tcanon(c) for _, c, _ in configs]], sort_keys=True, default=repr)
    pkey = None if "Path" in tkey(tspec) else json.dumps([shape, tspec, case["default"], mode], sort_keys=True)
    res["nontrivial"] = _nontrivial(configs, mk, drop, pkey)
    res["spec_kinds"] = sorted({k for _, c, _ in configs for k in _spec_kinds(c)})
    raised = set()  # dump channels that deviated for this case (a failing --print_config with the same flags is the same root cause)
    reported = set()  # (format, class) already reported by a more basic channel of this case: one root cause, one signature

    union_hit = []  # the plain dump of this case already showed the Union-order root cause: derived channels repeat it

    def record(channel, label, cls, detail, fmts):
        if union_hit:
            return
        res["devs"].append((f"{channel}:{label}:{cls}", detail))
        for f in fmts:
            reported.add((f, cls))

    def chan(name, n=1):
        res["channels"][name] = res["channels"].get(name, 0) + n

    for entry, c0, raw in configs:
        p = mk()

        def union_order_root_cause(kw, modulo_none):
            """A deviating dump of a Union-typed argument: True iff the SAME configuration, serialised with the same
            flags by a parser whose Union lists the members in the reverse order, re-parses (by that parser) to the
            original - i.e. the serialiser of the earlier member took a value that belongs to the later member."""
            if shape != "flat" or not (isinstance(tspec, list) and tspec[0] == "Union" and len(tspec) == 3):
                return False
            try:
                q = build_parser(shape, ["Union", tspec[2], tspec[1]], copy.deepcopy(dobj) if isinstance(dobj, (list, dict, set)) else dobj, has_default, mode)
            except Exception:
                return False
            oq = outcome(q.dump, c0, **kw)
            if oq["kind"] != "ok":
                return False
            return judge_reparse(q.parse_string, oq["value"], c0, drop, modulo_none)[0] is None

        def run_dump_channel(channel, fmts, modulo_none=False, **dump_kw):
            """-> {fmt: cls}, {fmt: detail} for the deviating formats not yet explained by a more basic channel."""
            results, details = {}, {}
            for fmt in fmts:
                kw = dict(dump_kw)
                if fmt == "yaml_comments":
                    kw["yaml_comments"] = True
                else:
                    kw["format"] = fmt
                od = outcome(p.dump, c0, **kw)
                res["ops"] += 1
                if od["kind"] != "ok":
                    if union_order_root_cause(kw, modulo_none):
                        union_hit.append(channel)
                        res["devs"].append((SIG_UNION_ORDER + ":dump-raises", f"[{channel} {fmt}] config {short(c0)} ({entry}): dump raises {od.get('type', '')}: {od.get('message', '')}"))
                        continue
                    results[fmt] = "dump-raises:" + od.get("type", od["kind"]).rsplit(".", 1)[-1]
                    details[fmt] = f"config {short(c0)} ({entry}): {od.get('message', '')}"
                    continue
                text = od["value"]
                cls, detail, c1 = judge_reparse(p.parse_string, text, c0, drop, modulo_none)
                res["rt"] += 1
                res["ops"] += 1
                chan(channel)
                if cls and union_order_root_cause(kw, modulo_none):
                    union_hit.append(channel)
                    res["devs"].append((SIG_UNION_ORDER + ":value-respelt", f"[{channel} {fmt}] config {short(c0)} ({entry}) text {text!r}: {detail}"))
                    continue
                if cls and fmt in JSON_FORMATS and mode == "yaml" and json_nonfinite_root_cause(p.parse_string, text, c0, drop, modulo_none):
                    res["devs"].append((SIG_JSON_NONFINITE, f"[{channel} {fmt}] config {short(c0)} text {text!r}: {detail}"))
                    continue
                if cls == DECIMAL_VIA_FLOAT:
                    res["devs"].append((SIG_DECIMAL, f"[{channel} {fmt}] config {short(c0)} text {text!r}: {detail}"))
                    continue
                if cls and fmt in JSON_FORMATS and mode == "yaml" and json_key_root_cause(c0, neutralise_none(c0, c1) if modulo_none and c1 is not None else c1):
                    res["devs"].append((SIG_JSON_KEY, f"[{channel} {fmt}] config {short(c0)} text {text!r}: {detail}"))
                    continue
                if cls == "reparse-rejected" and shape in SUB_SHAPES and _unnamed_subcommand_root_cause(p.parse_string, text, c0, drop, modulo_none):
                    cls = CLS_UNNAMED_SUBCOMMAND
                if cls and "skip_default" in channel and not cls.startswith("reparse-") and _carry_over_root_cause(p, c0, c1, detail, drop):
                    cls = CLS_CARRY_OVER
                elif cls and "skip_default" in channel and not cls.startswith("reparse-") and _dict_kwargs_root_cause(c0, c1, detail):
                    cls = "class-spec:dict_kwargs-not-compared-with-default"
                elif cls and "skip_default" in channel and not cls.startswith("reparse-") and _dict_items_root_cause(p, c0, detail, drop):
                    cls = "dict-valued-argument:items-compared-with-default-items"
                if cls and "skip_default" in channel and cls not in KEEP_CLASSES and not cls.startswith("reparse-") and _left_out(p, c0, c1, drop):
                    cls = "non-default-entry-left-out"  # one root cause whatever the type of the value
                if cls:
                    results[fmt] = cls
                    details[fmt] = f"config {short(c0)} ({entry}) text {text!r}: {detail}"
            if results:
                raised.add(channel)
            results = {f: c for f, c in results.items() if (_base_fmt(f), c) not in reported}
            if "yaml_comments" in results:
                # known root cause?  the re-emission of the plain yaml dump through ruyaml alone shows the same class
                od = outcome(p.dump, c0, **{**dump_kw, "format": "yaml"})
                sig = ruyaml_root_cause(p.parse_string, od["value"], c0, drop, modulo_none) if od["kind"] == "ok" else None
                if sig:
                    res["devs"].append((sig, f"[{channel}] {details['yaml_comments']}"))
                    reported.add(("yaml", results.pop("yaml_comments")))
            return results, details

        def report(channel, results, details, fmts):
            if len(fmts) >= 2:
                for label, cls, f in merge_formats(results, fmts):
                    record(channel, label, cls, f"[{f}] {details[f]}", fmts if label == "all" else [f])
            else:
                for f, cls in results.items():
                    record(channel, _base_fmt(f), cls, f"[{f}] {details[f]}", [_base_fmt(f)])

        # -- dump, nulls kept
        report("dump", *run_dump_channel("dump", formats, skip_none=False), formats)
        # -- yaml with help comments (what --print_config=comments prints)
        # (quick: not on the flat G_2 cases - the scalar layer runs it for every string at the str and key positions,
        # G_1 and every structured shape for every type)
        if mode == "yaml" and case.get("yc", True):
            report("dump-yaml_comments", *run_dump_channel("dump-yaml_comments", ("yaml_comments",), skip_none=False), ("yaml_comments",))
        # -- skip_default (documented as lossless)
        report("dump-skip_default", *run_dump_channel("dump-skip_default", formats, skip_none=False, skip_default=True), formats)
        # -- default dump (drops None entries): judged on the entries that are not None
        report("dump-skip_none", *run_dump_channel("dump-skip_none", (f0,), modulo_none=True), (f0,))
        # (quick, flat parser: only where a None entry makes the text differ from the nulls-kept skip_default dump above)
        if shape != "flat" or save_all or has_none(c0):
            report("dump-skip_none+skip_default", *run_dump_channel("dump-skip_none+skip_default", (f0,), modulo_none=True, skip_default=True), (f0,))
        # -- dump without validation (the per-action serialisation takes a separate branch), nulls kept
        # (structured shapes; on the flat parser the same branch is taken by the multi-file save below, for every case)
        if shape != "flat":
            sv_fmts = formats if save_all else (f0,)
            report("dump-skip_validation", *run_dump_channel("dump-skip_validation", sv_fmts, skip_none=False, skip_validation=True), sv_fmts)

        # -- save -> parse_path
        outdir = "out/" if shape in FILE_SHAPES else ""
        single = formats if save_all else (f0,)
        variants = [("save", fmt, {"format": fmt, "skip_none": False, "multifile": False}, False) for fmt in single]
        if shape == "flat" and not save_all:
            # quick tier, flat parser: single-file save writes exactly the text of the dump channel above; the
            # file channel is exercised through the multi-file (default) mode below
            variants = []
        # default save() drops None entries; without a None entry it writes what the nulls-kept multi-file save
        # below writes, so it is run where it can differ: configurations holding a None, and the file shapes
        if shape in FILE_SHAPES or save_all or has_none(c0):
            variants.append(("save-default", f0, {}, True))
        # multi-file save (the default mode) with nulls kept, on every shape: its final dump takes the
        # skip_validation path of the per-action serialisation, also when no sub-config file is involved
        variants.append(("save-multifile", f0, {"skip_none": False}, False))
        single_ok = False
        for i, (channel, fmt, kw, modulo_none) in enumerate(variants):
            path = f"{outdir}saved_{i}.{'json' if fmt in JSON_FORMATS else 'yaml'}"
            src = raw if (channel in ("save-multifile", "save-default") and raw is not None) else c0
            p = mk()
            osv = outcome(p.save, src.clone(), path, overwrite=True, **kw)
            res["ops"] += 1
            if osv["kind"] != "ok":
                cls = "save-raises:" + osv.get("type", osv["kind"]).rsplit(".", 1)[-1]
                detail = f"config {short(c0)} ({entry}): {osv.get('message', '')}"
            else:
                cls, detail, c1s = judge_reparse(p.parse_path, path, c0, drop, modulo_none)
                res["rt"] += 1
                res["ops"] += 1
                chan(channel)
                try:
                    with open(path) as fh:
                        text = fh.read()
                except OSError:
                    text = None
                if cls and text is not None and fmt in JSON_FORMATS and mode == "yaml" and json_nonfinite_root_cause(p.parse_string, text, c0, drop, modulo_none):
                    res["devs"].append((SIG_JSON_NONFINITE, f"[{channel} {fmt}] config {short(c0)} text {text!r}: {detail}"))
                    continue
                if cls == DECIMAL_VIA_FLOAT:
                    res["devs"].append((SIG_DECIMAL, f"[{channel} {fmt}] config {short(c0)} file {text!r}: {detail}"))
                    continue
                if cls and fmt in JSON_FORMATS and mode == "yaml" and json_key_root_cause(c0, c1s):
                    res["devs"].append((SIG_JSON_KEY, f"[{channel} {fmt}] config {short(c0)} file {text!r}: {detail}"))
                    continue
                if cls == "reparse-rejected" and text is not None and shape in SUB_SHAPES and _unnamed_subcommand_root_cause(p.parse_string, text, c0, drop, modulo_none):
                    cls = CLS_UNNAMED_SUBCOMMAND
                detail = f"config {short(c0)} ({entry}) file {text!r}: {detail}"
            if channel == "save" and not cls:
                single_ok = True
            if cls and cls.startswith("save-raises:") and channel != "save" and single_ok and raw is not None and shape in FILE_SHAPES:
                # single-file save of the same configuration works: the sub-config file is written without
                # going through the argument's serialiser (one root cause whatever the value type)
                res["devs"].append((SIG_MULTIFILE_UNSERIALISED, f"[{channel} {fmt}] {detail}"))
                continue
            if cls and (fmt, cls) not in reported and (fmt, cls.replace("save-raises:", "dump-raises:")) not in reported:
                record(channel, fmt, cls, detail, [fmt])

    # -- --print_config[=flags] captured, fed back through --config
    if c_argv is not None:
        for flags in pc_flags:
            if mode == "json" and "comments" in flags:
                continue  # yaml with comments is not json: a json-mode parser cannot be asked to re-read it
            pc = "--print_config" + ("=" + flags if flags else "")
            op = outcome(mk().parse_args, [pc] + list(argv))
            res["ops"] += 1
            channel = "print_config" + ("=" + flags if flags else "")
            if op["kind"] != "exit" or op.get("code") not in (0, None):
                cls = "print-fails:" + (op.get("type", "") or op["kind"]).rsplit(".", 1)[-1]
                detail = f"args {argv!r}: {op.get('message') or op.get('stderr', '')[-300:]}"
                alias = cls.replace("print-fails:", "dump-raises:")
            else:
                text = op["stdout"]
                fname = f"printed_{flags.replace(',', '_') or 'plain'}.{ext}"
                with open(fname, "w") as fh:
                    fh.write(text)
                cls, detail, _ = judge_reparse(mk().parse_args, ["--cfg", fname], c_argv, drop, "skip_null" in flags)
                res["rt"] += 1
                res["ops"] += 1
                chan("print_config")
                if cls == "reparse-rejected" and shape in SUB_SHAPES and _unnamed_subcommand_root_cause(mk().parse_string, text, c_argv, drop, "skip_null" in flags):
                    cls = CLS_UNNAMED_SUBCOMMAND
                if cls and "skip_default" in flags and not cls.startswith("reparse-") and _dict_items_root_cause(mk(), c_argv, detail, drop):
                    # same root cause as in dump(skip_default=True): the items of a dict VALUE are compared with the
                    # items of the default dict (the configuration built from the command line may order the items
                    # differently from the one the dump channel was given, so that channel need not have deviated)
                    cls = "dict-valued-argument:items-compared-with-default-items"
                detail = f"args {argv!r} printed {text!r}: {detail}"
                alias = cls
                if cls == DECIMAL_VIA_FLOAT:
                    res["devs"].append((SIG_DECIMAL, f"[{channel}] {detail}"))
                    continue
            same_dump = {"": "dump", "skip_default": "dump-skip_default", "skip_null": "dump-skip_none", "comments": "dump-yaml_comments",
                         "skip_default,skip_null": "dump-skip_none+skip_default"}[flags]
            if cls and same_dump in raised:
                continue  # dump() with the same flags already deviated for this configuration (same text): one root cause
            if cls and (f0, cls) not in reported and (f0, alias) not in reported:
                record(channel, f0, cls, detail, [f0])
        if shape not in ("flat", "class") and "" in pc_flags and (not has_default or save_all):
            # (quick budget: not on the class-typed cases, whose parses cost ten times a plain one, and with the default
            # unset only; the position of the flag relative to the config option is independent of types and defaults)
            # --print_config placed BEFORE a config file option and the other arguments: it must still print the
            # configuration "after applying all other arguments".  The file is an empty mapping, so the expected
            # configuration is the one of the arguments alone.
            with open(f"empty.{ext}", "w") as fh:
                fh.write("{}\n")
            pre = ["--cfg", f"empty.{ext}"]
            oe = outcome(mk().parse_args, pre + list(argv))
            res["ops"] += 1
            if oe["kind"] == "ok":
                c_exp = strip_cfg(oe["value"], drop)

                def printed_roundtrip(args, fname):
                    op = outcome(mk().parse_args, args)
                    res["ops"] += 1
                    if op["kind"] != "exit" or op.get("code") not in (0, None):
                        return "print-fails:" + (op.get("type", "") or op["kind"]).rsplit(".", 1)[-1], f"args {args!r}: {op.get('message') or op.get('stderr', '')[-300:]}"
                    with open(fname, "w") as fh:
                        fh.write(op["stdout"])
                    cls, detail, _ = judge_reparse(mk().parse_args, ["--cfg", fname], c_exp, drop, False)
                    res["rt"] += 1
                    res["ops"] += 1
                    if cls == "reparse-rejected" and shape in SUB_SHAPES and _unnamed_subcommand_root_cause(mk().parse_string, op["stdout"], c_exp, drop, False):
                        cls = CLS_UNNAMED_SUBCOMMAND
                    return cls, f"args {args!r} printed {op['stdout']!r}: {detail}"

                cls, detail = printed_roundtrip(["--print_config"] + pre + list(argv), f"printed_first.{ext}")
                chan("print_config-before-config-option")
                if cls and cls != DECIMAL_VIA_FLOAT and "dump" not in raised and (f0, cls) not in reported and (f0, cls.replace("print-fails:", "dump-raises:")) not in reported:
                    # root cause: the same request placed right AFTER the config file option prints a text that round-trips
                    cls_last, _ = printed_roundtrip(pre + ["--print_config"] + list(argv), f"printed_last.{ext}")
                    if cls_last is None:
                        res["devs"].append((SIG_PC_BEFORE_CONFIG, f"[print_config first] {detail}"))
                    else:
                        record("print_config-before-config-option", f0, cls, detail, [f0])
        if shape in ("sub_a", "sub_alias") and "" in pc_flags:
            # --print_config given to the subcommand prints that subcommand's settings only; fed back at the same level
            op = outcome(mk().parse_args, [argv[0], "--print_config"] + list(argv[1:]))
            res["ops"] += 1
            if op["kind"] != "exit" or op.get("code") not in (0, None):
                cls, detail = "print-fails:" + (op.get("type", "") or op["kind"]).rsplit(".", 1)[-1], f"args {argv!r}: {op.get('message') or op.get('stderr', '')[-300:]}"
            else:
                with open(f"printed_sub.{ext}", "w") as fh:
                    fh.write(op["stdout"])
                cls, detail, _ = judge_reparse(mk().parse_args, [argv[0], "--cfg", f"printed_sub.{ext}"], c_argv, drop, False)
                res["rt"] += 1
                res["ops"] += 1
                chan("print_config-subcommand")
                detail = f"args {argv!r} printed {op['stdout']!r}: {detail}"
            if cls and cls.startswith("print-fails:") and shape == "sub_alias":
                # root cause: the same command line with the canonical subcommand name prints fine
                oc = outcome(mk().parse_args, ["a", "--print_config"] + list(argv[1:]))
                res["ops"] += 1
                if oc["kind"] == "exit" and oc.get("code") in (0, None):
                    res["devs"].append((SIG_PC_ALIAS, f"[print_config-subcommand] {detail}"))
                    cls = None
            if cls == DECIMAL_VIA_FLOAT:
                res["devs"].append((SIG_DECIMAL, f"[print_config-subcommand] {detail}"))
            elif cls and (f0, cls) not in reported:
                record("print_config-subcommand", f0, cls, detail, [f0])
    return res


CLS_UNNAMED_SUBCOMMAND = "chosen-subcommand-without-settings-not-named"
SIG_PC_BEFORE_CONFIG = "print_config:flag-before-config-option:prints-the-configuration-of-the-file-alone"
SIG_PC_ALIAS = "print_config-subcommand:subcommand-alias:settings-looked-up-under-the-canonical-name"


def _unnamed_subcommand_root_cause(parse_string, text, c0, drop, modulo_none=False):
    """A rejected re-parse on a parser with subcommands: True iff the original configuration chose, at some level, a
    subcommand whose settings are empty (in the text), and the SAME text with just the names of the chosen
    subcommands added (the `subcommand` entries, which dump always removes) re-parses to the original."""
    import yaml

    try:
        data = yaml.safe_load(text)
    except Exception:
        return False
    if not isinstance(data, dict):
        return False
    found = []

    def inject(ns, d):
        name = vars(ns).get("subcommand")
        if not isinstance(name, str) or not isinstance(d, dict):
            return
        sub = vars(ns).get(name)
        if not d.get(name):
            found.append(name)
            d[name] = d.get(name) or {}
        d["subcommand"] = name
        if isinstance(sub, argparse.Namespace):
            inject(sub, d[name])

    inject(c0, data)
    if not found:
        return False
    try:
        alt = json.dumps(data)
    except Exception:
        return False
    cls, _, _ = judge_reparse(parse_string, alt, c0, drop, modulo_none)
    return cls is None


SIG_UNION_ORDER = "dump:all:union:value-of-a-later-member-taken-by-the-serialiser-of-an-earlier-member"
CLS_CARRY_OVER = "class-spec:init-arg-equal-to-own-class-default-left-out:default-of-other-class-carries-over"


def _carry_over_root_cause(p, c0, c1, detail, drop):
    """skip_default channel: the first difference is an init arg of a class spec whose class differs from the class
    of the argument's default, and the re-parsed init arg is the one of the DEFAULT's spec (skip_default left the init
    arg out because it equals the own default of the value's class, but on parsing a bare class_path the init args of
    the argument's default that the new class accepts carry over)."""
    import re

    from mc.util import outcome, teq

    m = re.match(r"at (\$[^:]*):", detail)
    if not m or c1 is None:
        return False
    o = outcome(p.get_defaults)
    if o["kind"] != "ok":
        return False
    a, b, d = c0, c1, strip_cfg(o["value"], drop)
    segs = re.findall(r"\.([^.\[]+)", m.group(1)[1:])
    if "[" in m.group(1):
        return False
    for i, key in enumerate(segs):
        if not all(isinstance(x, argparse.Namespace) and key in vars(x) for x in (a, b, d)):
            return False
        if key == "init_args" and "class_path" in vars(a) and i == len(segs) - 2:
            name = segs[-1]
            da = vars(d).get("init_args")
            return (not teq(vars(a)["class_path"], vars(d).get("class_path")) and teq(vars(a)["class_path"], vars(b).get("class_path"))
                    and isinstance(da, argparse.Namespace) and name in vars(da) and name in vars(vars(b)["init_args"])
                    and teq(vars(vars(b)["init_args"])[name], vars(da)[name]))
        a, b, d = vars(a)[key], vars(b)[key], vars(d)[key]
    return False


KEEP_CLASSES = {CLS_UNNAMED_SUBCOMMAND, CLS_CARRY_OVER, "numeric-type-changed-value-equal", "class_path-differs", DECIMAL_VIA_FLOAT,
                "dict-valued-argument:items-compared-with-default-items",
                "class-spec:dict_kwargs-not-compared-with-default"}


def _dict_kwargs_root_cause(c0, c1, detail):
    """skip_default channel: the first difference lies inside the dict_kwargs of a class spec whose class_path and
    init_args came back unchanged (skip_default compares the init_args of a class-typed value with the default's
    and never looks at dict_kwargs, so a value that differs from the default in dict_kwargs only is left out)."""
    import re

    from mc.util import teq

    m = re.match(r"at (\$[^:]*):", detail)
    if not m or c1 is None:
        return False
    a, b = c0, c1
    for seg in re.findall(r"\.([^.\[]+)|\[(\d+)\]", m.group(1)[1:]):
        key = seg[0] if seg[0] else int(seg[1])
        if isinstance(a, argparse.Namespace) and isinstance(b, argparse.Namespace):
            if key == "dict_kwargs" and "class_path" in vars(a):
                return teq(vars(a).get("class_path"), vars(b).get("class_path")) and teq(vars(a).get("init_args"), vars(b).get("init_args"))
            if key not in vars(a) or key not in vars(b):
                return False
            a, b = vars(a)[key], vars(b)[key]
        elif isinstance(a, (list, tuple, dict)) and isinstance(b, type(a)):
            try:
                a, b = a[key], b[key]
            except (KeyError, IndexError, TypeError):
                return False
        else:
            return False
    return False


def _dict_items_root_cause(p, c0, detail, drop):
    """skip_default channel: the first difference lies inside the value of an argument whose value is a plain dict
    and whose default is a dict sharing a key with it (skip_default compares the items one by one with the default's
    items, although a dict value replaces the default dict as a whole when parsed)."""
    import re

    from mc.util import outcome

    m = re.match(r"at (\$[^:]*):", detail)
    if not m:
        return False
    o = outcome(p.get_defaults)
    if o["kind"] != "ok":
        return False
    node, dnode = c0, strip_cfg(o["value"], drop)
    for seg in re.findall(r"\.([^.\[]+)", m.group(1)[1:]):
        if not isinstance(node, argparse.Namespace):
            break
        if seg not in vars(node) or not isinstance(dnode, argparse.Namespace) or seg not in vars(dnode):
            return False
        if seg == "dict_kwargs" and "class_path" in vars(node):
            return False  # the free-form keyword arguments of a class spec are not a dict-valued argument
        node, dnode = vars(node)[seg], vars(dnode)[seg]
    return type(node) is dict and isinstance(dnode, dict) and bool(set(map(repr, node)) & set(map(repr, dnode)))


def _left_out(p, c0, c1, drop):
    """skip_default channel: some top-level entry that differs from the original came back as the parser's default,
    i.e. the dump left out an entry that was not the default."""
    from mc.util import outcome, teq

    if c1 is None:
        return False
    o = outcome(p.get_defaults)
    if o["kind"] != "ok":
        return False
    dflt = strip_cfg(o["value"], drop)
    for k in vars(c0):
        if k in vars(c1) and not teq(vars(c0)[k], vars(c1)[k]):
            return k in vars(dflt) and teq(vars(c1)[k], vars(dflt)[k])
    return False


def _spec_kinds(v, where="value", _d=0):
    """Which kinds of class specs a configuration holds (vacuity guards): (position, has init_args, has dict_kwargs,
    holds a None among its init_args)."""
    out = set()
    if _d > 12:
        return out
    if isinstance(v, argparse.Namespace):
        d = vars(v)
        if "class_path" in d:
            ia = d.get("init_args")
            out.add(f"{where}:{'init_args' if ia else 'no-init_args'}:{'dict_kwargs' if d.get('dict_kwargs') else 'no-dict_kwargs'}")
            if isinstance(ia, argparse.Namespace) and any(x is None for x in vars(ia).values()):
                out.add(f"{where}:None-init-arg")
            where = "nested"
        for x in d.values():
            out |= _spec_kinds(x, where, _d + 1)
    elif isinstance(v, (list, tuple)):
        for x in v:
            out |= _spec_kinds(x, "list-item" if where == "value" else where, _d + 1)
    elif isinstance(v, dict):
        for x in v.values():
            out |= _spec_kinds(x, "dict-value" if where == "value" else where, _d + 1)
    return out


def _base_fmt(f):
    return "yaml" if f == "yaml_comments" else f


_DEFAULTS_CANON = {}  # parser key -> canonical form of the parser's defaults (a statistic only; never used by the oracle)


def _nontrivial(configs, mk, drop, pkey=None):
    """A typed case is non-trivial when the accepted configuration differs from the parser's defaults.  The
    defaults depend on the parser only (shape, type, default, mode), so their canonical form is computed once per
    worker process and parser (not for Path types, whose defaults hold the case's scratch directory)."""
    from mc.util import outcome, tcanon

    if pkey is None or pkey not in _DEFAULTS_CANON:
        o = outcome(mk().get_defaults)
        canon = tcanon(strip_cfg(o["value"], drop)) if o["kind"] == "ok" else None
        if pkey is not None:
            _DEFAULTS_CANON[pkey] = canon
    else:
        canon = _DEFAULTS_CANON[pkey]
    if canon is None:
        return True
    return any(tcanon(c) != canon for _, c, _ in configs)


def typed_worker(case):
    import time

    t0 = time.process_time()
    r = typed_case(case)
    r["case"] = case
    r["cpu"] = time.process_time() - t0
    return r


# ---------------------------------------------------------------------------------------------------
# the enumerated space


def g2_types(leaves):
    out = []
    for a in leaves:
        out += [["Optional", a], ["List", a], ["DictStr", a], ["DictInt", a], ["TupleVar", a], ["Set", a]]
    for a in leaves:
        for b in leaves:
            if a != b:
                out.append(["Union", a, b])
            out.append(["Tuple2", a, b])
    return out


SHAPE_TYPES = CORE + [["Optional", "int"], ["Optional", "str"], ["List", "int"], ["List", "str"], ["DictStr", "int"],
                      ["Union", "int", "str"], ["Tuple2", "int", "str"], ["Set", "int"], "Any"]  # fmt: skip
SHAPE_TYPES_QUICK = ["str", "float", ["Optional", "int"], ["List", "str"], ["DictStr", "int"], ["Union", "int", "str"], "Any"]
SHAPE_TYPES_QUICK_DC = ["str", ["Optional", "int"], ["List", "str"], "Any"]
SHAPES = ["group", "dataclass", "optdc", "listdc", "dictdc", "sub_a", "sub_bc", "link", "inner", "inner_file", "dataclass_file"]
PC_THOROUGH = PC_ALL + ["skip_default,skip_null"]
NUMERIC = {"int", "float", "bool"}


SAME_KIND_PAIRS = [("E", "EY"), ("PositiveInt", "ClosedUnitInterval"), ("LitA", "LitB"), ("Path_fr", "Path_dc"), ("UUID", "timedelta")]
SAME_KIND_EXTRA = ["A", "B", "null", "true", "on", "y", "a", "1", 1, 2, 0.5, None, "x"]


def typed_cases(tier):
    quick = tier == "quick"
    cases = []
    pc_full = PC_ALL if quick else PC_THOROUGH
    sv = "mode" if quick else "all"

    def add(shape, t, d, v, mode="yaml", pc=pc_full, yc=True):
        cases.append({"layer": "typed", "shape": shape, "type": t, "default": d, "value": v, "mode": mode, "pc": pc, "sv": sv})
        if not yc:
            cases[-1]["yc"] = False  # no dump(yaml_comments=True) channel for this case

    # G_1: every leaf, wide pool, flat parser.  quick: --print_config plain and =skip_default here (the other
    # flags are exercised on every structured shape; their text is that of the dump channels run for every case)
    for leaf in LEAVES:
        ds = [UNSET] + defaults(leaf)
        nd = (3 if leaf in CORE or leaf in ("Any", "LitA") else 2) if quick else len(ds)
        for d in ds[:nd]:
            for v in pool(leaf):
                # quick: the plain --print_config does not depend on the default: run it once, with the default unset
                add("flat", leaf, d, v, pc=(["", "skip_default"] if d == UNSET else ["skip_default"]) if quick else pc_full)
        for d in ds[: (2 if leaf in CORE or leaf == "Any" else 1) if quick else 2]:
            for v in pool(leaf):
                add("flat", leaf, d, v, "json", ([""] if d == UNSET else None) if quick else pc_full)
    # G_2 over the core leaves, flat parser (quick: the argv / print_config channel is left to G_1 and the shapes)
    for t in g2_types(CORE):
        ds = [UNSET] + defaults(t)
        if quick:
            if t[0] == "Union":
                nd = len(ds) if set(t[1:]) <= NUMERIC else 2
            elif t[0] in ("List", "Optional", "DictStr"):
                nd = 3
            else:
                nd = 2
            if t[0] == "Tuple2" and t[2] not in ("int", "str"):
                continue
            if t[0] == "Tuple2" and t[1] not in ("int", "str"):
                nd = 1
        else:
            nd = len(ds)
        for d in ds[:nd]:
            for v in pool(t, wide_str=not quick):
                add("flat", t, d, v, pc=None if quick else pc_full, yc=not quick)
        if not quick:
            for v in pool(t):
                add("flat", t, UNSET, v, "json")
    # Unions of two members of the SAME kind (two enums, two restricted numbers, two literals, two path types, two
    # registered types), both orders: the serialiser of the first member must leave the values of the second to it
    for a, b in SAME_KIND_PAIRS:
        for t in (["Union", a, b], ["Union", b, a]):
            vals = dedupe(SPECIFIC.get(a, []) + DEFAULTS_LEAF[a] + SPECIFIC.get(b, []) + DEFAULTS_LEAF[b] + SAME_KIND_EXTRA)
            for d in [UNSET, DEFAULTS_LEAF[t[2]][0]] + ([] if quick else [DEFAULTS_LEAF[t[1]][0]]):  # quick: the default belongs to the later member
                for v in vals:
                    add("flat", t, d, v, pc=(["", "skip_default"] if d == UNSET else None) if quick else pc_full, yc=not quick)
    if not quick:
        # G_2 over further leaves inside Optional/List/DictStr
        for leaf in [x for x in LEAVES if x not in CORE and x != "Any"]:
            for ctor in ("Optional", "List", "DictStr"):
                t = [ctor, leaf]
                base = [v for v in dedupe(SPECIFIC.get(leaf, []) + DEFAULTS_LEAF[leaf])]
                vals = {"Optional": base + [None], "List": [[]] + [[v] for v in base] + [base[:2]], "DictStr": [{}] + [{"k": v} for v in base]}[ctor]
                d0 = {"Optional": None, "List": [DEFAULTS_LEAF[leaf][0]], "DictStr": {"k": DEFAULTS_LEAF[leaf][0]}}[ctor]
                for d in (UNSET, d0):
                    for v in vals:
                        add("flat", t, d, v)
        # G_3 skeletons over {int, str}
        for inner in (["List", "int"], ["List", "str"], ["DictStr", "int"], ["Optional", "str"], ["Union", "int", "str"], ["Tuple2", "int", "str"]):
            for ctor in ("Optional", "List", "DictStr"):
                t = [ctor, inner]
                ip = pool(inner)[:12]
                vals = {"Optional": ip + [None], "List": [[]] + [[v] for v in ip] + [ip[:2]], "DictStr": [{}] + [{"k": v} for v in ip] + [{"1e3": ip[0], "null": ip[1]}]}[ctor]
                for d in (UNSET, vals[1]):
                    for v in vals:
                        add("flat", t, d, v)
    # structured parser shapes
    for shape in SHAPES:
        types = SHAPE_TYPES
        if quick:
            types = SHAPE_TYPES_QUICK_DC if shape in ("optdc", "listdc", "dictdc") else SHAPE_TYPES_QUICK
            if shape in FILE_SHAPES:
                types = types + ["E", ["Tuple2", "int", "str"]]  # values that are not yaml/json natives
        for t in types:
            vals = pool(t, wide=False) if isinstance(t, str) and t in P else pool(t)
            if t == "Any":
                vals = dedupe([{"a": {"b": [1.0, "x", "1e3"]}}, [1, "1", 1.0, True, None], "1e3", None, 1.0, "a: [1, 2]", {"null": "null"}, [NAN]] + SPECIFIC["Any"] + [True, 1, "1", "null", "a", INF])
            if t == "str" and quick:
                vals = ["1e3", "null", "", "a", " x ", "NO", "a\nb"]
            vals = vals[:7] if quick else vals[:14]
            ds = [UNSET] + defaults(t)
            for d in ds[: 2 if quick else 3]:
                for v in vals:
                    if shape in FILE_SHAPES and _has_nan_inf(v):
                        continue
                    add(shape, t, d, v)
    # the subcommand that declares no argument (the value is not used), and the subcommand chosen through its alias
    for m in ("yaml", "json"):
        add("sub_e", "str", UNSET, "-", m)
    for t in ("str", ["Optional", "int"]) if quick else SHAPE_TYPES:
        vals = (["1e3", "null", "", "a"] if t == "str" else pool(t))[: 5 if quick else 14]
        for d in ([UNSET] + defaults(t))[:2]:
            for v in vals:
                add("sub_alias", t, d, v)
    # class-typed arguments
    # class specs as the argument's value, as a Union member and as an item of a list / dict value (an item replaces
    # the previous item as a whole when the serialised value is put back, a Namespace-valued argument is merged)
    class_types = ["Base", ["Optional", "Base"], ["List", "Base"], ["DictStr", "Base"]]
    for t in class_types:
        if not quick:
            cds = CLASS_DEFAULTS
        elif t == "Base":
            cds = [d for d in CLASS_DEFAULTS if d is not None]  # quick: default None behaves like the unset default
        else:
            cds = CLASS_DEFAULTS[:2] if t[0] == "Optional" else CLASS_DEFAULTS[:1]
        for d in cds:
            if isinstance(t, list) and d != UNSET and d is not None:
                if t[0] == "List":
                    d = [d]
                elif t[0] == "DictStr":
                    d = {"k": d}
            for v in CLASS_VALUES:
                if isinstance(t, list) and t[0] == "List":
                    v = [v, CLASS_VALUES[4]] if v is not None else []
                elif isinstance(t, list) and t[0] == "DictStr":
                    v = {"k": v, "1": CLASS_VALUES[4]} if v is not None else {}
                # quick: every --print_config flag with the first two defaults, plain and =skip_default with the others
                add("class", t, d, v, pc=pc_full if not quick or (t == "Base" and d in CLASS_DEFAULTS[:2]) else (["", "skip_default"] if t == "Base" else [""]))
    if not quick:
        # dataclass-typed leaves directly
        for t in ("Point", "Outer", ["Optional", "Outer"], ["List", "Point"]):
            vals = [{}, {"x": 2}, {"label": "1e3", "w": INF}, {"w": None, "label": "null"}]
            if t in ("Outer", ["Optional", "Outer"]):
                vals = [{}, {"p": {"x": 2}}, {"p": {"label": "1e3"}, "tags": ["null", "1"], "n": 0}, {"tags": []}]
            if isinstance(t, list) and t[0] == "List":
                vals = [[], [vals[1]], vals[1:]]
            for v in vals:
                add("flat", t, UNSET, v)
    # without duplicates, simplest first
    seen, out = set(), []
    for c in cases:
        k = json.dumps(c, sort_keys=True)
        if k not in seen:
            seen.add(k)
            out.append(c)
    out.sort(key=lambda c: len(json.dumps(c)))
    return out


def explore_typed(ctx, nontrivial):
    cases = typed_cases(ctx.tier)
    tot = {"rt": 0, "ops": 0}
    cpu = {}
    status = {}
    per_shape = {}
    channels = {}
    keys = set()
    types_accepting = set()
    sampled = 0
    spec_kinds = {}
    for r in ctx.pmap(typed_worker, cases):
        for k in r.get("spec_kinds", ()):
            spec_kinds[k] = spec_kinds.get(k, 0) + 1
        tot["rt"] += r["rt"]
        tot["ops"] += r["ops"]
        st = r["status"].split(":")[0]
        status[st] = status.get(st, 0) + 1
        case = r["case"]
        grp = case["shape"] if case["shape"] != "flat" else ("flat:G1:" + case["mode"] if isinstance(case["type"], str) else "flat:G2+:" + case["mode"])
        cpu[grp] = cpu.get(grp, 0.0) + r["cpu"]
        if r["status"] == "accepted":
            per_shape[case["shape"]] = per_shape.get(case["shape"], 0) + 1
            keys.add(r["key"])
            types_accepting.add(tkey(case["type"]))
            if r.get("nontrivial"):
                nontrivial.add(("t", r["key"]))
            if sampled < 5 and len(json.dumps(case)) > 90:
                ctx.sample(case)
                sampled += 1
        for ch, n in r["channels"].items():
            channels[ch] = channels.get(ch, 0) + n
        for sig, detail in r["devs"]:
            ctx.deviation(sig, case, detail)
    for k, v in sorted(status.items()):
        ctx.count("typed.cases_" + k, v)
    for k, v in sorted(per_shape.items()):
        ctx.count("typed.accepted.shape_" + k, v)
    for k, v in sorted(channels.items()):
        ctx.count("typed.roundtrips." + k, v)
    for k, v in sorted(spec_kinds.items()):
        ctx.count("typed.accepted.class_spec." + k, v)
    ctx.note("worker CPU seconds: typed layer " + ", ".join(f"{k} {v:.0f}" for k, v in sorted(cpu.items())) + f"; total {sum(cpu.values()):.0f}")
    ctx.count("typed.cases", len(cases))
    ctx.count("typed.distinct_accepted_configurations", len(keys))
    all_types = {tkey(c["type"]) for c in cases}
    ctx.count("typed.types", len(all_types))
    ctx.count("typed.types_with_an_accepted_value", len(types_accepting))
    shapes = sorted({c["shape"] for c in cases})
    guards = [
        (f"typed layer: every type of the grammar has an accepted value (without: {sorted(all_types - types_accepting)[:3]})", all_types == types_accepting),
        (f"typed layer: every parser of the space can be built (not buildable: {status.get('parser-not-buildable', 0)})", status.get("parser-not-buildable", 0) == 0),
        ("typed layer: accepted and rejected cases both occur", status.get("accepted", 0) > 1000 and status.get("rejected", 0) > 100),
        (f"typed layer: every parser shape has accepted cases ({sorted(set(shapes) - set(per_shape))})", set(shapes) == set(per_shape)),
        ("typed layer: every channel executed (dump, skip_default, skip_none, skip_validation, print_config at root and at subcommand level, save, save-default, save-multifile)",
         all(channels.get(c, 0) > 0 for c in ("dump", "dump-skip_default", "dump-skip_none", "dump-skip_validation", "print_config", "print_config-subcommand", "print_config-before-config-option", "save", "save-default", "save-multifile"))),
        ("typed layer: the subcommand without arguments and the subcommand alias were chosen and accepted", per_shape.get("sub_e", 0) >= 2 and per_shape.get("sub_alias", 0) >= 5),
        ("typed layer: the multi-file save with nulls kept ran on every parser shape, not only on those with a sub-config file",
         channels.get("save-multifile", 0) >= 0.9 * status.get("accepted", 0)),
        (f"typed layer: class specs with dict_kwargs and without init_args were accepted as argument value, list item and dict value ({sorted(spec_kinds)})",
         all(spec_kinds.get(f"{w}:no-init_args:dict_kwargs", 0) > 0 and spec_kinds.get(f"{w}:init_args:dict_kwargs", 0) > 0 and spec_kinds.get(f"{w}:None-init-arg", 0) > 0
             for w in ("value", "list-item", "dict-value"))),
    ]  # fmt: skip
    return {
        "rt": tot["rt"],
        "ops": tot["ops"],
        "states": len(keys),
        "guards": guards,
        "bounds": {
            "leaves": LEAVES,
            "G2_constructors_over_core": ["Optional", "List", "DictStr", "DictInt", "TupleVar", "Set", "Union(ordered pairs)", "Tuple2(pairs)"],
            "shapes": ["flat"] + SHAPES + ["sub_alias", "sub_e", "class"],
            "shape_types": SHAPE_TYPES,
            "modes": ["yaml", "json"],
            "class_positions": ["Base", "Optional[Base]", "List[Base]", "Dict[str, Base]", "Any holding a class spec"],
            "class_spec_forms": ["class name / path", "init_args", "dict_kwargs only (class with **kwargs and no named parameter)", "init_args + dict_kwargs",
                                 "Optional init arg with non-None default set to None", "nested class argument", "missing required init arg (rejected)"],
            "channels": ["dump x formats x skip_default", "dump default (skip_none)", "dump skip_validation (structured shapes; thorough: x formats)",
                         "--print_config[=skip_default|skip_null|comments|skip_default,skip_null] -> --cfg",
                         "--print_config placed before --cfg FILE and the other arguments (structured shapes)",
                         "--print_config at subcommand level, subcommand named canonically and by alias",
                         "save single-file x formats -> parse_path (quick: structured shapes)", "save default (configurations holding a None, file shapes)",
                         "save multifile with nulls kept on every shape (with sub-config file on the file shapes)"],
        },  # fmt: skip
    }
