"""C15 helpers: parser shapes carrying parse-links, rendering of one case into concrete inputs for every channel,
execution on the real library and the oracle.

A *case* (JSON) of the main space:

    {"k": "single", "shape": <name>, "o": {shape options}, "entry": "args"|"object"|"string"|"env"|"print",
     "src": {leaf: [channels]}, "cpos": "first"|"last"|"root", "one": {key: [[channel, Class], ...]},
     "many": {key: [channel, [Class, ...]]}, "tgt": <how the target itself is additionally supplied>}

Every channel writes a different value for a given source leaf (VAL), and every compute function of the fixture
module is injective on those values, so a target computed from anything but the final source values is visible.
"""
from __future__ import annotations

import copy
import json
import os

MOD = "mc.fixtures.c15.classes"
VAL = {"default": 1, "env": 2, "cfg": 3, "argv": 4, "obj": 5, "str": 6}
TGT = 99  # value supplied for the target itself; no compute function of the fixtures can produce it
HAS_K = {"Base": True, "Derived": True, "DefK": True, "NoK": False, "OptK": True}


def sval(i, ch):
    """The value channel `ch` writes for source leaf number `i`."""
    return VAL[ch] + 10 * i


def chtoken(tok):
    """A channel token of case["src"]: "argv" (the channel writes its value) or "argv:null" (it writes null).
    -> (channel, writes_null)"""
    ch, _, what = tok.partition(":")
    assert what in ("", "null"), tok
    return ch, what == "null"


def _funcs():
    from mc.fixtures.c15 import classes

    return classes


# ----------------------------------------------------------------------------------------------------
# shapes: each adds arguments and links to parser `p` and returns its description


def sh_plain(J, p, o):
    C = _funcs()
    skw = {"required": True} if o.get("sreq") else {"default": sval(0, "default")}
    p.add_argument("--s", type=int, **skw)
    tm = o.get("t", "req")
    if tm == "pos":
        p.add_argument("t", type=int)
    elif tm == "req":
        p.add_argument("--t", type=int, required=True)
    else:
        p.add_argument("--t", type=int, default=55)
    p.link_arguments("s", "t", C.FUNCS.get(o.get("fn")))
    return {
        "leaves": ["s"],
        "links": [{"src": ["s"], "fn": o.get("fn"), "tgt": "t", "kind": "plain"}],
        "topt": None if tm == "pos" else "--t",
        "tpos": tm == "pos",
        "tenv": "t",
    }


def sh_two(J, p, o):
    C = _funcs()
    p.add_argument("--s1", type=int, default=sval(0, "default"))
    p.add_argument("--s2", type=int, default=sval(1, "default"))
    p.add_argument("--t", type=int, required=True)
    p.link_arguments(("s1", "s2"), "t", C.f2)
    return {
        "leaves": ["s1", "s2"],
        "links": [{"src": ["s1", "s2"], "fn": "f2", "tgt": "t", "kind": "plain"}],
        "topt": "--t",
        "tenv": "t",
    }


def sh_grp(J, p, o):
    """Group-valued source `data` (class group) -> dict-typed / int-typed plain target, or dict-typed class-group
    parameter."""
    from typing import Dict

    C = _funcs()
    p.add_class_arguments(C.Data, "data")
    fn = o.get("fn")
    tm = o.get("t", "dict")
    if tm == "dict":
        p.add_argument("--t", type=Dict[str, int], required=True)
        tgt, group = "t", None
    elif tm == "int":
        p.add_argument("--t", type=int, required=True)
        tgt, group = "t", None
    else:  # "cgd": parameter d: Dict[str, int] of class group `model`
        p.add_class_arguments(C.ModelD, "model")
        tgt, group = "model.d", "model"
    p.link_arguments("data", tgt, C.FUNCS.get(fn))
    return {
        "leaves": ["data.n", "data.m"],
        "defaults": {"data.n": 3, "data.m": 4},
        "links": [{"src": ["data"], "fn": fn, "tgt": tgt, "kind": "plain", "conv": "dict" if fn is None else None}],
        "topt": "--" + tgt,
        "tenv": tgt,
        "group": group,
        "tdict": tm != "int",
    }


def sh_cgroup(J, p, o):
    """Target inside a class group: data.n (and data.m) -> model.k (required parameter)."""
    C = _funcs()
    p.add_class_arguments(C.Data, "data")
    p.add_class_arguments(C.Model, "model", **({"sub_configs": True} if o.get("subcfg") else {}))
    fn = o.get("fn")
    src = ["data.n", "data.m"] if fn == "f2" else ["data.n"]
    p.link_arguments(tuple(src) if len(src) > 1 else src[0], "model.k", C.FUNCS.get(fn))
    return {
        "leaves": ["data.n", "data.m"],
        "defaults": {"data.n": 3, "data.m": 4},
        "links": [{"src": src, "fn": fn, "tgt": "model.k", "kind": "plain"}],
        "topt": "--model.k",
        "tenv": "model.k",
        "group": "model",
    }


def sh_init(J, p, o):
    """Target x.init_args.k of a class-typed argument."""
    C = _funcs()
    p.add_argument("--s", type=int, default=sval(0, "default"))
    decl = o.get("decl", "arg")
    if decl == "arg":
        p.add_argument("--x", type=C.Base, **({"enable_path": True} if o.get("subcfg") else {}))
    elif decl == "sub":
        p.add_subclass_arguments(C.Base, "x", required=False)
    else:  # "lazy": the class comes from the default
        p.add_argument("--x", type=C.Base, default=J.lazy_instance(C.DefK, other=1))
    p.link_arguments("s", "x.init_args.k", C.FUNCS.get(o.get("fn")))
    return {
        "leaves": ["s"],
        "links": [{"src": ["s"], "fn": o.get("fn"), "tgt": "x.init_args.k", "kind": "init", "carg": "x"}],
        "one": {"x": "DefK" if decl == "lazy" else None},
    }


def sh_list(J, p, o):
    """Target inside every item of a List[class] argument."""
    from typing import List, Optional

    C = _funcs()
    p.add_argument("--s", type=int, default=sval(0, "default"))
    p.add_argument("--xs", type=Optional[List[C.Base]] if o.get("decl") == "opt" else List[C.Base])
    p.link_arguments("s", "xs.init_args.k", C.FUNCS.get(o.get("fn")))
    return {
        "leaves": ["s"],
        "links": [{"src": ["s"], "fn": o.get("fn"), "tgt": "xs.init_args.k", "kind": "list", "carg": "xs"}],
        "many": ["xs"],
    }


def sh_holder(J, p, o):
    """Class group with a class-typed and a list-of-classes parameter, both fed from a parameter of the same
    group (the documentation's Trainer/Logger example)."""
    C = _funcs()
    p.add_class_arguments(C.Holder, "h")
    p.link_arguments("h.save", "h.one.init_args.k")
    p.link_arguments("h.save", "h.many.init_args.k", C.f1)
    return {
        "leaves": ["h.save"],
        "defaults": {"h.save": 1},
        "links": [
            {"src": ["h.save"], "fn": None, "tgt": "h.one.init_args.k", "kind": "init", "carg": "h.one"},
            {"src": ["h.save"], "fn": "f1", "tgt": "h.many.init_args.k", "kind": "list", "carg": "h.many"},
        ],
        "one": {"h.one": None},
        "many": ["h.many"],
    }


# Plain / class-group targets whose option has MORE THAN ONE SPELLING on the command line: explicit aliases
# (-t / --t / --target, and argparse's unique abbreviations of a long alias), the automatic append option of a
# list-typed argument (--t+), the negated form of a yes/no flag (--no_t).  Per kind: the option strings the target
# action is expected to own (checked at run time against the real action, so a spelling the library adds later is
# noticed), the tokens for the value supplied for the target, and every way of writing it:
# (spelling class, argv tokens).  The canonical "--<dest>=<value>" form is the `option` / `option_first` supply of
# every plain shape and is not repeated here.  Spelling classes: canonical (the --<dest> string, other token form),
# alias, abbrev, append, negation.
SPELL = {
    "alias": {
        "ostr": ["-t", "--t", "--target"], "enc": "int",
        "forms": [("canonical", ["--t", "99"]),
                  ("alias", ["-t", "99"]), ("alias", ["-t=99"]), ("alias", ["-t99"]),
                  ("alias", ["--target=99"]), ("alias", ["--target", "99"]),
                  ("abbrev", ["--ta=99"]), ("abbrev", ["--tar=99"]), ("abbrev", ["--targ=99"]),
                  ("abbrev", ["--targe=99"]), ("abbrev", ["--targ", "99"])],
    },
    "list": {
        "ostr": ["--t", "--t+"], "enc": "list",
        "forms": [("canonical", ["--t", "[99]"]),
                  ("append", ["--t+=99"]), ("append", ["--t+", "99"]), ("append", ["--t+=[99]"])],
    },
    "optlist": {
        "ostr": ["--t", "--t+"], "enc": "list",
        "forms": [("canonical", ["--t=null"]),
                  ("append", ["--t+=99"]), ("append", ["--t+", "99"]), ("append", ["--t+=[99]"])],
    },
    "yesno": {
        "ostr": ["--t", "--no_t"], "enc": "bool",
        "forms": [("canonical", ["--t"]), ("canonical", ["--t=false"]), ("negation", ["--no_t"])],
    },
    "cglist": {
        "ostr": ["--model.k", "--model.k+"], "enc": "list",
        "forms": [("canonical", ["--model.k", "[99]"]),
                  ("append", ["--model.k+=99"]), ("append", ["--model.k+", "99"]), ("append", ["--model.k+=[99]"])],
    },
}
ENC = {"int": lambda v: v, "list": lambda v: [v], "bool": lambda v: v % 2 == 0,
       "spec": lambda v: {"class_path": f"{MOD}.Base", "init_args": {"k": v}}}


def ident(info, v):
    """The channel-identifying part of the final value of a source leaf (whole-class sources: the k inside)."""
    if info.get("enc") == "spec" and isinstance(v, dict):
        return lookup(v, ["init_args", "k"])
    return v


def sh_spell(J, p, o):
    """s -> t where the option of the (plain or class-group) target t has several spellings."""
    from typing import List, Optional

    C = _funcs()
    kind = o["tk"]
    table = SPELL[kind]
    enc = ENC[table["enc"]]
    fn = o.get("fn")
    src, tgt, group = "s", "t", None
    defaults = {"s": enc(sval(0, "default"))}
    if kind == "alias":
        p.add_argument("--s", type=int, default=defaults["s"])
        p.add_argument("-t", "--t", "--target", type=int, required=True)
    elif kind == "list":
        p.add_argument("--s", type=List[int], default=defaults["s"])
        p.add_argument("--t", type=List[int], required=True)
    elif kind == "optlist":
        p.add_argument("--s", type=Optional[List[int]], default=defaults["s"])
        p.add_argument("--t", type=Optional[List[int]], default=None)
    elif kind == "yesno":
        p.add_argument("--s", action=J.ActionYesNo, default=defaults["s"])
        p.add_argument("--t", action=J.ActionYesNo, default=True)
    else:  # "cglist": list-typed parameters of class groups
        p.add_class_arguments(C.DataL, "data")
        p.add_class_arguments(C.ModelL, "model")
        src, tgt, group = "data.n", "model.k", "model"
        defaults = {"data.n": [3]}
    # the option strings the target owns before it is linked (the link action must take over every one of them)
    owned = [a.option_strings for a in p._actions if a.dest == tgt]
    p.link_arguments(src, tgt, C.FUNCS.get(fn))
    return {
        "leaves": [src],
        "defaults": defaults,
        "links": [{"src": [src], "fn": fn, "tgt": tgt, "kind": "plain"}],
        "topt": "--" + tgt,
        "tenv": tgt,
        "group": group,
        "enc": table["enc"],
        "tval": True if kind == "yesno" else enc(TGT),
        "spell": kind,
        "owned": sorted(owned[0]) if len(owned) == 1 else owned,
    }


# Sources whose type admits None (family `null`): the final value of a source may be None - left at a None default
# or set (back) to null by any channel - and None is a value like any other: the target must be f(None) (None itself
# without compute function), not skipped, not kept.  Kinds: `plain` (Optional[int] argument), `cls` (the whole of an
# Optional[class] argument as source), `clsinit` (an Optional[int] parameter below a class-typed argument),
# `c2i` (such a parameter -> Optional parameter k of another class-typed argument).
NULL_LEAF = {"plain": "s", "cls": "y", "clsinit": "y.init_args.lim", "c2i": "y.init_args.lim"}


def sh_null(J, p, o):
    from typing import Optional

    C = _funcs()
    kind, fn, dn = o["nk"], o.get("fn"), bool(o.get("dn"))
    leaf = NULL_LEAF[kind]
    dflt = None if dn else sval(0, "default")
    info = {"leaves": [leaf], "defaults": {leaf: dflt}, "nullable": True, "nk": kind, "enc": "int"}
    if kind == "plain":
        p.add_argument("--s", type=Optional[int], default=dflt)
    elif kind == "cls":
        p.add_argument("--y", type=Optional[C.Base], default=None if dn else J.lazy_instance(C.Base, k=dflt))
        info["enc"] = "spec"
    else:
        cls = C.SrcN if dn else C.SrcV
        p.add_argument("--y", type=cls, default=J.lazy_instance(cls))
        # no environment variable reaches below a class argument: the environment supplies the whole class spec
        info["leafenv"] = {leaf: ("y", cls.__name__, "lim")}
    if kind == "c2i":
        p.add_argument("--x", type=C.Base, default=J.lazy_instance(C.OptK))
        p.link_arguments(leaf, "x.init_args.k", C.FUNCS.get(fn))
        info["links"] = [{"src": [leaf], "fn": fn, "tgt": "x.init_args.k", "kind": "init", "carg": "x"}]
        info["one"] = {"x": "OptK"}
        return info
    if kind == "cls":
        p.add_argument("--t", type=int, required=True)
    else:
        p.add_argument("--t", type=Optional[int], default=55)
    p.link_arguments(leaf, "t", C.FUNCS.get(fn))
    info["links"] = [{"src": [leaf], "fn": fn, "tgt": "t", "kind": "plain"}]
    info.update(topt="--t", tenv="t")
    return info


# Links with SEVERAL sources of which one or more are group-valued (family `mix`): which of the sources is a group,
# at which position, and whether the corresponding compute_fn parameter is annotated as a mapping (-> the function
# must be handed a plain dict) or not.  Kinds per source: S (int argument), Gd (class group, parameter annotated
# dict / Dict / Mapping), Gn (class group, parameter not annotated).  The fixture functions make the kind of object
# they were handed visible in their result for the Gd parameters (see classes._gd).
def sh_mix(J, p, o):
    C = _funcs()
    kinds = o["sk"].split("-")
    srcs, leaves, defaults = [], [], {}
    ns = ng = 0
    for kd in kinds:
        if kd == "S":
            ns += 1
            name = "s" if ns == 1 else f"s{ns}"
            p.add_argument("--" + name, type=int, default=sval(len(leaves), "default"))
            leaves.append(name)
        else:
            ng += 1
            name = "data" if ng == 1 else f"data{ng}"
            p.add_class_arguments(C.Data, name)
            leaves.append(name + ".n")  # member m stays at its default
            defaults[name + ".n"] = 3
        srcs.append(name)
    p.add_argument("--t", type=int, required=True)
    fn = "mix_" + "_".join(kd.lower() for kd in kinds)
    p.link_arguments(tuple(srcs), "t", C.FUNCS[fn])
    return {
        "leaves": leaves,
        "defaults": defaults,
        "links": [{"src": srcs, "fn": fn, "tgt": "t", "kind": "plain"}],
        "topt": "--t",
        "tenv": "t",
    }


SHAPES = {"mix": sh_mix, "null": sh_null, "plain": sh_plain, "two": sh_two, "grp": sh_grp, "cgroup": sh_cgroup, "init": sh_init, "list": sh_list,
          "holder": sh_holder, "spell": sh_spell}


def new_parser(J):
    return J.ArgumentParser(exit_on_error=False, default_env=True, env_prefix="APP")


def build(J, shape, o, late=None, warm=None):
    """Fresh parser(s) for one shape.  Returns (root parser, info); info["prefix"] = subcommand path of the shape.

    History axis: with `late` = k only the first k links of the shape are declared while the parser is built; then
    the finished (root) parser is USED - `warm(root, info)` runs a parse on it - and only then are the remaining
    links declared, in their usual order, on the parser that has already parsed."""
    wrap = o.get("wrap")
    leaf = new_parser(J)
    leaf.add_argument("--config", action="config")
    deferred, seen = [], [0]
    if late is not None:
        declare = leaf.link_arguments

        def recorder(*a, **kw):
            seen[0] += 1
            if seen[0] <= late:
                return declare(*a, **kw)
            deferred.append((a, kw))

        leaf.link_arguments = recorder
    info = SHAPES[shape](J, leaf, o)
    if late is not None:
        del leaf.link_arguments
    info.setdefault("group", None)
    info.setdefault("one", {})
    info.setdefault("many", [])
    if not wrap:
        info["prefix"] = []
        root = leaf
    else:
        other = new_parser(J)
        other.add_argument("--o", type=int, default=2)
        root = new_parser(J)
        root.add_argument("--config", action="config")
        root.add_argument("--top", type=int, default=0)
        sc = root.add_subcommands()
        if wrap == "sub":
            sc.add_subcommand("cmd", leaf)
            sc.add_subcommand("oth", other)
            info["prefix"] = ["cmd"]
        else:  # "subsub": two levels, built level by level
            mid = new_parser(J)
            mid.add_argument("--mid", type=int, default=0)
            sc.add_subcommand("cmd", mid)
            sc = mid.add_subcommands()
            sc.add_subcommand("run", leaf)
            sc.add_subcommand("oth", other)
            info["prefix"] = ["cmd", "run"]
    if late is not None:
        info["links_declared_late"] = len(deferred)
        if warm is not None:
            warm(root, info)
        for a, kw in deferred:
            leaf.link_arguments(*a, **kw)
    return root, info


# ----------------------------------------------------------------------------------------------------
# rendering one case into inputs


def set_nested(d, dotted, v):
    parts = dotted.split(".")
    for part in parts[:-1]:
        d = d.setdefault(part, {})
    d[parts[-1]] = v


def env_name(prefix, key):
    return "APP_" + "__".join(prefix + key.split(".")).upper()


def spec(name, with_k):
    s = {"class_path": f"{MOD}.{name}"}
    if with_k and HAS_K[name]:
        s["init_args"] = {"k": TGT}
    return s


def write_input(info, fname, content):
    os.makedirs(info["indir"], exist_ok=True)
    with open(os.path.join(info["indir"], fname), "w") as f:
        json.dump(content, f)


def render(info, case):
    """-> {"argv": [...], "env": {...}, "doc": nested dict for parse_object / parse_string (or None)}"""
    prefix = info["prefix"]
    entry, tgt = case["entry"], case.get("tgt", "none")
    envsel = entry.endswith("-envsel")  # the subcommand is selected through the environment, not named in the input
    entry = entry.split("-")[0]
    tval = info.get("tval", {"z": TGT} if info.get("tdict") else TGT)
    enc = ENC[info.get("enc", "int")]
    env, cfgd, doc, items, early = {}, {}, {}, [], []
    cfg_as_file = False
    doc_ch = "obj" if entry == "object" else "str"
    # a class group (sub_configs=True) given as a path to its own config file
    for group, ch in case.get("gfile", {}).items():
        fname = f"{group.replace('.', '_')}_{ch[0]}.json"
        content = {"free": 8}
        if tgt == "gfile":
            content[[l for l in info["links"] if l["tgt"].startswith(group + ".")][0]["tgt"][len(group) + 1:]] = TGT
        write_input(info, fname, content)
        if ch == "argvfile":
            early.append(f"--{group}={os.path.join(info['indir'], fname)}")
        elif ch == "envfile":
            env[env_name(prefix, group)] = os.path.join(info["indir"], fname)
        else:
            set_nested(cfgd, group, fname)
            cfg_as_file = True
    for i, leaf in enumerate(info["leaves"]):
        for tok in case["src"].get(leaf, ()):
            ch, null = chtoken(tok)
            v = None if null else enc(sval(i, ch))
            if ch == "env" and leaf in info.get("leafenv", {}):
                carg, cls, param = info["leafenv"][leaf]
                env[env_name(prefix, carg)] = json.dumps({"class_path": f"{MOD}.{cls}", "init_args": {param: v}})
            elif ch == "env":
                env[env_name(prefix, leaf)] = json.dumps(v)
            elif ch == "cfg":
                set_nested(cfgd, leaf, v)
            elif ch == "argv":
                if info.get("enc") == "bool":  # yes/no flags take no explicit value: --s / --no_s
                    items.append(f"--{leaf}" if v else f"--no_{leaf}")
                else:
                    items.append(f"--{leaf}={json.dumps(v)}")
            elif ch in ("obj", "str"):
                assert ch == doc_ch, (ch, entry)
                set_nested(doc, leaf, v)
            else:
                raise AssertionError(ch)
    # class-typed arguments: one class (possibly changed along the way) ...
    for key, steps in case.get("one", {}).items():
        argv_steps = [n for n, (ch, _) in enumerate(steps) if ch == "argv"]
        for n, (ch, name) in enumerate(steps):
            if ch.endswith("file"):
                # the class argument is given as a path to its own config file (its value then carries __path__
                # and a multi-file save() writes it to a file of its own)
                fname = f"{key.replace('.', '_')}_{ch[0]}.json"
                write_input(info, fname, spec(name, tgt == "spec"))
                if ch == "argvfile":
                    items.append(f"--{key}={os.path.join(info['indir'], fname)}")
                elif ch == "envfile":
                    env[env_name(prefix, key)] = os.path.join(info["indir"], fname)
                else:  # named, relative to it, inside a config that is itself a file
                    set_nested(cfgd, key, fname)
                    cfg_as_file = True
            elif ch == "argv":
                if tgt == "spec" and n == argv_steps[-1]:
                    items.append(f"--{key}={json.dumps(spec(name, True))}")
                else:
                    items.append(f"--{key}={name}")
                if (tgt == "option_early" and n == argv_steps[0]) or (tgt == "option" and n == argv_steps[-1]):
                    items.append(f"--{key}.k={TGT}")
                if tgt == "option_init" and n == argv_steps[-1]:
                    items.append(f"--{key}.init_args.k={TGT}")
            elif ch == "cfg":
                set_nested(cfgd, key, spec(name, tgt == "cfg"))
            elif ch == "env":
                env[env_name(prefix, key)] = json.dumps(spec(name, True)) if tgt == "spec_env" else name
            elif ch in ("obj", "str"):
                set_nested(doc, key, spec(name, tgt in ("obj", "str")))
        if not steps and tgt in ("option", "option_init"):  # class from the default
            items.append(f"--{key}.k={TGT}" if tgt == "option" else f"--{key}.init_args.k={TGT}")
    # ... and lists of classes
    for key, (ch, names) in case.get("many", {}).items():
        with_k = tgt in ("spec", "cfg", "obj", "str", "spec_env")
        as_specs = [spec(n, True) for n in names] if with_k else None
        if ch == "argv":
            items.append(f"--{key}={json.dumps(as_specs if with_k else names)}")
        elif ch == "argv+":
            for n, name in enumerate(names):
                items.append(f"--{key}+={json.dumps(as_specs[n]) if with_k else name}")
                if tgt == "option" and HAS_K[name]:
                    items.append(f"--{key}.k={TGT}")
        elif ch == "cfg":
            set_nested(cfgd, key, as_specs if with_k else [spec(n, False) for n in names])
        elif ch == "env":
            env[env_name(prefix, key)] = json.dumps(as_specs if with_k else names)
        elif ch in ("obj", "str"):
            set_nested(doc, key, as_specs if with_k else [spec(n, False) for n in names])
    # the target itself (plain / group targets; class targets are handled with their class argument above)
    plain = [l for l in info["links"] if l["kind"] == "plain"]
    if plain:
        t = plain[0]["tgt"]
        if tgt == "option":
            if info.get("tpos"):
                items.append(str(TGT))
            else:
                items.append(f"{info['topt']}={json.dumps(tval)}")
        elif tgt == "option_first":
            early.append(f"{info['topt']}={json.dumps(tval)}")
        elif tgt == "spelled":
            # the target's option in one of its other spellings (see SPELL), after / before the source options
            tokens = list(SPELL[info["spell"]]["forms"][case["sp"]][1])
            if case.get("spos") == "first":
                early += tokens
            else:
                items += tokens
        elif tgt == "cfg":
            set_nested(cfgd, t, tval)
        elif tgt == "env":
            env[env_name(prefix, info["tenv"])] = json.dumps(tval)
        elif tgt == "group":
            early.append(f"--{info['group']}={json.dumps({t.split('.', 1)[1]: tval})}")
        elif tgt == "group_env":
            env[env_name(prefix, info["group"])] = json.dumps({t.split(".", 1)[1]: tval})
        elif tgt in ("obj", "str"):
            set_nested(doc, t, tval)
        elif tgt == "obj_dotted":
            doc[t] = tval
    items = early + items
    argv = None
    if entry in ("args", "print"):
        root_items = []
        if cfgd and cfg_as_file:
            write_input(info, "main.json", cfgd)
            items = ["--config=" + os.path.join(info["indir"], "main.json")] + items
        elif cfgd:
            cpos = case.get("cpos", "first")
            if cpos == "root":
                nested = cfgd
                for name in reversed(prefix):
                    nested = {name: nested}
                root_items.append("--config=" + json.dumps(nested))
            elif cpos == "first":
                items = ["--config=" + json.dumps(cfgd)] + items
            else:
                items = items + ["--config=" + json.dumps(cfgd)]
        if entry == "print":
            # last on its level: a --print_config placed before a --config option prints from inside the loading
            # of that config (partial output) - real, but a matter of C01/C04, not of the links
            if prefix:
                root_items.append("--print_config")
            else:
                items = items + ["--print_config"]
        if envsel:
            assert not items and prefix, (items, prefix)
            for n, name in enumerate(prefix):
                env[env_name(prefix[:n], "subcommand")] = name
            return {"argv": root_items, "env": env, "doc": None}
        argv = root_items + prefix + items
        return {"argv": argv, "env": env, "doc": None}
    if entry == "env" or envsel:
        for n, name in enumerate(prefix):
            env[env_name(prefix[:n], "subcommand")] = name
    if entry == "env":
        return {"argv": None, "env": env, "doc": None}
    # object / string: nested under the subcommand path, subcommands selected explicitly (envsel: by the environment)
    nested = doc
    for n in range(len(prefix) - 1, -1, -1):
        nested = {prefix[n]: nested} if envsel else {"subcommand": prefix[n], prefix[n]: nested}
    return {"argv": None, "env": env, "doc": nested}


# ----------------------------------------------------------------------------------------------------
# observation helpers


def plainify(v, Namespace):
    """Namespace -> dict at every level (independent of Namespace.as_dict)."""
    if isinstance(v, Namespace):
        return {k: plainify(x, Namespace) for k, x in vars(v).items()}
    if isinstance(v, dict):
        return {k: plainify(x, Namespace) for k, x in v.items()}
    if isinstance(v, list):
        return [plainify(x, Namespace) for x in v]
    return v


def drop_config(d):
    """Remove the bookkeeping of the config option ('config' keys) from a plain nested dict."""
    if isinstance(d, dict):
        return {k: drop_config(x) for k, x in d.items() if k != "config"}
    if isinstance(d, list):
        return [drop_config(x) for x in d]
    return d


def lookup(d, path):
    """Value at a list of keys in a nested dict, or the marker ABSENT."""
    for key in path:
        if not isinstance(d, dict) or key not in d:
            return ABSENT
        d = d[key]
    return d


class _Absent:
    def __repr__(self):
        return "<absent>"


ABSENT = _Absent()


def target_values(tree, prefix, link):
    """All places where the target of `link` lives in the plain nested dict `tree` -> list of (where, value).

    kind plain: one place; init: below the class argument when a class is configured; list: one per item."""
    if link["kind"] == "plain":
        return [(link["tgt"], lookup(tree, prefix + link["tgt"].split(".")))]
    carg = lookup(tree, prefix + link["carg"].split("."))
    sub = link["tgt"][len(link["carg"]) + 1 :].split(".")
    if link["kind"] == "init":
        if not isinstance(carg, dict):
            return []
        return [(link["tgt"], lookup(carg, sub))]
    if not isinstance(carg, list):
        return []
    return [(f"{link['carg']}[{n}].{'.'.join(sub)}", lookup(item, sub)) for n, item in enumerate(carg)]


def class_of(item):
    return item.get("class_path", "").rsplit(".", 1)[-1] if isinstance(item, dict) else None


def expected_value(tree, prefix, link):
    """f(final source values) by the reference model: the fixture function applied to what the final
    configuration holds at the source keys (a group-valued source is the plain dict of its members)."""
    C = _funcs()
    args = [lookup(tree, prefix + s.split(".")) for s in link["src"]]
    if any(a is ABSENT for a in args):
        return ABSENT
    args = copy.deepcopy(args)
    if link["fn"] is None:
        return args[0]
    try:
        return C.FUNCS[link["fn"]](*args)
    except (KeyError, TypeError):
        # a group-valued / class-valued source that lacks a member in the final configuration (the target of another
        # link that was not applied): reported as an absent source
        return ABSENT


def sig(oracle, info, link=None, extra=None):
    parts = [oracle]
    if link is not None:
        parts.append(link["kind"])
    if info["prefix"]:
        parts.append("sub")
    if extra:
        parts.append(extra)
    if info.get("sigtag"):
        parts.append(info["sigtag"])  # family of the case: links with mixed sources / a parser that had been used
    return ":".join(parts)


def apply_env(env):
    for k in [k for k in os.environ if k.startswith("APP_")]:
        del os.environ[k]
    os.environ.update(env)


def do_parse(J, parser, entry, inp):
    from mc.util import outcome

    entry = entry.split("-")[0]

    if entry in ("args", "print"):
        return outcome(parser.parse_args, list(inp["argv"]))
    if entry == "object":
        return outcome(parser.parse_object, copy.deepcopy(inp["doc"]))
    if entry == "string":
        return outcome(parser.parse_string, json.dumps(inp["doc"]))
    if entry == "env":
        return outcome(parser.parse_env)
    raise AssertionError(entry)


def check_config(J, parser, make_parser, info, cfg, devs, obs, serial=("yaml", "json"), tag=None, reparse=None):
    """The oracle on one successfully parsed configuration: invariant, dump without targets, re-parse."""
    import yaml

    from mc.util import outcome, tcanon

    prefix = info["prefix"]
    tree = plainify(J.strip_meta(cfg), J.Namespace)
    judged = 0
    for link in info["links"]:
        want = expected_value(tree, prefix, link)
        places = target_values(tree, prefix, link)
        # the final value of a source is None (sources whose type admits it): named in the signature
        nullsrc = "null-source" if any(lookup(tree, prefix + s.split(".")) is None for s in link["src"]) else None
        if link["kind"] == "list":
            carg = lookup(tree, prefix + link["carg"].split("."))
            classes = [class_of(i) for i in carg] if isinstance(carg, list) else []
        elif link["kind"] == "init":
            carg = lookup(tree, prefix + link["carg"].split("."))
            classes = [class_of(carg)] if isinstance(carg, dict) else []
        else:
            classes = [None]
        for (where, got), cls in zip(places, classes):
            if cls is not None and not HAS_K.get(cls, True):
                # the class does not define the parameter: documented as "the link is ignored"
                if got is not ABSENT:
                    devs.append((sig("target-on-class-without-parameter", info, link, tag), f"{where} = {got!r}"))
                obs["ignored"] = obs.get("ignored", 0) + 1
                continue
            judged += 1
            if want is ABSENT and any(".init_args." in s for s in link["src"]):
                # a source below a class argument that is not configured (or whose class lacks the parameter):
                # the implementation skips the link; the statement says nothing about a target without sources
                obs["source_in_unconfigured_class"] = obs.get("source_in_unconfigured_class", 0) + 1
                judged -= 1
            elif want is ABSENT:
                devs.append((sig("source-absent-after-parse", info, link, tag), f"sources {link['src']} not all in {tree!r}"))
            elif got is ABSENT:
                devs.append((sig("target-absent", info, link, nullsrc or tag), f"{where} missing; expected {want!r}; cfg {tree!r}"))
            elif tcanon(got) != tcanon(want):
                kept = nullsrc or ("supplied-value-kept" if got in (TGT, {"z": TGT}, [TGT]) else tag)
                devs.append(
                    (sig("target-wrong", info, link, kept), f"{where} = {got!r}, f(final sources) = {want!r}; cfg {tree!r}")
                )
    obs["judged"] = obs.get("judged", 0) + judged
    ref = drop_config(tree)
    # Family `null`: dump() leaves out None-valued entries by default (documented skip_none=True).  Such a dump is
    # lossy on its own account, links or no links - a None that overrides a non-None default is gone, and a
    # subcommand whose values are all None dumps as "cmd: {}", which parse_string does not even accept - that is the
    # dump option's business (C01), not the links'.  The default dumps are therefore only inspected there (no target
    # key), and the faithful dump (skip_none=False, format token "yaml+nulls") is the one that is re-parsed.
    for fmt in serial:
        kwargs = {"format": fmt}
        if fmt == "yaml+nulls":
            kwargs = {"format": "yaml", "skip_none": False}
        if fmt == "yaml+skip_default":
            # only "no target key" is judged here: skip_default fails on every parser with subcommands and is lossy
            # for class-typed values - both are findings of C01 (dump-skip_default:*), not of the links
            if prefix:
                continue
            kwargs = {"format": "yaml", "skip_default": True}
        if fmt == "save" and info.get("outdir"):
            check_saved(J, parser, make_parser, info, cfg, ref, devs, obs)
            continue
        if fmt == "save":
            # multi-file save strips the targets on its own path (cfg.clone() + strip) before validating
            from mc.util import scratch_dir

            kwargs = {"save": True}
            with scratch_dir() as tmp:
                path = os.path.join(tmp, "saved.yaml")
                d = outcome(parser.save, cfg.clone(), path)
                if d["kind"] == "ok":
                    with open(path) as f:
                        d["value"] = f.read()
        else:
            d = outcome(parser.dump, cfg.clone(), **kwargs)
        if d["kind"] != "ok":
            devs.append((sig("dump-fails", info, None, tag), f"dump({kwargs}) -> {_short(d)}; cfg {tree!r}"))
            continue
        text = d["value"]
        try:
            loaded = yaml.safe_load(text)
        except Exception as ex:  # not this property's business (C01), but nothing further can be judged
            devs.append((sig("dump-unreadable", info, None, tag), f"{ex!r}"))
            continue
        for link in info["links"]:
            present = [(w, v) for w, v in target_values(loaded or {}, prefix, link) if v is not ABSENT]
            if present:
                devs.append((sig("target-in-dump", info, link, tag), f"dump({kwargs}) contains {present!r}: {text!r}"))
        obs["dumps"] = obs.get("dumps", 0) + 1
        if (reparse is not None and fmt not in reparse) or fmt == "yaml+skip_default":
            continue
        saved = dict(os.environ)
        try:
            apply_env({})
            r = outcome(make_parser()[0].parse_string, text)
        finally:
            os.environ.clear()
            os.environ.update(saved)
        if r["kind"] != "ok":
            devs.append((sig("reparse-fails", info, None, tag), f"parse_string(dump({kwargs})) -> {_short(r)}; text {text!r}"))
            continue
        again = drop_config(plainify(J.strip_meta(r["value"]), J.Namespace))
        if tcanon(again) != tcanon(ref):
            devs.append((sig("reparse-differs", info, None, tag), f"dump({kwargs}) {text!r} re-parses to {again!r}, was {ref!r}"))
        obs["reparsed"] = obs.get("reparsed", 0) + 1


def resolve_files(tree, outdir, used):
    """A saved document with every value that names another written file replaced by that file's content."""
    import yaml

    if isinstance(tree, dict):
        return {k: resolve_files(v, outdir, used) for k, v in tree.items()}
    if isinstance(tree, list):
        return [resolve_files(v, outdir, used) for v in tree]
    if isinstance(tree, str) and tree.endswith((".json", ".yaml")) and os.path.isfile(os.path.join(outdir, tree)):
        used.add(tree)
        with open(os.path.join(outdir, tree)) as f:
            return resolve_files(yaml.safe_load(f.read()), outdir, used)
    return tree


def check_saved(J, parser, make_parser, info, cfg, ref, devs, obs):
    """Multi-file save(): values that came from a file of their own (__path__) are written to separate files.  No
    written file may contain a target; parse_path of the main file on a fresh parser reconstructs the configuration."""
    import shutil

    import yaml

    from mc.util import outcome, tcanon

    outdir = info["outdir"]
    shutil.rmtree(outdir, ignore_errors=True)
    os.makedirs(outdir)
    main = os.path.join(outdir, "saved.yaml")
    d = outcome(parser.save, cfg.clone(), main)
    if d["kind"] != "ok":
        devs.append((sig("dump-fails", info, None, "save"), f"save() -> {_short(d)}; cfg {cfg!r}"))
        return
    written = sorted(os.listdir(outdir))
    texts = {}
    for name in written:
        with open(os.path.join(outdir, name)) as f:
            texts[name] = f.read()
    used = set()
    try:
        loaded = resolve_files(yaml.safe_load(texts["saved.yaml"]) or {}, outdir, used)
    except Exception as ex:
        devs.append((sig("dump-unreadable", info, None, "save"), f"{ex!r}; {texts!r}"))
        return
    obs["dumps"] = obs.get("dumps", 0) + 1
    obs["saved_subfiles"] = obs.get("saved_subfiles", 0) + len(used)
    if set(written) != used | {"saved.yaml"}:
        devs.append((sig("save-writes-unreferenced-file", info), f"{texts!r}"))
    for link in info["links"]:
        present = [(w, v) for w, v in target_values(loaded, info["prefix"], link) if v is not ABSENT]
        if present:
            devs.append((sig("target-in-dump", info, link, "save"), f"saved files contain {present!r}: {texts!r}"))
    saved = dict(os.environ)
    try:
        apply_env({})
        r = outcome(make_parser()[0].parse_path, main)
    finally:
        os.environ.clear()
        os.environ.update(saved)
    if r["kind"] != "ok":
        devs.append((sig("reparse-fails", info, None, "save"), f"parse_path(saved) -> {_short(r)}; files {texts!r}"))
        return
    again = drop_config(plainify(J.strip_meta(r["value"]), J.Namespace))
    if tcanon(again) != tcanon(ref):
        devs.append((sig("reparse-differs", info, None, "save"), f"saved {texts!r} re-parses to {again!r}, was {ref!r}"))
    obs["reparsed"] = obs.get("reparsed", 0) + 1


def _short(o):
    if o["kind"] == "ArgumentError":
        return "ArgumentError: " + o["message"][:300]
    if o["kind"] == "escape":
        return f"{o['type']}: {o['message'][:300]}"
    if o["kind"] == "exit":
        return f"exit {o['code']}: {o.get('stderr', '')[-300:]}"
    return o["kind"]


def expectation(info, case):
    """What the statement fixes about acceptance: "reject" / "accept" / "open" (not judged)."""
    tgt = case.get("tgt", "none")
    plain = any(l["kind"] == "plain" for l in info["links"])
    if plain and tgt in ("option", "option_first", "spelled"):
        return "reject"  # the command-line option of a plain-argument target is rejected
    if case["o"].get("fn") == "fbad":
        return "reject"  # compute_fn result not compatible with the target type (links are applied before validation)
    if case["o"].get("sreq") and not case["src"].get("s"):
        return "open"  # a required source nobody supplied: failing is right, and not this property's business
    return "accept"


def tgt_is_spelled(case):
    return case.get("tgt") == "spelled"


def run_single(case):
    """Execute one case of the main space on the real code; returns (devs, obs)."""
    import jsonargparse as J

    from mc.util import restored_process_state, tcanon

    devs, obs = [], {}
    shape, o = case["shape"], case["o"]

    def make_parser():
        return build(J, shape, o)

    hist = case.get("hist")

    def warm(root, winfo):
        # the same call as the case's (without a value for the target), made earlier on the same parser; its
        # outcome is not judged (a parser on which a target is still a required plain argument rejects it)
        winp = render(winfo, dict(case, tgt="none"))
        apply_env(winp["env"])
        w = do_parse(J, root, case["entry"], winp)
        obs["warmup"] = w["kind"]

    import contextlib

    from mc.util import scratch_dir

    with restored_process_state(), (scratch_dir() if case.get("files") else contextlib.nullcontext()) as tmp:
        if tmp:
            dirs = {"indir": os.path.join(tmp, "in"), "outdir": os.path.join(tmp, "out")}
            plain_build = build

            def make_parser():  # noqa: F811 - same parsers, told where the input / output files of the case live
                pr, i = plain_build(J, shape, o)
                i.update(dirs)
                return pr, i

        if hist and hist.startswith("late"):
            parser, info = build(J, shape, o, late=int(hist[4:]), warm=warm)
            if not info["links_declared_late"]:
                devs.append((sig("harness:no-link-left-to-declare-late", info), f"{hist} on {shape} {o}"))
        else:
            parser, info = make_parser()
            if hist == "warm":
                warm(parser, info)
        if hist:
            info["sigtag"] = "used-parser"
            obs["hist"] = hist
        elif shape == "mix":
            info["sigtag"] = "mixed-sources"
        inp = render(info, case)
        entry = case["entry"]
        apply_env(inp["env"])
        if "spell" in info:
            # guard on the spelling tables: they must name exactly the option strings the target action owned
            want_ostr = sorted(SPELL[info["spell"]]["ostr"])
            if info["owned"] != want_ostr:
                devs.append((sig("harness:target-option-strings-not-enumerated", info),
                             f"the target owns {info['owned']!r}, enumerated {want_ostr!r}"))
            if tgt_is_spelled(case):
                obs["spelled"] = SPELL[info["spell"]]["forms"][case["sp"]][0]
        want = expectation(info, case)
        tgt = case.get("tgt", "none")
        if entry == "print" and want != "accept":
            return devs, obs
        if entry == "print":
            # the normal parse gives the reference configuration; --print_config must print a dump of it
            normal = dict(case, entry="args")
            r = do_parse(J, parser, "args", render(info, normal))
            p = do_parse(J, make_parser()[0], "print", inp)
            obs["outcome"] = p["kind"]
            if r["kind"] != "ok" or p["kind"] != "exit" or p.get("code") != 0:
                devs.append((sig("print-config-fails", info), f"parse -> {_short(r)}; --print_config -> {_short(p)}"))
                return devs, obs
            import yaml

            text = p["stdout"]
            loaded = yaml.safe_load(text) or {}
            for link in info["links"]:
                present = [(w, v) for w, v in target_values(loaded, info["prefix"], link) if v is not ABSENT]
                if present:
                    devs.append((sig("target-in-dump", info, link), f"--print_config shows {present!r}: {text!r}"))
            from mc.util import outcome, tcanon

            apply_env({})
            rr = outcome(make_parser()[0].parse_string, text)
            ref = drop_config(plainify(J.strip_meta(r["value"]), J.Namespace))
            if rr["kind"] != "ok":
                devs.append((sig("reparse-fails", info, None, "print_config"), f"{_short(rr)}; text {text!r}"))
            elif tcanon(drop_config(plainify(J.strip_meta(rr["value"]), J.Namespace))) != tcanon(ref):
                devs.append((sig("reparse-differs", info, None, "print_config"), f"{text!r} vs {ref!r}"))
            obs["accepted"] = 1
            obs["judged"] = 1
            return devs, obs
        r = do_parse(J, parser, entry, inp)
        obs["outcome"] = r["kind"]
        if r["kind"] in ("escape", "timeout", "exit"):
            devs.append((sig(f"escape:{r.get('type', r['kind'])}", info), f"{_short(r)}; input {inp!r}"))
            return devs, obs
        if r["kind"] == "ArgumentError":
            obs["rejected"] = 1
            if want == "accept":
                msg = r["message"]
                tkeys = [l["tgt"].rsplit(".", 1)[-1] for l in info["links"]]
                why = "target-required" if ("equired" in msg or "not found" in msg) and any(
                    f'"{l["tgt"]}"' in msg or f".{k}\"" in msg or f'"{k}"' in msg for l, k in zip(info["links"], tkeys)
                ) else "error"
                if why == "error" and "not found in namespace" in msg and any(
                    f'"{s}"' in msg for l in info["links"] for s in l["src"]
                ):
                    why = "source-not-found"  # the link was applied to a namespace that lacks its (defaulted) source
                how = "subcommand-from-env" if info["prefix"] and (entry == "env" or entry.endswith("-envsel")) else None
                devs.append(
                    (sig(f"parse-fails:{why}", info, None if why == "source-not-found" else info["links"][0], how),
                     f"{_short(r)}; input {inp!r}")
                )
            elif want == "reject":
                obs["rejected_as_required"] = 1
            return devs, obs
        cfg = r["value"]
        obs["accepted"] = 1
        if want == "reject":
            what = "illtyped-compute-result-accepted" if o.get("fn") == "fbad" else "own-option-accepted"
            how = None
            if tgt == "spelled":  # which class of spelling slipped through (canonical: no suffix)
                how = SPELL[info["spell"]]["forms"][case["sp"]][0]
                how = None if how == "canonical" else how + "-spelling"
            devs.append((sig(what, info, info["links"][0], how), f"input {inp!r} -> {cfg!r}"))
            if o.get("fn") == "fbad":
                return devs, obs
        # which channel won for every source leaf (vacuity guard material; the oracle itself reads the final values)
        tree = plainify(J.strip_meta(cfg), J.Namespace)
        winners = []
        enc = ENC[info.get("enc", "int")]
        for i, leaf in enumerate(info["leaves"]):
            v = ident(info, lookup(tree, info["prefix"] + leaf.split(".")))
            dflt = info.get("defaults", {}).get(leaf, sval(i, "default"))
            toks = [chtoken(tok) for tok in case["src"].get(leaf, ())]
            supplied = [(None if null else ident(info, enc(sval(i, ch))), ch) for ch, null in toks]
            won = [ch for x, ch in supplied if tcanon(x) == tcanon(v)]
            if info.get("nullable") and v is None:
                # a None final value: identifiable when exactly one channel wrote null (or none did: the default)
                nulls = [ch for ch, null in toks if null]
                if len(nulls) == 1 or (not toks and dflt is None):
                    obs.setdefault("null_final", []).append([info["nk"], nulls[0] if nulls else "default"])
            if info.get("enc") == "bool":
                # only two values: the channel cannot be identified from the final value (the list / int kinds of
                # the same family carry the channel guard)
                if not (won or (tcanon(v) == tcanon(dflt) and not supplied)):
                    devs.append((sig("harness:source-value-not-from-any-channel", info), f"{leaf} = {v!r}; input {inp!r}"))
            elif won:
                winners.append(won[0])
            elif tcanon(v) == tcanon(dflt) and not supplied:
                winners.append("default")
            else:
                winners.append("?")
                devs.append((sig("harness:source-value-not-from-any-channel", info), f"{leaf} = {v!r}; input {inp!r}"))
        obs["winners"] = winners
        serial = tuple(case.get("serial") or ("yaml", "json"))
        check_config(J, parser, make_parser, info, cfg, devs, obs, serial=serial, tag=None, reparse=case.get("reparse"))
        for n, (s, d) in enumerate(devs):
            if s.startswith("target-wrong") or s.startswith("target-absent"):
                devs[n] = (s, d + f"; input {inp!r}")
    return devs, obs


# ----------------------------------------------------------------------------------------------------
# link sets over one fixed parser layout ("chains / double targets are refused at link_arguments time";
# every accepted set must keep the invariant for every one of its links)

# (sources, compute function, target)
LINKS = [
    (["a"], None, "b"),
    (["a"], "f1", "c"),
    (["b"], None, "c"),
    (["a", "b"], "f2", "c"),
    (["a"], None, "g.n"),
    (["b"], "f1", "g.m"),
    (["g"], "fgroup", "c"),
    (["g"], None, "d"),
    (["g"], "fhalf", "b"),
    (["g.n"], None, "c"),
    (["g.n"], "f1", "b"),
    (["g.m"], None, "a"),
    (["a"], None, "x.init_args.k"),
    (["g.n"], "f1", "x.init_args.k"),
    (["x"], "fspec", "c"),
    (["x.init_args.other"], None, "b"),
    (["x.init_args.other"], "f1", "x.init_args.k"),
    # group -> parameter of the class argument, whole class -> group member: with the links above these give
    # dependency chains of three links through nested keys (a -> g.n, g -> x.init_args.k, x -> c;
    # a -> x.init_args.k, x -> g.n, g -> c / d) and, together, a cycle through nested keys
    (["g"], "fgroup", "x.init_args.k"),
    (["x"], "fspec", "g.n"),
    # a link onto one of its own sources
    (["a"], None, "a"),
    (["a", "b"], "f2", "b"),
    (["g"], "fhalf", "g.n"),
]
U_LEAVES = {"a": 1, "b": 2, "c": 3, "g.n": 3, "g.m": 4}


def build_universe(J):
    from typing import Dict

    C = _funcs()
    p = new_parser(J)
    p.add_argument("--config", action="config")
    for k in ("a", "b", "c"):
        p.add_argument("--" + k, type=int, default=U_LEAVES[k])
    p.add_class_arguments(C.Data, "g")
    p.add_argument("--d", type=Dict[str, int])
    p.add_argument("--x", type=C.Base)
    return p


def inside(key, group):
    return key.startswith(group + ".")


def nest(key1, key2):
    return inside(key1, key2) or inside(key2, key1)


def dependencies(links):
    """(i, j): the target of link i is nested with a source of link j - link i has to be applied before link j
    (exact equality of the keys is the `chain` relation, which link_arguments refuses)."""
    return [(i, j) for i in range(len(links)) for j in range(len(links))
            if i != j and any(nest(links[i][2], s) for s in links[j][0])]


def relations(links):
    """Reference classification of an ordered link set -> set of relation names."""
    rel = set()
    for i, (src_i, _, tgt_i) in enumerate(links):
        if tgt_i in src_i:
            rel.add("self")
        if any(inside(tgt_i, s) for s in src_i):
            rel.add("self-prefix")
        for j in range(i + 1, len(links)):
            src_j, _, tgt_j = links[j]
            if tgt_i == tgt_j:
                rel.add("double")
            if tgt_i in src_j or tgt_j in src_i:
                rel.add("chain")
            if any(inside(tgt_j, s) or inside(s, tgt_j) for s in src_i):
                rel.add("prefix-chain-wrong-order")  # the later link writes below a source of an earlier one
            if any(inside(tgt_i, s) or inside(s, tgt_i) for s in src_j):
                rel.add("prefix-chain")  # declaration order = dependency order
            if inside(tgt_i, tgt_j) or inside(tgt_j, tgt_i):
                rel.add("nested-targets")
    # the dependency graph over nested keys as a whole: cycles, and paths over three links (the order in which the
    # links have to be applied is then constrained by more than one dependency)
    deps = dependencies(links)
    reach = set(deps)
    for _ in links:
        reach |= {(a, d) for a, b in reach for c, d in deps if b == c}
    if any(a == b for a, b in reach):
        # a cycle over two or more links.  Every cycle of the catalogue runs through fgroup / fspec / the automatic
        # group-to-dict conversion, which read every member (the links with fhalf, which reads one member only, lie on
        # no cycle that is not refused as a chain / double target anyway): no order of application can satisfy it
        rel.add("nest-cycle")
    elif any(b == c and a != d for a, b in deps for c, d in deps):
        rel.add("prefix-chain3" if all(a < b for a, b in deps) else "prefix-chain3-wrong-order")
    return rel


MUST_REFUSE = ("self", "double", "chain")
# accepted by the library although no order of application can satisfy all links: known finding, not parsed
UNSATISFIABLE = ("nest-cycle",)
MAY_REFUSE = ("prefix-chain3-wrong-order", "prefix-chain3", "prefix-chain-wrong-order", "self-prefix", "prefix-chain",
              "nested-targets")


def linkset_inputs(links):
    """Four inputs per accepted link set: defaults; everything through argv; through --config; through an object."""
    targets = {t for _, _, t in links}
    free = [k for k in U_LEAVES if k not in targets]
    give_k = [] if "x.init_args.k" in targets else ["--x.k=8"]
    # the bare defaults - except that a link reading the whole of `x` needs x to be configured (None is not a Base)
    out = [("args", ["--x=Base"] + give_k if any("x" in s for s, _, _ in links) else [])]
    argv = ["--x=Base", "--x.other=6"] + give_k
    argv += [f"--{k}={14 + 10 * n}" for n, k in enumerate(free)]
    out.append(("args", argv))
    doc = {}
    for n, k in enumerate(free):
        set_nested(doc, k, 13 + 10 * n)
    doc["x"] = {"class_path": f"{MOD}.Base", "init_args": {"other": 7}}
    if "x.init_args.k" not in targets:
        doc["x"]["init_args"]["k"] = 9
    out.append(("args", ["--config=" + json.dumps(doc)]))
    out.append(("object", doc))
    return out


def run_linkset(case):
    import jsonargparse as J

    from mc.util import outcome, restored_process_state

    C = _funcs()
    links = [(list(s), f, t) for s, f, t in case["links"]]
    rel = relations(links)
    must = [r for r in MUST_REFUSE if r in rel]
    unsat = [r for r in UNSATISFIABLE if r in rel]
    may = [r for r in MAY_REFUSE if r in rel]
    relname = (must or unsat or may or ["independent"])[0]
    devs, obs = [], {"relation": relname}

    def make(upto=None):
        p = build_universe(J)
        for s, f, t in links[:upto]:
            p.link_arguments(tuple(s) if len(s) > 1 else s[0], t, C.FUNCS.get(f))
        return p

    def make_parser():
        return make(), info

    info = {
        "prefix": [],
        "links": [
            {"src": s, "fn": f, "tgt": t, "kind": "init" if t.startswith("x.") else "plain", "carg": "x",
             "conv": "dict" if (f is None and s == ["g"]) else None}
            for s, f, t in links
        ],
    }
    if case.get("hist") == "used":
        # History axis: ONE parser; after every link declaration it is used for a parse (the defaults input of the
        # links declared so far), and all inputs are then parsed one after the other on that same parser.  Refusals
        # and unsatisfiable sets are judged by the history-free case of the same set.
        obs["hist"] = 1
        with restored_process_state():
            apply_env({})
            parser = build_universe(J)
            for n, (s, f, t) in enumerate(links):
                r = outcome(parser.link_arguments, tuple(s) if len(s) > 1 else s[0], t, C.FUNCS.get(f))
                if r["kind"] != "ok":
                    obs["refused"] = 1
                    return devs, obs
                outcome(parser.parse_args, list(linkset_inputs(links[: n + 1])[0][1]))
                obs["parses"] = obs.get("parses", 0) + 1
            obs["accepted_set"] = 1
            if must or unsat:
                return devs, obs
            inputs = linkset_inputs(links)
            if case.get("inputs"):
                inputs = [inputs[n] for n in case["inputs"]]
            for entry, data in inputs:
                if entry == "args":
                    r = outcome(parser.parse_args, list(data))
                else:
                    r = outcome(parser.parse_object, copy.deepcopy(data))
                obs["parses"] = obs.get("parses", 0) + 1
                if r["kind"] != "ok":
                    kind = "parse-fails" if r["kind"] == "ArgumentError" else f"escape:{r.get('type', r['kind'])}"
                    devs.append((f"linkset:used-parser:{kind}", f"{_short(r)}; links {links!r}; input {data!r}"))
                    continue
                obs["accepted"] = obs.get("accepted", 0) + 1
                sub_devs = []
                check_config(J, parser, make_parser, info, r["value"], sub_devs, obs, serial=("yaml",))
                for s_, d in sub_devs:
                    devs.append((f"linkset:used-parser:{s_}", d + f"; links {links!r}; input {data!r}"))
        return devs, obs
    with restored_process_state():
        apply_env({})
        # declaration: every prefix of the list; the first refusal ends the case
        refused_at = None
        for n in range(1, len(links) + 1):
            r = outcome(make, n)
            if r["kind"] == "ok":
                continue
            refused_at = n
            if r["kind"] != "escape" or r["type"] != "builtins.ValueError":
                devs.append((f"linkset:{relname}:declaration-raises-{r.get('type', r['kind'])}", f"{_short(r)}"))
            break
        if refused_at is not None:
            obs["refused"] = 1
            sub = relations(links[:refused_at])
            if not any(r in sub for r in MUST_REFUSE + UNSATISFIABLE + MAY_REFUSE):
                devs.append((f"linkset:{relname}:spurious-refusal", f"links {links[:refused_at]!r} refused: {_short(r)}"))
            return devs, obs
        obs["accepted_set"] = 1
        if must:
            devs.append((f"linkset:{must[0]}:accepted", f"link_arguments accepted {links!r}"))
        elif unsat:
            # no order of application satisfies such a set, so there is nothing to judge on a parse
            devs.append((f"linkset:{unsat[0]}:accepted", f"link_arguments accepted {links!r}"))
            return devs, obs
        inputs = linkset_inputs(links)
        if case.get("inputs"):  # sets of three and more links in the quick tier: defaults and argv only
            inputs = [inputs[n] for n in case["inputs"]]
        for entry, data in inputs:
            parser = make()
            if entry == "args":
                r = outcome(parser.parse_args, list(data))
            else:
                r = outcome(parser.parse_object, copy.deepcopy(data))
            obs["parses"] = obs.get("parses", 0) + 1
            if r["kind"] != "ok":
                if r["kind"] != "ArgumentError":
                    devs.append((f"linkset:{relname}:escape:{r.get('type', r['kind'])}", f"{_short(r)}; input {data!r}"))
                elif not must:
                    devs.append((f"linkset:{relname}:parse-fails", f"{_short(r)}; links {links!r}; input {data!r}"))
                continue
            obs["accepted"] = obs.get("accepted", 0) + 1
            sub_devs = []
            check_config(J, parser, make_parser, info, r["value"], sub_devs, obs, serial=("yaml",))
            for s, d in sub_devs:
                devs.append((f"linkset:{relname}:{s}", d + f"; links {links!r}; input {data!r}"))
    return devs, obs
