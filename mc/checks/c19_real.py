"""C19 environment (2): conformance run on the real file system.

A fixture tree with every kind of path the property names (regular files and directories with different permission
bits, FIFOs, symbolic links to each, dangling links, missing entries with and without parent, paths through a regular
file, through a closed directory, `~`, `.`, `..`, trailing slashes, `-`, the empty string, a character device) is
created under the per-process scratch directory.  Every path kind is addressed from three working directories, spelled
absolute, relative to the process working directory, and relative to an explicit `cwd=` argument.  The facts the
oracle judges are read with os.stat / os.access by the harness in the same process and with the same credentials as the
code under test: once as root (for whom permission bits never deny) and once in a forked child that has dropped to uid
`nobody`, where 0o000 files and 0o555 directories really deny.
"""
from __future__ import annotations

import errno
import json
import os
import stat

NOBODY = 65534

CWDS = {"base": "base", "nested": "base/dir_open/sub", "other": "other"}

# kinds spelled relative to base/ (re-spelled relative to each working directory)
TREE_KINDS = [
    "file_rw", "file_ro", "file_none", "file_x", "file_wonly",
    "dir_open", "dir_ro", "dir_closed", "dir_wx", "dir_rw_nox",
    "fifo", "fifo_none",
    "link_file", "link_dir", "link_dangling", "link_dangling_deep", "link_to_closed", "link_fifo", "link_link", "link_far",
    "missing", "dir_open/missing", "dir_ro/missing", "dir_closed/missing", "dir_closed/inner_file", "dir_rw_nox/inner_file",
    "nodir/missing", "nodir/a/missing", "dir_ro/nodir/missing", "dir_closed/nodir/missing",
    "file_rw/through", "file_rw/a/through", "link_file/through", "file_none/a/through",
    "link_dir/inner_file", "link_dir/missing", "link_far/../far_sibling",
    "dir_open/", "file_rw/", "missing/", "dir_open/../file_rw", "dir_open/./inner_file", "nodir/../file_rw",
]  # fmt: skip
# spellings that are what they are (not re-spelled per working directory)
SPECIAL_KINDS = [".", "..", "", "-", "~", "~/hfile", "~/missing", "~/nodir/missing", "/dev/null", "/", "./file_here", "../"]


def build_fixture(root):
    """Create the tree below `root` (a fresh directory).  Called as root; modes chosen so that uid nobody is denied."""
    os.chmod(root, 0o755)
    j = lambda *p: os.path.join(root, *p)  # noqa: E731
    os.makedirs(j("base"))
    os.makedirs(j("other", "far_dir"))
    os.chmod(j("other"), 0o777)

    def mkfile(rel, mode, text="x\n"):
        with open(j(rel), "w") as f:
            f.write(text)
        os.chmod(j(rel), mode)

    def mkdir(rel, mode):
        os.makedirs(j(rel), exist_ok=True)
        os.chmod(j(rel), mode)

    mkfile("other/far_sibling", 0o644)
    mkfile("other/file_here", 0o644)
    mkfile("base/file_rw", 0o666)
    mkfile("base/file_ro", 0o444)
    mkfile("base/file_none", 0o000)
    mkfile("base/file_x", 0o755)
    mkfile("base/file_wonly", 0o222)
    mkfile("base/file_here", 0o644)
    mkdir("base/dir_open/sub", 0o777)
    mkfile("base/dir_open/inner_file", 0o644)
    mkfile("base/dir_open/sub/file_here", 0o644)
    os.chmod(j("base/dir_open"), 0o777)
    mkdir("base/dir_ro", 0o755)
    mkfile("base/dir_ro/inner_file", 0o644)
    mkdir("base/dir_closed", 0o755)
    mkfile("base/dir_closed/inner_file", 0o666)
    mkdir("base/dir_closed/inner_dir", 0o777)
    os.chmod(j("base/dir_closed"), 0o700)
    mkdir("base/dir_wx", 0o733)
    mkdir("base/dir_rw_nox", 0o755)
    mkfile("base/dir_rw_nox/inner_file", 0o666)
    os.chmod(j("base/dir_rw_nox"), 0o766)
    os.mkfifo(j("base/fifo"), 0o666)
    os.chmod(j("base/fifo"), 0o666)
    os.mkfifo(j("base/fifo_none"), 0o600)
    os.symlink("file_rw", j("base/link_file"))
    os.symlink("dir_open", j("base/link_dir"))
    os.symlink("no_such_target", j("base/link_dangling"))
    os.symlink("no_dir/no_such_target", j("base/link_dangling_deep"))
    os.symlink("dir_closed/inner_file", j("base/link_to_closed"))
    os.symlink("fifo", j("base/link_fifo"))
    os.symlink("link_file", j("base/link_link"))
    os.symlink("../other/far_dir", j("base/link_far"))
    mkdir("base/home", 0o755)
    mkfile("base/home/hfile", 0o644)
    os.chmod(j("base"), 0o755)


def spellings(root, kind, cwd_name):
    """[(resolution, spelling, process cwd, cwd argument)] for one path kind seen from one working directory."""
    cwd = os.path.join(root, CWDS[cwd_name])
    elsewhere = os.path.join(root, "other") if cwd_name != "other" else os.path.join(root, "base")
    if kind in SPECIAL_KINDS:
        out = [("as-is", kind, cwd, None)]
        if not kind.startswith(("/", "~")) and kind != "-":
            out.append(("as-is-cwd-arg", kind, elsewhere, cwd))
        return out
    target = os.path.join(root, "base", kind)
    rel = os.path.relpath(os.path.join(root, "base"), cwd)
    rel = kind if rel == "." else os.path.join(rel, kind)
    return [("abs", target, cwd, None), ("rel", rel, cwd, None), ("rel-cwd-arg", rel, elsewhere, cwd)]


# -----------------------------------------------------------------------------------------------------
# facts from the real file system (the harness' own os-level observation)


def _errclass(ex):
    return {errno.ENOENT: "missing", errno.ENOTDIR: "notdir", errno.EACCES: "noaccess", errno.ELOOP: "loop"}.get(ex.errno, "oserror")


def _node(path):
    try:
        st = os.stat(path)
    except OSError as ex:
        return {"kind": _errclass(ex), "W": False}, False
    m = st.st_mode
    kind = "file" if stat.S_ISREG(m) else "dir" if stat.S_ISDIR(m) else "fifo" if stat.S_ISFIFO(m) else "other"
    return {"kind": kind, "W": os.access(path, os.W_OK)}, True


def real_facts(abs_path):
    """Facts (see c19_oracle) about an absolute path, observed with os.stat / os.access."""
    node, _ = _node(abs_path)
    facts = {
        "kind": node["kind"],
        "R": os.access(abs_path, os.R_OK),
        "W": os.access(abs_path, os.W_OK),
        "X": os.access(abs_path, os.X_OK),
    }
    parent = os.path.dirname(os.path.realpath(abs_path))
    facts["parent"], _ = _node(parent)
    cur = parent
    while True:
        node, exists = _node(cur)
        if exists or cur == "/":
            facts["nearest"] = node
            break
        cur = os.path.dirname(cur)
    return facts


# -----------------------------------------------------------------------------------------------------
# running a function as uid nobody in a forked child


def can_drop_privileges():
    return hasattr(os, "fork") and os.geteuid() == 0


def as_nobody(fn, *args):
    """Run fn(*args) in a forked child with uid/gid nobody; returns its JSON-able result.

    Every module the function needs must already be imported (the interpreter lives in a directory that nobody
    cannot read).  Raises RuntimeError when the child fails."""
    r, w = os.pipe()
    pid = os.fork()
    if pid == 0:  # child
        code = 1
        try:
            os.close(r)
            try:
                os.setgroups([])
            except OSError:
                pass
            os.setgid(NOBODY)
            os.setuid(NOBODY)
            if os.geteuid() != NOBODY:
                raise RuntimeError("privileges not dropped")
            payload = json.dumps({"ok": fn(*args)})
            code = 0
        except BaseException as ex:  # noqa: BLE001
            import traceback

            payload = json.dumps({"error": f"{type(ex).__name__}: {ex}", "trace": traceback.format_exc()[-1500:]})
        try:
            with os.fdopen(w, "w") as f:
                f.write(payload)
        finally:
            os._exit(code)
    os.close(w)
    with os.fdopen(r) as f:
        data = f.read()
    os.waitpid(pid, 0)
    try:
        res = json.loads(data)
    except ValueError:
        raise RuntimeError(f"child returned no result: {data[:200]!r}")
    if "error" in res:
        raise RuntimeError("child failed: " + res["error"] + "\n" + res.get("trace", ""))
    return res["ok"]
