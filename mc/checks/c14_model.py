"""C14 reference model: what a sequence of class specs MEANS, decided without jsonargparse.

Everything here is plain Python reflection on the fixture modules (importlib, issubclass, inspect.signature,
typing.get_type_hints, inspect.isabstract).  Nothing is imported from jsonargparse.

Logical spec of ONE class-typed position (JSON):

    None                                        the value null (only for Optional positions)
    {"c": token | None,                         which class: a key of TOKENS, or None = "no class named"
     "by": "path" | "name",                     named by full import path or by bare class name
     "a": {param: value | spec | [...] | {...}},  init args (class-typed parameters take nested specs)
     "k": {key: value}}                         dict_kwargs

Container positions: {"list": [spec, ...]}, {"append": spec}, {"last": spec}, {"dict": {key: spec}}, {"key": [k, spec]}.
A whole list / dict given after an earlier one replaces it; its elements see the previous element at the same index
(list of unchanged length) / under the same key as their previous state, so "no class named" means that class.

State of a position (result of applying sources in order):

    None | Inst(obj) | Node(obj, args, dk) | [states] | {key: state}
"""
from __future__ import annotations

import importlib
import inspect
import json
import typing

FAM = "mc.fixtures.c14.fam"
FAM2 = "mc.fixtures.c14.fam2"
FAM_LATE = "mc.fixtures.c14.late"  # NOT loaded by ensure_loaded(): imported in the middle of a case (family `late`)

# token -> import path (the text given as class_path when named "by path")
TOKENS = {
    # family Base
    "Base": FAM + ".Base",
    "SubAdd": FAM + ".SubAdd",
    "SubOver": FAM + ".SubOver",
    "SubReq": FAM + ".SubReq",
    "SubSub": FAM + ".SubSub",
    "Twin": FAM + ".Twin",
    "Twin2": FAM2 + ".Twin",
    "Far": FAM2 + ".Far",
    "_Private": FAM + "._Private",
    "Unrelated": FAM + ".Unrelated",
    # family Other
    "Other": FAM + ".Other",
    "OtherSub": FAM + ".OtherSub",
    # abstract family
    "Abs": FAM + ".Abs",
    "AbsImpl": FAM + ".AbsImpl",
    "AbsStill": FAM + ".AbsStill",
    # lineage: named class below abstract / private intermediates, diamond
    "AbsStillImpl": FAM + ".AbsStillImpl",
    "AbsDeepImpl": FAM + ".AbsDeepImpl",
    "MidAbs": FAM + ".MidAbs",
    "MidImpl": FAM + ".MidImpl",
    "BelowPrivate": FAM + ".BelowPrivate",
    "Diamond": FAM + ".Diamond",
    # classes that become available after an earlier use of the library (module imported late)
    "LateSub": FAM_LATE + ".LateSub",
    "LateSubSub": FAM_LATE + ".LateSubSub",
    "LateMidImpl": FAM_LATE + ".LateMidImpl",
    "LateAbsImpl": FAM_LATE + ".LateAbsImpl",
    # **kwargs family
    "Kw": FAM + ".Kw",
    "KwSub": FAM + ".KwSub",
    # holders
    "HoldOne": FAM + ".HoldOne",
    "HoldOpt": FAM + ".HoldOpt",
    "HoldUnion": FAM + ".HoldUnion",
    "HoldList": FAM + ".HoldList",
    "HoldDict": FAM + ".HoldDict",
    "HoldDeep": FAM + ".HoldDeep",
    "HoldSub": FAM + ".HoldSub",
    "HoldPair": FAM + ".HoldPair",
    "HoldPairR": FAM + ".HoldPairR",
    # callables
    "make_sub": FAM + ".make_sub",
    "make_base_str": FAM + ".make_base_str",
    "make_unrelated": FAM + ".make_unrelated",
    "make_int": FAM + ".make_int",
    "make_untyped": FAM + ".make_untyped",
    # importable non-classes
    "CONST": FAM + ".CONST",
    "TEXT": FAM + ".TEXT",
    "INST_BASE": FAM + ".INST_BASE",
    "INST_SUB": FAM + ".INST_SUB",
    "INST_UNRELATED": FAM + ".INST_UNRELATED",
    "INST_OTHER": FAM + ".INST_OTHER",
    "module": FAM,
    "package": "mc.fixtures.c14",
    "os.path": "os.path",
    "os.sep": "os.sep",
    "method": FAM + ".Base.__init__",
    "object": "builtins.object",
    "type": "builtins.type",
    # not importable
    "missing_attr": FAM + ".Nope",
    "missing_module": "no_such_module_zz.Thing",
    "missing_nested": FAM + ".SubAdd.nothing",
}

CLASS_TOKENS = [
    "Base", "SubAdd", "SubOver", "SubReq", "SubSub", "Twin", "Twin2", "Far", "_Private", "Unrelated", "Other",
    "OtherSub", "Abs", "AbsImpl", "AbsStill", "AbsStillImpl", "AbsDeepImpl", "MidAbs", "MidImpl", "BelowPrivate",
    "Diamond", "Kw", "KwSub", "HoldOne", "HoldOpt", "HoldUnion", "HoldList",
    "HoldDict", "HoldDeep", "HoldSub", "HoldPair", "HoldPairR",
]  # fmt: skip
# kept apart from CLASS_TOKENS: nothing may import their module as a side effect (see c14.token_of)
LATE_TOKENS = ["LateSub", "LateSubSub", "LateMidImpl", "LateAbsImpl"]
FUNC_TOKENS = ["make_sub", "make_base_str", "make_unrelated", "make_int", "make_untyped"]


def short_name(tok):
    """The bare name a user would type for this token (last component of its path)."""
    return TOKENS[tok].rsplit(".", 1)[1]


def decl_type(name):
    """Declared type of the argument under test, by its name in the case."""
    f = fam()
    if name == "OptBase":
        return typing.Optional[f.Base]
    if name == "UnionBO":
        return typing.Union[f.Base, f.Other]
    if name == "ListBase":
        return typing.List[f.Base]
    if name == "DictBase":
        return typing.Dict[str, f.Base]
    if name == "ListKw":
        return typing.List[f.Kw]
    if name == "DictKw":
        return typing.Dict[str, f.Kw]
    return getattr(f, name)


class Reject(Exception):
    """The model says: parsing must fail.  `reason` names the class of invalidity."""

    def __init__(self, reason, detail=""):
        super().__init__(reason + (": " + detail if detail else ""))
        self.reason = reason
        self.detail = detail


class Inst:
    def __init__(self, obj):
        self.obj = obj


class Node:
    def __init__(self, obj, args=None, dk=None):
        self.obj = obj  # class or callable
        self.args = dict(args or {})  # explicitly configured init args: name -> python value / state
        self.dk = dict(dk or {})


REQUIRED = inspect.Parameter.empty

# ---------------------------------------------------------------------------------------------------
# reflection helpers


def fam():
    return importlib.import_module(FAM)


def ensure_loaded():
    importlib.import_module(FAM)
    importlib.import_module(FAM2)


def my_import(path):
    """Independent resolution of a dotted path: longest importable module prefix, then attributes."""
    if not isinstance(path, str) or not path or not all(p.isidentifier() for p in path.split(".")):
        raise Reject("not-importable", f"{path!r} is not a dotted identifier path")
    parts = path.split(".")
    if len(parts) < 2:
        raise Reject("not-importable", f"{path!r} has no module part")
    obj, err = None, None
    for n in range(len(parts) - 1, 0, -1):
        try:
            obj = importlib.import_module(".".join(parts[:n]))
        except ImportError as ex:
            err = ex
            continue
        rest = parts[n:]
        break
    else:
        raise Reject("not-importable", str(err))
    for attr in rest:
        try:
            obj = getattr(obj, attr)
        except AttributeError as ex:
            # a submodule that is not yet an attribute of its package
            raise Reject("not-importable", str(ex))
    return obj


_sig_cache = {}


def params(obj):
    """(OrderedDict name -> (annotation, default), has_var_keyword) of a class' constructor or of a function."""
    if obj in _sig_cache:
        return _sig_cache[obj]
    target = obj.__init__ if inspect.isclass(obj) else obj
    hints = typing.get_type_hints(target)
    out, varkw = {}, False
    for name, p in inspect.signature(obj).parameters.items():
        if p.kind is p.VAR_KEYWORD:
            varkw = True
            continue
        if p.kind is p.VAR_POSITIONAL:
            continue
        out[name] = (hints.get(name, p.annotation), p.default)
    _sig_cache[obj] = (out, varkw)
    return out, varkw


def return_class(fn):
    try:
        ret = typing.get_type_hints(fn).get("return")
    except Exception:
        return None
    return ret if inspect.isclass(ret) else None


def split_type(typ):
    """Declared annotation -> (kind, payload): ("class", ([member classes], allow_none)) | ("list", T) | ("dict", T)
    | ("scalar", typ)."""
    origin = typing.get_origin(typ)
    if origin in (list, typing.List):
        return "list", typing.get_args(typ)[0]
    if origin in (dict, typing.Dict):
        return "dict", typing.get_args(typ)[1]
    if origin is typing.Union:
        args = typing.get_args(typ)
        members = [a for a in args if a is not type(None)]
        if members and all(inspect.isclass(m) and m.__module__.startswith("mc.fixtures.c14") for m in members):
            return "class", (members, len(members) != len(args))
        return "scalar", typ
    if inspect.isclass(typ) and typ.__module__.startswith("mc.fixtures.c14"):
        return "class", ([typ], False)
    return "scalar", typ


def decode_text(v):
    """A str given where a non-str is expected is read as JSON/YAML first (that is how every channel of
    jsonargparse treats strings); the value alphabet only uses texts on which YAML and JSON agree."""
    if isinstance(v, str):
        try:
            w = json.loads(v)
            if not isinstance(w, (str, list, dict)):
                return w
        except ValueError:
            pass
    return v


def conforms_scalar(v, ann):
    """(ok, value as the parser should store it)."""
    if ann is not str:
        v = decode_text(v)
    if ann is int:
        return type(v) is int, v
    if ann is str:
        return type(v) is str, v
    if ann is bool:
        return type(v) is bool, v
    if typing.get_origin(ann) is typing.Union:
        for m in typing.get_args(ann):
            if m is type(None):
                if v is None:
                    return True, v
            else:
                ok, w = conforms_scalar(v, m)
                if ok:
                    return True, w
        return False, v
    raise AssertionError(f"annotation outside the modelled alphabet: {ann!r}")


def all_subclasses(cls, seen=None):
    seen = [] if seen is None else seen
    if cls not in seen:
        seen.append(cls)
        for s in cls.__subclasses__():
            all_subclasses(s, seen)
    return seen


def resolvable_by_name(member, name):
    """Documented rule: subclasses of the declared class in imported modules; abstract and private classes
    (module or name starting with '_') are not considered."""
    out = []
    for c in all_subclasses(member):
        path = c.__module__ + "." + c.__qualname__
        if c.__name__ != name or inspect.isabstract(c) or "._" in path or "<locals>" in c.__qualname__:
            continue
        if c.__module__.startswith("jsonargparse"):
            continue
        out.append(c)
    return out


def concrete(cls):
    return not inspect.isabstract(cls)


def classify(obj, member):
    """How `obj` (what the path imports to) relates to the declared class `member`."""
    if inspect.isclass(obj):
        return "class" if issubclass(obj, member) else None
    if isinstance(obj, member):
        return "instance"
    if callable(obj):
        ret = return_class(obj)
        if ret is not None and issubclass(ret, member):
            return "callable"
    return None


def why_unacceptable(obj):
    if inspect.isclass(obj):
        return "wrong-class"
    if inspect.ismodule(obj):
        return "not-a-class:module"
    if callable(obj):
        return "callable-return-not-subclass"
    return "not-a-class:object"


# ---------------------------------------------------------------------------------------------------
# applying one logical spec to the state of one position


def resolve(spec, members):
    """-> (obj, kind) for a spec that names a class; raises Reject."""
    tok, by = spec["c"], spec.get("by", "path")
    if by == "name":
        name = short_name(tok)
        found = []
        for m in members:
            for c in resolvable_by_name(m, name):
                if c not in found:
                    found.append(c)
        if not found:
            raise Reject("unresolvable-name", name)
        # per declared member the name must be unique; with several members the first member that resolves wins
        for m in members:
            hits = resolvable_by_name(m, name)
            if len(hits) > 1:
                raise Reject("ambiguous-name", name)
            if len(hits) == 1:
                return hits[0], "class"
    obj = my_import(TOKENS[tok])
    for m in members:
        kind = classify(obj, m)
        if kind:
            return obj, kind
    raise Reject(why_unacceptable(obj), TOKENS[tok])


def valid_for(obj, name, value):
    """Is a previously configured value still valid as parameter `name` of `obj` (class change)?
    -> (ok, value to keep)."""
    ps, _ = params(obj)
    if name not in ps:
        return False, None
    ann = ps[name][0]
    kind, payload = split_type(ann)
    if kind == "scalar":
        if isinstance(value, (Node, Inst, list, dict)):
            return False, None
        return conforms_scalar(value, ann)
    return state_conforms(value, ann), value


def state_conforms(state, typ):
    kind, payload = split_type(typ)
    if kind == "class":
        members, allow_none = payload
        if state is None:
            return allow_none
        if isinstance(state, Inst):
            return any(isinstance(state.obj, m) for m in members)
        if isinstance(state, Node):
            return any(classify(state.obj, m) for m in members)
        return False
    if kind == "list":
        return isinstance(state, list) and all(state_conforms(s, payload) for s in state)
    if kind == "dict":
        return isinstance(state, dict) and all(state_conforms(s, payload) for s in state.values())
    return False


def apply_args(node, spec, trace):
    ps, _ = params(node.obj)
    for name, v in (spec.get("a") or {}).items():
        if name not in ps:
            raise Reject("unknown-init-arg", name)
        node.args[name] = assign(ps[name][0], node.args.get(name), v, trace)
    for key, v in (spec.get("k") or {}).items():
        if key in ps:  # a dict_kwargs entry naming a real parameter is an init arg (and validated as one)
            node.args[key] = assign(ps[key][0], node.args.get(key), v, trace)
        else:
            node.dk[key] = decode_text(v)  # not validated, but texts are still read as values


def assign_class(members, allow_none, prev, spec, trace, implicit=None):
    if spec is None:
        if allow_none:
            return None
        raise Reject("null-for-class")
    if isinstance(prev, Inst) and spec.get("c") is None:
        raise Reject("init-args-for-instance")  # an importable instance has no configurable init args
    if not isinstance(prev, Node):
        prev = None
    if spec.get("c") is None:
        if prev is not None:
            node = Node(prev.obj, prev.args, prev.dk)
            apply_args(node, spec, trace)
            return node
        # no class named and none configured: the class of the argument default if there is one, else the declared
        # class(es) unless abstract
        candidates = [implicit] if implicit is not None else [m for m in members if concrete(m)]
        if not candidates:
            raise Reject("no-implicit-class")
        last = None
        for m in candidates:
            try:
                node = Node(m)
                apply_args(node, spec, trace)
                return node
            except Reject as ex:
                last = ex
        raise last
    obj, kind = resolve(spec, members)
    if kind == "instance":
        if spec.get("a") or spec.get("k"):
            # nothing will be constructed, so there is no class these init args could be valid for
            raise Reject("init-args-for-instance")
        return Inst(obj)
    node = Node(obj)
    if prev is not None:
        if prev.obj is obj:
            node.args, node.dk = dict(prev.args), dict(prev.dk)
        else:
            # class change: init args that are valid for the new class are kept, the others dropped
            if prev.dk:
                trace["stale_dk"] = True  # not judged by the model (see c14.evaluate): differential only
            for name, value in prev.args.items():
                ok, keep = valid_for(obj, name, value)
                if ok:
                    node.args[name] = keep
                    trace["kept"] = trace.get("kept", 0) + 1
                else:
                    trace["dropped"] = trace.get("dropped", 0) + 1
            ps, _ = params(obj)
            for key, value in prev.dk.items():
                if key in ps:
                    ok, keep = conforms_scalar(value, ps[key][0])
                    if not ok:
                        raise Reject("ill-typed-init-arg", f"stale dict_kwargs entry {key}")
                    node.args[key] = keep
                else:
                    node.dk[key] = value
            trace["class_change"] = trace.get("class_change", 0) + 1
    apply_args(node, spec, trace)
    return node


def assign(typ, prev, spec, trace, implicit=None):
    """New state of a position of declared type `typ` after applying `spec` on top of `prev`.
    `implicit`: class of the argument default (top-level position only)."""
    kind, payload = split_type(typ)
    if kind == "scalar":
        ok, v = conforms_scalar(spec, typ) if not isinstance(spec, (dict, list)) else (False, spec)
        if not ok:
            raise Reject("ill-typed-init-arg", f"{spec!r} for {typ}")
        return v
    if kind == "class":
        return assign_class(payload[0], payload[1], prev, spec, trace, implicit)
    if kind == "list":
        if "list" in spec:
            # a whole list given again: elements correspond by index when the length is unchanged (an element
            # without class_path then means the class configured at that index); otherwise every element is new
            same = isinstance(prev, list) and len(prev) == len(spec["list"])
            if isinstance(prev, list):
                trace["regiven"] = trace.get("regiven", 0) + 1
                if not same and any(isinstance(s, dict) and s.get("c") is None for s in spec["list"]):
                    trace["classless_in_resized"] = True
            if same:
                _note_elem_dk(prev, trace)
            return [assign(payload, prev[i] if same else None, s, trace) for i, s in enumerate(spec["list"])]
        if "append" in spec:
            return (list(prev) if isinstance(prev, list) else []) + [assign(payload, None, spec["append"], trace)]
        if "last" in spec:
            cur = list(prev) if isinstance(prev, list) else []
            if not cur:
                return [assign(payload, None, spec["last"], trace)]
            _note_elem_dk(cur[-1:], trace)
            cur[-1] = assign(payload, cur[-1], spec["last"], trace)
            return cur
        raise AssertionError(spec)
    if kind == "dict":
        if "dict" in spec:
            # a whole dict given again replaces the previous one; entries correspond by key (an entry without
            # class_path means the class configured under that key), keys not given again are gone
            old = prev if isinstance(prev, dict) else {}
            if isinstance(prev, dict):
                trace["regiven"] = trace.get("regiven", 0) + 1
                if not prev and any(isinstance(s, dict) and s.get("c") is None for s in spec["dict"].values()):
                    trace["classless_in_resized"] = True
            _note_elem_dk([old.get(k) for k in spec["dict"]], trace)
            return {k: assign(payload, old.get(k), s, trace) for k, s in spec["dict"].items()}
        if "key" in spec:
            cur = dict(prev) if isinstance(prev, dict) else {}
            k, s = spec["key"]
            _note_elem_dk([cur.get(k)], trace)
            cur[k] = assign(payload, cur.get(k), s, trace)
            return cur
        raise AssertionError(spec)
    raise AssertionError(kind)


def _note_elem_dk(prevs, trace):
    """A later source addresses container elements whose previous state carries dict_kwargs (recorded for the
    signature only: `dict_kwargs of a container element` is a root cause of its own)."""
    if any(isinstance(p, Node) and p.dk for p in prevs):
        trace["elem_prev_dk"] = True


def fill_defaults(state):
    """The argument-default channel: parser.get_defaults() shows the default spec with the class' own defaults
    filled in, so as a source it carries every defaulted parameter explicitly."""
    if isinstance(state, list):
        for s in state:
            fill_defaults(s)
    elif isinstance(state, dict):
        for s in state.values():
            fill_defaults(s)
    elif isinstance(state, Node):
        ps, _ = params(state.obj)
        for name, (ann, default) in ps.items():
            if name in state.args:
                fill_defaults(state.args[name])
            elif default is not REQUIRED:
                state.args[name] = default
    return state


# ---------------------------------------------------------------------------------------------------
# finishing: required parameters, defaults -> the effective configuration


def finalize(state, path=""):
    """Effective configuration (JSON-able except for class objects): every parameter with its value.

    {"obj": <class/callable>, "args": {param: value | effective}, "dk": {...}} | {"inst": obj} | None | list | dict
    Raises Reject("missing-required")."""
    if state is None:
        return None
    if isinstance(state, Inst):
        return {"inst": state.obj}
    if isinstance(state, list):
        return [finalize(s, f"{path}[{i}]") for i, s in enumerate(state)]
    if isinstance(state, dict):
        return {k: finalize(s, f"{path}[{k}]") for k, s in state.items()}
    if isinstance(state, Node):
        ps, _ = params(state.obj)
        full = {}
        for name, (ann, default) in ps.items():
            if name in state.args:
                v = state.args[name]
                if v is None and default is REQUIRED:
                    raise Reject("missing-required", path + name)
                full[name] = finalize(v, path + name + ".") if isinstance(v, (Node, Inst, list, dict)) else v
            elif default is REQUIRED:
                raise Reject("missing-required", path + name)
            else:
                full[name] = default
        return {"obj": state.obj, "args": full, "dk": dict(state.dk)}
    return state


def instantiable(eff):
    """Can Python itself build this effective configuration?  (abstract classes / unbindable dict_kwargs cannot)"""
    if isinstance(eff, list):
        return all(instantiable(e) for e in eff)
    if isinstance(eff, dict) and "obj" in eff:
        if inspect.isclass(eff["obj"]) and inspect.isabstract(eff["obj"]):
            return False
        if eff["dk"]:
            try:
                inspect.signature(eff["obj"]).bind(**{**eff["args"], **eff["dk"]})
            except TypeError:
                return False
        return all(instantiable(v) for v in eff["args"].values())
    if isinstance(eff, dict) and "inst" not in eff:
        return all(instantiable(v) for v in eff.values())
    return True


def describe(eff):
    """JSON-able rendering of an effective configuration (for details and comparison)."""
    if isinstance(eff, list):
        return [describe(e) for e in eff]
    if isinstance(eff, dict) and "obj" in eff:
        o = eff["obj"]
        out = {"class": f"{o.__module__}.{o.__qualname__}", "args": {k: describe(v) for k, v in eff["args"].items()}}
        if eff["dk"]:
            out["dict_kwargs"] = {k: describe(v) for k, v in eff["dk"].items()}
        return out
    if isinstance(eff, dict) and "inst" in eff:
        return {"instance": f"{type(eff['inst']).__qualname__}@{_inst_name(eff['inst'])}"}
    if isinstance(eff, dict):
        return {"__dict__": {k: describe(v) for k, v in eff.items()}}
    if isinstance(eff, bool) or eff is None or isinstance(eff, (int, str)):
        return ["v", type(eff).__name__, eff]
    return ["?", repr(eff)]


def _inst_name(obj):
    for k, v in vars(fam()).items():
        if v is obj:
            return k
    return "?"
