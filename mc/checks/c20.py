"""C20 - restricted and registered scalar types validate exactly, serialise losslessly.

Bounded exhaustive product exploration on the real code, four parts (helpers in c20_*.py):

  A  restricted numbers: every restriction set (1..2 / 1..3 comparisons over 6 operators x 4 references, and/or,
     int/float) x the whole candidate grid x {direct call, argv, parse_object} against an independent predicate
     evaluated in exact arithmetic on the intended meaning of each candidate; idempotence of the cast.
  B  restricted strings: patterns (anchored, unanchored, empty-matching, multi-line, compiled with flags, the two
     predefined ones) x all strings of <= 2 / <= 3 tokens x the same channels, against hand-written language
     predicates cross-checked with re.match.
  C  registered types: product value grids x parser mode x dump format x {config string, config file, object,
     argv}: parse(serialise(v)) is typed-equal to v.
  D  secret strings: secret text x secret type x type wrapper x way of supplying it x every output the parser
     produces (dumps, --print_config, save, help, repr/str, error messages of neighbouring invalid keys).
"""
from __future__ import annotations

META = {
    "id": "C20",
    "level": "exploration",
    "engine": "bounded exhaustive product enumeration on the real types and parsers (mc/checks/c20*.py)",
    "technique": "exhaustive product of restriction sets / patterns / registered-type value grids x candidate "
    "values x channels, judged by an independent exact-arithmetic predicate and by parse(serialise(v)) == v",
    "level_text": "Every member of the stated finite product (all restriction sets up to the bound x the whole "
    "candidate grid x every channel; every value of every registered-type grid x mode x format x channel; every "
    "secret x wrapper x supply x output) is executed on the real implementation and judged; nothing is sampled. "
    "The verdict is exhaustive within the stated alphabets and says nothing beyond them.",
    "level_note": "Trusted: the candidate generators (what a rendered text denotes is fixed by construction), the "
    "exact-arithmetic comparison, the hand-written pattern languages (cross-checked against re.match on every "
    "string), the types' own == for registered values (range: start/stop/step), Python's json module to read the "
    "serialised form back as an object. One parser per type is reused across candidates (history independence of "
    "a parser is C09's claim); every reported witness is re-executed on fresh objects.",
    "design_ref": "DESIGN.md §5 C20",
}


def run_case(case):
    part = case.get("part")
    if part == "num":
        from mc.checks import c20_num

        return c20_num.run_case(case)
    if part == "str":
        from mc.checks import c20_str

        return c20_str.run_case(case)
    if part == "reg":
        from mc.checks import c20_reg

        return c20_reg.run_case(case)
    if part == "secret":
        from mc.checks import c20_secret

        return c20_secret.run_case(case)
    raise ValueError(f"unknown case part {part!r}")


def _slices(n, size):
    return [(lo, min(n, lo + size)) for lo in range(0, n, size)]


def explore(ctx):
    tier = ctx.tier
    tot = {"evals": 0, "ops": 0, "inputs": 0, "nontrivial": 0}
    bounds = {}

    def add(res):
        for sig, case, detail in res["devs"]:
            ctx.deviation(sig, case, detail)
        for k in tot:
            tot[k] += res.get(k, 0)

    import os

    parts = {"A": _part_a, "B": _part_b, "C": _part_c, "D": _part_d}
    selected = os.environ.get("VERIF_C20_PARTS", "ABCD")  # development aid only; a partial run is reported as such
    for name in "ABCD":
        if name in selected:
            parts[name](ctx, tier, tot, bounds, add)
    _finish(ctx, tot, bounds, selected)


def _part_a(ctx, tier, tot, bounds, add):
    from mc.checks import c20_num

    specs = c20_num.type_specs(tier)
    a = {"accepted": 0, "rej_restr": 0, "rej_conv": 0, "predef": set(), "branches": set(), "types": 0}
    for res in ctx.pmap(c20_num.run_type, [(s, tier) for s in specs]):
        add(res)
        a["types"] += 1
        for k in ("accepted", "rej_restr", "rej_conv"):
            a[k] += res[k]
        if res["predef"]:
            a["predef"].add(res["predef"])
        a["branches"] |= res["branches"]
    bounds["numbers"] = {
        "comparisons_per_set": [1, 2] if ctx.quick else [1, 2, 3],
        "operators": c20_num.OPS,
        "references": c20_num.REFS,
        "joins": ["and", "or"],
        "restriction_sets": len(specs),
        "candidates_per_base": {b: len(c20_num.candidates(b, tier)) for b in ("int", "float")},
        "channels": ["direct", "argv (text candidates)", "parse_object"],
    }
    ctx.count("num.types", a["types"])
    ctx.count("num.evaluations", tot["evals"])
    ctx.count("num.accepted", a["accepted"])
    ctx.count("num.rejected_by_restriction", a["rej_restr"])
    ctx.count("num.rejected_by_conversion", a["rej_conv"])
    ctx.sample({"part": "num", "spec": specs[0], "cand": c20_num.candidates(specs[0]["base"], tier)[2]})
    ctx.sample({"part": "num", "spec": specs[-1], "cand": c20_num.candidates(specs[-1]["base"], tier)[40]})
    ctx.require(a["types"] == len(specs), "every restriction set was explored")
    ctx.require(a["predef"] == set(c20_num.PREDEF), "all six predefined restricted number types are in the product")
    ctx.require(a["accepted"] > 1000 and a["rej_restr"] > 1000 and a["rej_conv"] > 1000,
                "restricted numbers: accepted, rejected-by-restriction and rejected-by-conversion cases all occur")
    for cls in ("int", "float-integral", "float-fraction", "str-intlit", "str-floatlit"):
        ctx.require(("accept", cls) in a["branches"] and ("reject", cls) in a["branches"],
                    f"restricted numbers: candidates of class {cls} are both accepted and rejected")



def _part_b(ctx, tier, tot, bounds, add):
    from mc.checks import c20_str

    strings = c20_str.strings(tier)
    b = {"accepted": 0, "rejected": 0, "relations": {}}
    before = tot["evals"]
    items = [(pid, tier, lo, hi) for pid in c20_str.PATTERNS for lo, hi in _slices(len(strings), 400)]
    for (res) in ctx.pmap(c20_str.run_pattern, items):
        add(res)
        b["accepted"] += res["accepted"]
        b["rejected"] += res["rejected"]
    hist = {"n": 0, "refused": 0}
    for res in ctx.pmap(c20_str.run_history, [(hid, tier) for hid in range(len(c20_str.HISTORIES))]):
        add(res)
        b["accepted"] += res["accepted"]
        b["rejected"] += res["rejected"]
        hist["n"] += res["hist"]
        hist["refused"] += res["refused"]
    ctx.count("str.creation_histories", hist["n"])
    ctx.count("str.creation_histories_refused_evaluations", hist["refused"])
    ctx.require(hist["n"] == len(c20_str.HISTORIES), "restricted strings: every creation history was explored")
    for pid in c20_str.PATTERNS:
        b["relations"][pid] = sorted({c20_str.relation(pid, s) for s in strings})
    bounds["strings"] = {
        "patterns": {pid: p[1] for pid, p in c20_str.PATTERNS.items()},
        "tokens": c20_str.TOKENS,
        "max_tokens": 2 if ctx.quick else 3,
        "strings": len(strings),
        "channels": ["direct", "argv", "parse_object"],
        "creation_histories": {"bases": {k: v[0] for k, v in c20_str.HIST_BASES.items()}, "forms": c20_str.HIST_FORMS,
                               "histories": len(c20_str.HISTORIES), "strings": "the quick grid", "channel": "direct"},
    }
    ctx.count("str.evaluations", tot["evals"] - before)
    ctx.count("str.accepted", b["accepted"])
    ctx.count("str.rejected", b["rejected"])
    ctx.sample({"part": "str", "pattern": "lower-prefix", "value": strings[len(strings) // 2]})
    ctx.require(b["accepted"] > 500 and b["rejected"] > 500, "restricted strings: accepted and rejected cases occur")
    ctx.require(
        any("match-later-only" in r for r in b["relations"].values())
        and any("prefix-match-only" in r for r in b["relations"].values()),
        "restricted strings: strings that only search() / only a prefix would match are in the grid",
    )
    ctx.require(all("fullmatch" in r for r in b["relations"].values()), "every pattern accepts some string of the grid")



def _part_c(ctx, tier, tot, bounds, add):
    from mc.checks import c20_reg

    c = {"shapes": {}, "values": {}, "ok": 0}
    before = tot["evals"]
    items = []
    for tname in c20_reg.TYPES:
        n = len(c20_reg.values(tname, tier))
        c["values"][tname] = n
        items += [(tname, tier, lo, hi) for lo, hi in _slices(n, 8)]
    for res in ctx.pmap(c20_reg.run_values, items):
        add(res)
        c["ok"] += res["ok"]
        c["shapes"].setdefault(res["tname"], set()).update(res["shapes"])
    bounds["registered"] = {
        "values_per_type": c["values"],
        "modes": ["yaml", "json"],
        "formats": {m: c20_reg.formats(m, tier) for m in ("yaml", "json")},
        "channels": ["config string", "config file (--cfg)", "parse_object of the serialised form", "argv --x=<serialised>"],
    }
    ctx.count("reg.evaluations", tot["evals"] - before)
    ctx.count("reg.roundtrips_equal", c["ok"])
    for tname in ("range", "timedelta", "Decimal", "bytes"):
        ctx.sample({"part": "reg", "type": tname, "value": c20_reg.values(tname, tier)[7], "mode": "yaml", "tier": tier})
    ctx.require(set(c["shapes"]) == set(c20_reg.TYPES), "every registered type was explored")
    ctx.require({"negative", "negative+subsecond", "days+subsecond"} <= c["shapes"]["timedelta"],
                "timedelta grid contains negative, multi-day and sub-second values")
    ctx.require({"empty", "negative-step", "single-element-with-step", "step1-start0"} <= c["shapes"]["range"],
                "range grid contains empty, negative-step, one-element and plain ranges")
    ctx.require({"empty", "b64-all-digits", "b64-number-like", "b64-keyword-like"} <= c["shapes"]["bytes"],
                "bytes grid contains empty values and values whose base64 text looks like a number / keyword")
    ctx.require({"float-exact", "float-repr-exact", "float-lossy", "nan", "infinite"} <= c["shapes"]["Decimal"],
                "Decimal grid contains float-exact, short and high-precision, nan and infinite values")
    ctx.require({"zero-part", "nonfinite-part", "finite"} <= c["shapes"]["complex"], "complex grid shapes")
    ctx.require(c["ok"] > 5000, "registered types: more than 5000 round trips returned the value")



def _part_d(ctx, tier, tot, bounds, add):
    from mc.checks import c20_secret

    d = {"skipped": {}, "produced": set(), "held": 0}
    before = tot["evals"]
    cases = c20_secret.cases(tier)
    for res in ctx.pmap(c20_secret.run_batch, [cases[lo:hi] for lo, hi in _slices(len(cases), 6)]):
        add(res)
        tot["nontrivial"] += res["evals"]
        d["skipped"].update(res["skipped"])
        d["produced"] |= res["produced"]
        d["held"] += res["held"]
    bounds["secrets"] = {
        "secret_texts": c20_secret.secrets(tier),
        "secret_types": c20_secret.SECRET_TYPES,
        "wrappers": c20_secret.WRAPPERS,
        "supplies": c20_secret.SUPPLIES,
        "modes": c20_secret.MODES,
        "cases": len(cases),
        "not_applicable": d["skipped"],
    }
    ctx.count("secret.evaluations", tot["evals"] - before)
    ctx.count("secret.cases_with_secret_held", d["held"])
    ctx.sample(cases[0])
    ctx.sample(cases[-1])
    ctx.require(d["held"] >= 0.8 * len(cases), "secrets: the secret is really held by the parsed config in >= 80% of the cases")
    ctx.require({"dump", "save", "repr", "print_config", "help", "error-neighbour", "error-unknown-key",
                 "error-sibling-field"} <= d["produced"], "secrets: every output class was produced")



def _finish(ctx, tot, bounds, selected):
    ctx.cover(
        evaluations=tot["evals"],
        states=tot["inputs"],
        transitions=tot["ops"],
        traces_validated_against_impl=tot["ops"],
        distinct_nontrivial=tot["nontrivial"],
        rule="a case is one (type, value, channel/format/output) tuple executed on the real code and judged by the "
        "oracle; all cases are distinct by construction (products without repetition). Non-trivial: restricted "
        "numbers - the candidate converts to the base type, so the verdict is decided by the comparisons (accepted, "
        "or rejected by the restriction; rejections of junk are trivial); restricted strings - non-empty strings in "
        "which the pattern matches somewhere; registered types - values other than the type's zero value; secrets - "
        "every produced output of a case in which the parsed config really holds the secret",
        exhaustive=selected == "ABCD",
        bounds=bounds,
        caps_hit=[] if selected == "ABCD" else [f"development run restricted to parts {selected}"],
    )
    ctx.assume("the meaning of a rendered numeric text is the one the generator built it from (Python literal rules)")
    ctx.assume("values of registered types are compared with the type's own == plus exact type (range: also start/stop/step)")
