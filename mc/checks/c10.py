"""C10 - parse results are fixed points: re-parsing or validating changes nothing.

Explicit-state search per configuration on the real parser.  Initial states: every configuration the real parse
methods return for the enumerated (parser spec x input value x channel) space (mc/checks/c10_space.py),
deduplicated per parser on a complete canonical form.  Transitions from a state c:

    validate      parser.validate(c)                      must not raise, must not modify c
    object        parser.parse_object(deepcopy(c))
    dict          parser.parse_object(deepcopy(c.as_dict()))
    yaml / json   parser.parse_string(parser.dump(c, format=..., skip_none=False))

Invariant: every transition is a self-loop under typed equality (exact Python type and value at every level; Path
objects also by their resolved absolute path) and the dump texts (yaml and json) of the successor are
byte-identical to those of c - i.e. the reachable set of every initial state is the singleton {c}.  When an edge
leaves c the search continues (all transitions, total depth 3) only to classify the counterexample as
converges / oscillates / diverges / then-raises; the class is part of the signature.

On the two object edges the successor must also carry the same metadata (__path__ of values loaded from a file of
their own, __default_config__): the complete result is what is handed to parse_object, and results that differ only
there compare unequal.  Besides the input channels the space has three axes that make states no text input reaches:
values given as already typed Python objects built by the Python constructors ("object-native" channel, "native"
declared defaults); an ambient process environment read by default_env parsers during the first parse AND every
transition; values that live in a file of their own (enable_path).  Further axes: arguments declared with nargs (the
value is a list of items; every item / one item of several given by file name -> metadata inside list items); signed
number lookalikes among the str values.  Side check (not an edge of the search): for the states in which the input gives
None where the parser declares a non-None default, dump() with its DEFAULT options (skip_none=True) -> parse_string ->
dump() must be byte-identical as well.

One fresh parser is built per input (first parse) and one per initial state (all its transitions); every object
handed to the library is a private deep copy.  Deviations are attributed to a root cause by differential probes
(same text with the yaml spelling of non-finite floats; the member type of a Union alone; the defaults-only
configuration parsed twice) so that one root cause has one signature.
"""
from __future__ import annotations

import argparse
import copy
import enum
import json
import math
import os

from mc.checks import c10_space as S

META = {
    "id": "C10",
    "level": "model_checking",
    "engine": "explicit-state search over configurations of the real ArgumentParser (mc/checks/c10.py)",
    "technique": "explicit-state search with canonical state hashing: every configuration returned for the enumerated "
    "parser x value x channel space is an initial state; all re-parse / round-trip / validate transitions are executed "
    "on the real parser and must be self-loops (typed equality + byte-identical dumps); counterexamples are followed to "
    "depth 3 and classified",
    "level_text": "For every parser of the stated grammar and every input of the stated pools through every channel, "
    "the configuration actually returned is taken as a state and ALL transitions of the property (validate, "
    "parse_object of the namespace and of its dict form, yaml and json dump->parse_string) are executed on the real "
    "code; the reachable set of each state is computed by search with state hashing and required to be the singleton. "
    "The verdict is exhaustive over the enumerated finite space; nothing is sampled.",
    "level_note": "Trusted: the canonical form (typed, complete: key order, Path cwd, function identity, metadata keys) used for state "
    "hashing and equality; dump as a deterministic function of (parser, configuration) (C09 checks history "
    "independence). Bounded by the type grammar depth, the value pools and the parser shapes listed in the evidence.",
    "design_ref": "DESIGN.md §5 C10",
}

MARK = "\u200b"
PARSE_OPS = ["object", "dict", "yaml", "json"]
SIG_JSON_NONFINITE = "json:non-finite-float:not-read-back-by-yaml-mode-parser"
SIG_DECIMAL = "text:Decimal:serialised-through-float"
SIG_DEFAULT = "reparse:declared-default-not-normalised-by-first-parse"
SIG_UNION = "text:Union:value-serialised-by-a-member-type-it-does-not-belong-to"
SIG_OPTNULL = "text:Optional:text-of-a-non-None-value-is-read-as-None"
SIG_DEFTEXT = "text:value-whose-text-equals-the-declared-default:returned-unconverted"
SIG_SUBDCF = "text:sub-command-named-by-the-default-config-file-wins-over-the-dumped-one"
SIG_DKW = "reparse:class-spec:dict_kwargs-of-the-declared-default-merged-into-the-given-ones"
SIG_NSNAME = "text:argument-named-like-a-Namespace-attribute:config-text-not-run-through-the-type"
SIG_SETORDER = "reparse:Set:dump-order-follows-the-insertion-history-of-the-set"
SIG_SKIPNONE = "text:default-dump-options:None-given-over-a-non-None-default-is-omitted-and-comes-back-as-the-default"
DEPTH = 3

# ---------------------------------------------------------------------------------------------------
# canonical form (typed, complete) and typed difference


def _is_jpath(v):
    t = type(v)
    return getattr(t, "__module__", "").startswith("jsonargparse") and hasattr(v, "relative") and hasattr(v, "absolute")


def ccanon(v, ordered=False, _depth=0):
    """JSON-able canonical form: equal iff same value AND same exact type at every level.  Distinguishes
    1 / 1.0 / True, tuple / list, Namespace / dict; nan == nan; jsonargparse Path objects by relative AND absolute
    path and mode; functions / classes by import path.  ordered=True additionally keeps key and set order."""
    if _depth > 40:
        return ["<too deep>"]
    d = _depth + 1
    if v is None:
        return None
    t = type(v)
    if t is bool:
        return ["bool", v]
    if t is int:
        return ["int", str(v)]
    if t is float:
        if math.isnan(v):
            return ["float", "nan"]
        return ["float", repr(v)]
    if t is str:
        return v
    if t in (bytes, bytearray):
        return [t.__name__, v.hex()]
    if t is list:
        return ["list", [ccanon(x, ordered, d) for x in v]]
    if t is tuple:
        return ["tuple", [ccanon(x, ordered, d) for x in v]]
    if t in (set, frozenset):
        items = [ccanon(x, ordered, d) for x in v]
        if not ordered:
            items.sort(key=lambda c: json.dumps(c, sort_keys=True, default=repr))
        return [t.__name__, items]
    if isinstance(v, argparse.Namespace):
        items = [(k[1:] if k[:1] == MARK else k, ccanon(x, ordered, d)) for k, x in vars(v).items()]
        if ordered:
            return [t.__name__, [[k, x] for k, x in items]]
        return [t.__name__, {k: x for k, x in sorted(items)}]
    if isinstance(v, dict) or t.__name__ == "mappingproxy":
        items = [(ccanon(k, ordered, d), ccanon(x, ordered, d)) for k, x in v.items()]
        if not ordered:
            items.sort(key=lambda kv: json.dumps(kv[0], sort_keys=True, default=repr))
        return [t.__name__, [[k, x] for k, x in items]]
    if isinstance(v, enum.Enum):
        return ["enum", t.__qualname__, v.name]
    if t is complex:
        return ["complex", ccanon(v.real, ordered, d), ccanon(v.imag, ordered, d)]
    mod = getattr(t, "__module__", "")
    if mod == "decimal":
        return ["Decimal", "nan" if v.is_nan() else str(v)]
    if _is_jpath(v):
        return ["jsonargparse.Path", t.__name__, str(v.relative), str(v.absolute), getattr(v, "mode", None)]
    if mod == "pathlib":
        return ["pathlib", t.__name__, str(v)]
    if mod in ("datetime", "uuid") or t is range:
        return [t.__name__, repr(v)]
    if isinstance(v, type):
        return ["class", f"{v.__module__}.{v.__qualname__}"]
    if callable(v) and hasattr(v, "__qualname__"):
        return ["function", f"{getattr(v, '__module__', '?')}.{v.__qualname__}"]
    if isinstance(v, (int, float, str)):  # subclasses of scalars (restricted types)
        return [f"{mod}.{t.__qualname__}", repr(v)]
    if hasattr(v, "__dict__"):
        return ["obj", f"{mod}.{t.__qualname__}", {k: ccanon(x, ordered, d) for k, x in sorted(vars(v).items())}]
    return ["obj", f"{mod}.{t.__qualname__}", repr(v)]


def ckey(v, ordered=False):
    return json.dumps(ccanon(v, ordered), sort_keys=not ordered, default=repr)


def kind(v):
    if v is None:
        return "None"
    t = type(v)
    if t is float:
        if v != v:
            return "float(nan)"
        if v in (math.inf, -math.inf):
            return "float(inf)"
        return "float"
    if isinstance(v, argparse.Namespace):
        return "Namespace"
    if isinstance(v, enum.Enum):
        return "enum"
    if _is_jpath(v):
        return "Path"
    mod = getattr(t, "__module__", "")
    if mod == "pathlib":
        return "pathlib"
    if isinstance(v, type):
        return "class"
    if callable(v) and hasattr(v, "__qualname__"):
        return "function"
    if isinstance(v, (int, float, str)) and t not in (int, float, str, bool):
        return f"{t.__mro__[-2].__name__}-subclass" if len(t.__mro__) > 2 else t.__name__
    return t.__name__


NUMERIC = {"bool", "int", "float"}


def _items(v):
    if isinstance(v, argparse.Namespace):
        return {(k[1:] if k[:1] == MARK else k): x for k, x in vars(v).items()}
    return dict(v)


def all_diffs(a, b, path=(), out=None):
    """All typed differences between two configurations: list of (path tuple, class, value in a, value in b)."""
    out = [] if out is None else out
    if len(out) >= 12 or ckey(a) == ckey(b):
        return out
    ka, kb = kind(a), kind(b)
    if ka != kb:
        out.append((path, f"{ka}->{kb}", a, b))
        return out
    if isinstance(a, (argparse.Namespace, dict)) or type(a).__name__ == "mappingproxy":
        da, db = _items(a), _items(b)
        ca = {ckey(k): k for k in da}
        cb = {ckey(k): k for k in db}
        lost = [ca[c] for c in ca if c not in cb]
        added = [cb[c] for c in cb if c not in ca]
        if len(lost) == 1 and len(added) == 1 and kind(lost[0]) != kind(added[0]):
            out.append((path, f"{ka}-key:{kind(lost[0])}->{kind(added[0])}", lost[0], added[0]))
        elif len(lost) == 1 and len(added) == 1:
            out.append((path, f"{ka}-key:{kind(lost[0])}:value", lost[0], added[0]))
        else:
            for k in lost:
                out.append((path + (k,), "key-lost", da[k], None))
            for k in added:
                out.append((path + (k,), "key-added", None, db[k]))
        n = len(out)
        for c, k in ca.items():
            if c in cb:
                all_diffs(da[k], db[cb[c]], path + (k,), out)
        if len(out) == n and not lost and not added:
            out.append((path, f"{ka}:value", a, b))
        return out
    if isinstance(a, (list, tuple)):
        if len(a) != len(b):
            out.append((path, f"{ka}:length", a, b))
            return out
        n = len(out)
        for i, (x, y) in enumerate(zip(a, b)):
            all_diffs(x, y, path + (i,), out)
        if len(out) == n:
            out.append((path, f"{ka}:value", a, b))
        return out
    if isinstance(a, (set, frozenset)):
        ca = {ckey(x): x for x in a}
        cb = {ckey(x): x for x in b}
        lost = [ca[c] for c in ca if c not in cb]
        added = [cb[c] for c in cb if c not in ca]
        if len(lost) == 1 and len(added) == 1:  # one member replaced: describe the member
            return all_diffs(lost[0], added[0], path + ("{member}",), out)
        out.append((path, f"{ka}:members", a, b))
        return out
    if ka == "Path":
        if str(a.relative) == str(b.relative) and str(a.absolute) != str(b.absolute):
            out.append((path, "Path:rebased", a, b))
        elif str(a.absolute) == str(b.absolute) and str(a.relative) != str(b.relative):
            out.append((path, "Path:respelled", a, b))
        else:
            out.append((path, "Path:value", a, b))
        return out
    if type(a) is not type(b):
        out.append((path, f"{ka}:type", a, b))
    else:
        out.append((path, f"{ka}:value", a, b))
    return out


def pstr(path):
    return ".".join(str(x) for x in path)


def lookup(v, path):
    """Value at a path (keys / sequence indices) below a configuration; (False, None) when absent."""
    cur = v
    for seg in path:
        if isinstance(seg, int):
            if not isinstance(cur, (list, tuple)) or seg >= len(cur):
                return False, None
            cur = cur[seg]
            continue
        if isinstance(cur, argparse.Namespace):
            d = _items(cur)
        elif isinstance(cur, dict) or type(cur).__name__ == "mappingproxy":
            d = cur
        else:
            return False, None
        if seg not in d:
            return False, None
        cur = d[seg]
    return True, cur


def leaf_kinds(v, out=None, _d=0):
    out = set() if out is None else out
    if _d > 30:
        return out
    if isinstance(v, argparse.Namespace):
        for x in vars(v).values():
            leaf_kinds(x, out, _d + 1)
    elif isinstance(v, dict):
        for x in v.values():
            leaf_kinds(x, out, _d + 1)
    elif isinstance(v, (list, tuple, set, frozenset)):
        for x in v:
            leaf_kinds(x, out, _d + 1)
    elif type(v) is complex:
        leaf_kinds(v.real, out, _d + 1)
        leaf_kinds(v.imag, out, _d + 1)
    else:
        out.add(kind(v))
    return out


def dcopy(v):
    """Private deep copy of a configuration (copy.deepcopy cannot copy a mappingproxy)."""
    import types

    try:
        return copy.deepcopy(v)
    except TypeError:
        pass
    if isinstance(v, argparse.Namespace):
        n = type(v)()
        for k, x in vars(v).items():
            vars(n)[k] = dcopy(x)
        return n
    if isinstance(v, types.MappingProxyType):
        return types.MappingProxyType(dcopy(dict(v)))
    if isinstance(v, dict):
        return type(v)((dcopy(k), dcopy(x)) for k, x in v.items())
    if isinstance(v, (list, tuple, set, frozenset)):
        return type(v)(dcopy(x) for x in v)
    return v


def short(v, n=200):
    r = repr(v)
    return r if len(r) <= n else r[: n - 3] + "..."


# ---------------------------------------------------------------------------------------------------
# one parser spec: environment (scratch directory, default object, parser factory)


def legit_raw(raw, typed, top=True):
    """Is the raw JSON value something a user may legitimately declare as default of the type, given what the
    parser itself makes of it (`typed`)?  Identical; a top-level string (argparse converts string defaults);
    an int where a float is declared (numeric tower); a plain scalar where the type is a restricted subclass of it;
    containers of the same kind element-wise."""
    if ckey(raw, True) == ckey(typed, True):
        return True
    if top and isinstance(raw, str):
        return True
    if type(raw) is int and type(typed) is float and raw == typed:
        return True
    if type(raw) in (int, float, str) and isinstance(typed, type(raw)) and typed == raw:
        return True
    if type(raw) is list and type(typed) is list and len(raw) == len(typed):
        return all(legit_raw(x, y, False) for x, y in zip(raw, typed))
    if type(raw) is list and type(typed) is tuple and len(raw) == len(typed):
        # the sloppy but common spelling: a list written as the default of a Tuple argument
        return all(legit_raw(x, y, False) for x, y in zip(raw, typed))
    if type(raw) is dict and type(typed) is dict and list(raw) == list(typed):
        return all(legit_raw(raw[k], typed[k], False) for k in raw)
    return False


class Env:
    """Everything rebuilt from a parser spec inside a scratch directory (the cwd for the duration)."""

    def __init__(self, spec, cwd):
        self.spec, self.cwd = spec, cwd
        self.mode = spec.get("mode", "yaml")
        self.ops = ["validate"] + [op for op in PARSE_OPS if not (self.mode == "json" and op == "yaml")]
        self.formats = [op for op in ("yaml", "json") if op in self.ops]
        self.has_default = spec["default"] != S.UNSET
        self.dobj = None
        self.status = "ok"
        self.parses = 0
        self._p = None
        self.ambient = {}
        if "ambient" in spec:
            # the process environment of this parser spec: set once, in force for the first parse and for every
            # transition (run_task restores os.environ afterwards)
            self.ambient, files = S.ambient_env(spec, S.subst(copy.deepcopy(spec["ambient"]), cwd), cwd)
            if any("\x00" in v for v in self.ambient.values()):
                self.status = "ambient-value-not-expressible"
                return
            for name, text in files.items():  # the config file the environment names; stays for the life of the spec
                with open(os.path.join(cwd, name), "w") as fh:
                    fh.write(text)
            os.environ.update(self.ambient)
        if self.has_default:
            raw = S.subst(copy.deepcopy(spec["default"]), cwd)
            if spec.get("dform") == "native":
                self.dobj = ("native", raw)
            elif S.is_classlike(spec["type"]):
                self.dobj = ("factory", raw)
            else:
                from mc.util import outcome

                hp = S._new(self.mode, config=False)
                hp.add_argument("--x", type=S.build_type(spec["type"]), **({"nargs": spec["nargs"]} if "nargs" in spec else {}))
                o = outcome(hp.parse_object, {"x": dcopy(raw)})
                self.parses += 1
                if o["kind"] != "ok":
                    self.status = "default-not-accepted"
                    return
                typed = o["value"].x
                if spec.get("dform") == "typed":
                    self.dobj = ("value", typed)
                    if ckey(typed, True) == ckey(raw, True):
                        self.status = "typed-default-same-as-raw"  # the raw variant of this spec covers it
                        return
                else:
                    self.dobj = ("value", raw)
                    if not legit_raw(raw, typed):
                        self.status = "raw-default-is-not-a-value-of-the-type"
                        return
        try:
            self.mk()
        except Exception as ex:  # a parser that cannot be built has no configurations
            self.status = "parser-not-buildable:" + type(ex).__name__

    def p(self):
        """The parser used for all transitions of the state under search (one fresh parser per initial state)."""
        if self._p is None:
            self._p = self.mk()
        return self._p

    def mk(self):
        if not self.has_default:
            return S.build_parser(self.spec, None, False)
        how, d = self.dobj
        if how == "native":
            d = S.realise(copy.deepcopy(d))
        else:
            d = S.realise_default(copy.deepcopy(d)) if how == "factory" else dcopy(d)
        return S.build_parser(self.spec, d, True)


FIXTURE_DIRS = ["d", "sub", "sub/d", "w"]
FIXTURE_FILES = ["f.txt", "d/g.txt", "sub/f.txt", "sub/d/g.txt"]


def make_fixture_tree():
    for d in FIXTURE_DIRS:
        os.makedirs(d, exist_ok=True)
    for f in FIXTURE_FILES:
        with open(f, "w") as fh:
            fh.write("content\n")


def call_input(env, channel, value):
    """Run one input through its channel on a fresh parser.  -> (outcome dict or None, text_cwd)"""
    from mc.util import outcome

    r = S.render(env.spec, channel, value, env.cwd)
    if r is None:
        return None, None
    method, arg, files, text_cwd = r
    for name, text in files.items():
        with open(name, "w") as fh:
            fh.write(text)
    try:
        p = env.mk()
        env.parses += 1
        if method == "parse_env":
            o = outcome(p.parse_env, dict(arg))
        else:
            o = outcome(getattr(p, method), arg)
    finally:
        pass
    return o, text_cwd


def cleanup_input_files():
    for name in (S.CONF, S.DCF, S.VAL, *S.NARGS_ITEM_FILES):
        if os.path.exists(name):
            os.remove(name)


# ---------------------------------------------------------------------------------------------------
# transitions


def _strip(c):
    import jsonargparse

    return jsonargparse.strip_meta(c) if isinstance(c, argparse.Namespace) else c


def _drop_cfg(c):
    c = c.clone()
    c.pop("cfg", None)
    return c


class Node:
    """A configuration as a search state."""

    def __init__(self, env, cfg, text_cwd):
        self.cfg = cfg
        self.view = _strip(cfg)
        self.key = ckey(self.view)
        self.okey = ckey(self.view, True)
        self.key_nocfg = ckey(_drop_cfg(self.view))
        self.mkey = ckey(cfg)  # complete form: values AND metadata (__path__, __default_config__) at every level
        self.text_cwd = text_cwd
        self._dumps = {}
        self.has_set = _has_set(cfg)

    def dump(self, env, fmt):
        from mc.util import outcome

        if fmt not in self._dumps:
            env.dumps += 1
            # a copy rebuilds the hash table of a set and so erases exactly the insertion history that the dump order
            # of a set can depend on: states that hold a set are dumped as they were returned
            arg = self.cfg if self.has_set else dcopy(self.cfg)
            self._dumps[fmt] = outcome(env.p().dump, arg, format=fmt, skip_none=False)
        return self._dumps[fmt]


def _has_set(v):
    if isinstance(v, (set, frozenset)):
        return True
    if isinstance(v, argparse.Namespace):
        v = vars(v)
    if isinstance(v, dict):
        return any(_has_set(x) for x in v.values())
    if isinstance(v, (list, tuple)):
        return any(_has_set(x) for x in v)
    return False


def _norm_sets(view, data):
    """`data` (loaded dump text) with every list that sits where `view` holds a set put in a canonical order."""
    if isinstance(view, (set, frozenset)) and isinstance(data, list):
        return sorted(data, key=repr)
    if isinstance(view, argparse.Namespace):
        view = vars(view)
    if isinstance(view, dict) and isinstance(data, dict):
        byname = {str(k).lstrip("\u200b"): x for k, x in view.items()}
        return {k: _norm_sets(byname.get(str(k)), x) for k, x in data.items()}
    if isinstance(view, (list, tuple)) and isinstance(data, list) and len(view) == len(data):
        return [_norm_sets(a, b) for a, b in zip(view, data)]
    return data


def _set_order_root_cause(root, d0, d1):
    """The two dump texts differ only in the order of the members of sets."""
    import yaml

    if not root.has_set or not isinstance(d0, str) or not isinstance(d1, str):
        return False
    try:
        a, b = yaml.safe_load(d0), yaml.safe_load(d1)
    except Exception:
        return False
    return a != b and _norm_sets(root.view, a) == _norm_sets(root.view, b)


def _sub_dcf_root_cause(env, root, text):
    """Sub-command parser with a default config file: True when the same text, read by the same parser while the
    default config file is absent, gives the root back - i.e. the dump is complete except that it does not say which
    sub-command was selected, and the default config file fills that gap with ITS sub-command."""
    if not env.spec.get("dcf") or env.spec["shape"] not in S.SUB_PATHS or text is None or not os.path.exists(S.DCF):
        return False
    os.rename(S.DCF, S.DCF + ".away")
    try:
        o = _parse_text(env, root, text)
    finally:
        os.rename(S.DCF + ".away", S.DCF)
    return o["kind"] == "ok" and isinstance(o["value"], argparse.Namespace) and ckey(_drop_cfg(_strip(o["value"]))) == root.key_nocfg


def _dict_kwargs_root_cause(path, what, vb, baselines):
    """parse_object adds, below a `dict_kwargs` key, an entry that the declared default holds at the same place."""
    if what != "key-added" or "dict_kwargs" not in path[:-1] or baselines[0] is None:
        return False
    ok, d = lookup(baselines[0], tuple(x for x in path if x != "{member}"))
    return ok and ckey(d) == ckey(vb)


def _namespace_name_root_cause(env, path, a, b):
    """The top-level key is also an attribute name of the Namespace class and its value is not converted when it comes
    from a config text / object: the same type, declared for an argument with an ordinary name, turns the value on one
    side of the edge into the value on the other side (in either direction: the root may be the unconverted one)."""
    from jsonargparse import Namespace
    from mc.util import outcome

    if not path or not isinstance(path[0], str) or not hasattr(Namespace, path[0].lstrip("\u200b")):
        return False
    ok1, va = lookup(a, path[:1])
    ok2, vb = lookup(b, path[:1])
    if not (ok1 and ok2):
        return False
    spec2 = {"shape": "flat", "type": env.spec["type"], "default": S.UNSET, "dform": "raw", "mode": env.mode}
    for src, dst in ((vb, va), (va, vb)):
        try:
            o = outcome(S.build_parser(spec2, None, False).parse_object, {"x": dcopy(src)})
        except Exception:
            continue
        if o["kind"] == "ok" and ckey(o["value"].x) == ckey(dst):
            return True
    return False


def _exc(o):
    if o["kind"] == "escape":
        return o["type"].rsplit(".", 1)[-1]
    if o["kind"] == "exit":
        return f"exit{o.get('code')}"
    return o["kind"]


def step(env, node, op):
    """Execute one transition on the real parser.  -> dict(result=..., succ=Node or None, ...)"""
    from mc.util import outcome

    env.transitions += 1
    c = node.cfg
    if op == "validate":
        arg = dcopy(c)
        before = ckey(arg, True)
        o = outcome(env.p().validate, arg)
        if o["kind"] != "ok":
            return {"res": "raises", "stage": "validate", "exc": _exc(o), "msg": o.get("message", "")}
        if ckey(arg, True) != before:
            return {"res": "mutates", "stage": "validate"}
        return {"res": "same"}
    if op in ("object", "dict"):
        arg = dcopy(c) if op == "object" else dcopy(c.as_dict())
        o = outcome(env.p().parse_object, arg)
        text = None
    else:
        od = node.dump(env, op)
        if od["kind"] != "ok":
            return {"res": "raises", "stage": "dump", "exc": _exc(od), "msg": od.get("message", "")}
        text = od["value"]
        if not isinstance(text, str):
            return {"res": "raises", "stage": "dump", "exc": "not-a-string", "msg": short(text)}
        old = os.getcwd()
        try:
            if node.text_cwd:
                os.chdir(node.text_cwd)
            o = outcome(env.p().parse_string, text)
        finally:
            os.chdir(old)
    if o["kind"] != "ok":
        return {"res": "raises", "stage": "parse", "exc": _exc(o), "msg": o.get("message", o.get("stderr", "")), "text": text}
    succ = Node(env, o["value"], node.text_cwd)
    textual = text is not None
    same_state = (succ.key_nocfg == node.key_nocfg) if textual else (succ.key == node.key)
    if not same_state:
        return {"res": "state-changed", "succ": succ, "text": text}
    # the object edges hand the complete result (metadata included) to parse_object: "an equal configuration" is
    # then equal in its metadata too (results that differ only there compare unequal with ==).  A text has no
    # metadata, so the text edges are not judged on it.
    if not textual and succ.mkey != node.mkey:
        return {"res": "meta-changed", "succ": succ, "text": None}
    # byte-identical dumps along the edge
    if textual or succ.okey != node.okey:
        for fmt in env.formats if not textual else [op]:
            d0, d1 = node.dump(env, fmt), succ.dump(env, fmt)
            if d0["kind"] == "ok" and (d1["kind"] != "ok" or d1["value"] != d0["value"]):
                return {"res": "dump-changed", "succ": succ, "fmt": fmt, "text": text,
                        "d0": d0["value"], "d1": d1.get("value", _exc(d1))}  # fmt: skip
    else:
        succ._dumps = node._dumps  # identical complete state: dump is a function of the state
    return {"res": "same", "succ": succ}


def search(env, root):
    """All transitions from `root`; on any edge that leaves it, continue to depth 3 to classify.

    -> (edges of the root [(op, result)], graph info for classification or {} when the reachable set is {root})"""
    edges = [(op, step(env, root, op)) for op in env.ops]
    leaving = [(op, r) for op, r in edges if r["res"] in ("state-changed", "dump-changed", "meta-changed")]
    if not leaving:
        return edges, {}
    root_raises = {op for op, r in edges if r["res"] in ("raises", "mutates")}

    def nkey(n):
        return n.key_nocfg

    rk = nkey(root)
    nodes = {rk: root}
    succs = {rk: set()}
    raises = {rk: False}
    frontier = []
    for _op, r in leaving:
        k = nkey(r["succ"])
        if r["res"] == "dump-changed" and k == rk:
            k = rk + "\x00dump:" + str(r.get("d1"))[:2000]
        if r["res"] == "meta-changed":
            k = rk + "\x00meta:" + r["succ"].mkey
        r["succ_key"] = k
        succs[rk].add(k)
        if k not in nodes:
            nodes[k] = r["succ"]
            frontier.append(k)
    expanded = {rk}
    for _depth in range(1, DEPTH):
        nxt = []
        for k in frontier:
            n = nodes[k]
            succs[k] = set()
            raises[k] = False
            for op in env.ops:
                r = step(env, n, op)
                if r["res"] in ("raises", "mutates"):
                    if op not in root_raises:  # a failure the root shows as well is not part of this counterexample
                        raises[k] = True
                elif r.get("succ") is not None:
                    k2 = k if r["res"] == "same" else nkey(r["succ"])  # "same" is a self-loop of this graph node
                    if r["res"] == "dump-changed" and k2 == k:
                        k2 = k + "\x00dump:" + str(r.get("d1"))[:2000]
                    if r["res"] == "meta-changed":
                        k2 = nkey(r["succ"]) + "\x00meta:" + r["succ"].mkey
                    succs[k].add(k2)
                    if k2 not in nodes:
                        nodes[k2] = r["succ"]
                        nxt.append(k2)
            expanded.add(k)
        frontier = nxt
        if not frontier:
            break
    return edges, {"succs": succs, "raises": raises, "expanded": expanded, "root": rk, "states": len(nodes)}


def classify(info, first):
    """Class of the counterexample that starts with the edge root -> first."""
    succs, raises, expanded, root = info["succs"], info["raises"], info["expanded"], info["root"]
    reach, stack = set(), [first]
    while stack:
        k = stack.pop()
        if k in reach:
            continue
        reach.add(k)
        stack.extend(succs.get(k, ()))
    if any(raises.get(k) for k in reach if k != root):
        return "then-raises"
    if root in reach:
        return "oscillates"
    for k in reach:  # a cycle through >= 2 distinct states below `first`
        seen, st = set(), [x for x in succs.get(k, ()) if x != k]
        while st:
            y = st.pop()
            if y == k:
                return "oscillates"
            if y in seen:
                continue
            seen.add(y)
            st.extend(x for x in succs.get(y, ()) if x != y)
    if any(k not in expanded for k in reach):
        return "diverges"
    return "converges"


# ---------------------------------------------------------------------------------------------------
# judging one state: deviations with signatures


def _edge_label(ops, env):
    ops = sorted(set(ops), key=PARSE_OPS.index)
    allp = [op for op in env.ops if op != "validate"]
    if ops == allp and len(ops) > 1:
        return "every-reparse"
    if ops == [op for op in allp if op in ("yaml", "json")] and len(ops) == 2:
        return "text"
    if ops == ["object", "dict"]:
        return "object+dict"
    return "+".join(ops)


def _parse_text_with(parser, node, text):
    from mc.util import outcome

    old = os.getcwd()
    try:
        if node.text_cwd:
            os.chdir(node.text_cwd)
        return outcome(parser.parse_string, text)
    finally:
        os.chdir(old)


def _parse_text(env, node, text):
    return _parse_text_with(env.mk(), node, text)


def _json_nonfinite_root_cause(env, node, text, yaml_edge):
    """True when spelling the non-finite tokens of the json text the way the yaml loader reads them is all that is
    needed to make the json round trip behave like the yaml round trip of the same state (self-loop, or whatever
    the yaml edge does for other reasons): the root cause is the NaN / Infinity spelling of json.dumps."""
    import re

    if env.mode != "yaml" or text is None:
        return False
    if not ({"float(nan)", "float(inf)"} & leaf_kinds(node.view)):
        return False
    alt = re.sub(r"(?<![\w\"])-Infinity(?![\w\"])", "-.inf", text)
    alt = re.sub(r"(?<![\w\"])Infinity(?![\w\"])", ".inf", alt)
    alt = re.sub(r"(?<![\w\"])NaN(?![\w\"])", ".nan", alt)
    if alt == text:
        return False
    o = _parse_text(env, node, alt)
    if o["kind"] != "ok":
        return yaml_edge is not None and yaml_edge["res"] == "raises" and yaml_edge.get("stage") == "parse"
    got = ckey(_drop_cfg(_strip(o["value"])))
    if got == node.key_nocfg:
        return True
    return yaml_edge is not None and yaml_edge.get("succ") is not None and yaml_edge["succ"].key_nocfg == got


def _decimal_root_cause(what, a, b):
    """A Decimal that comes back as the Decimal (or float) of its float value: serialised through float."""
    try:
        if not what.startswith("Decimal"):
            return False
        if kind(b) == "Decimal":
            return float(a) == float(b) or (a.is_nan() and b.is_nan())
        if kind(b).startswith("float"):
            return float(a) == b or (a.is_nan() and b != b)
    except Exception:
        pass
    return False


def _default_root_cause(path, va, vb, baselines):
    """The key holds a declared default that parse_args / parse_string hand out as declared while parse_object
    normalises it: the edge shows, at that key, exactly the difference (in either direction) that the defaults-only
    configuration b0 = parse_args([]) undergoes when it is parsed again (b1 = parse_object(b0))."""
    b_args, b_obj = baselines
    if b_args is None or b_obj is None:
        return False
    path = tuple(x for x in path if x != "{member}")
    ok1, da = lookup(b_args, path)
    ok2, do = lookup(b_obj, path)
    if not (ok1 and ok2) or ckey(da) == ckey(do):
        return False
    if {ckey(va), ckey(vb)} == {ckey(da), ckey(do)}:
        return True
    return kind(da) != kind(do) and {kind(va), kind(vb)} == {kind(da), kind(do)} and kind(da) in ("dict", "Namespace")


def _declared_default_text_root_cause(env, root, text, path, va):
    """The parser declares a default and the text edge changes the value at `path`: True when the very same text, read by
    the same parser declared WITHOUT that default, gives the root's value back at that path - i.e. the presence of the
    declared default (not the dump, not the type) is what keeps the text from being converted."""
    if not env.has_default or text is None:
        return False
    spec2 = dict(env.spec, default=S.UNSET, dform="raw")
    try:
        o = _parse_text_with(S.build_parser(spec2, None, False), root, text)
    except Exception:
        return False
    if o["kind"] != "ok" or not isinstance(o["value"], argparse.Namespace):
        return False
    ok, got = lookup(_strip(o["value"]), tuple(x for x in path if x != "{member}"))
    return ok and ckey(got) == ckey(va)


def _optional_null_root_cause(env, root, text, path, va, vb):
    """Optional[T] argument whose non-None value comes back as None through the text: True when the same text, read by
    the same parser declared with T alone, gives the value back - the text form of the value is what the loader reads
    as null (an Enum member named `null`), so inside Optional the NoneType member claims it."""
    spec = env.spec
    if vb is not None or va is None or text is None or not (isinstance(spec["type"], list) and spec["type"][0] == "Optional"):
        return False
    spec2 = dict(spec, type=spec["type"][1], default=S.UNSET, dform="raw")
    try:
        o = _parse_text_with(S.build_parser(spec2, None, False), root, text)
    except Exception:
        return False
    if o["kind"] != "ok" or not isinstance(o["value"], argparse.Namespace):
        return False
    ok, got = lookup(_strip(o["value"]), tuple(x for x in path if x != "{member}"))
    return ok and ckey(got) == ckey(va)


def _union_root_cause(env, root, fmt):
    """Flat parser whose argument is declared Union[...]: True when the value belongs to one member type M (a parser
    declared with M alone returns it unchanged) and round-trips through the `fmt` dump of that M-parser, i.e. the deviation
    on the text edges is owed to the Union serialising the value with another member's serialiser."""
    from mc.util import outcome

    spec = env.spec
    if spec["shape"] != "flat" or not (isinstance(spec["type"], list) and spec["type"][0] == "Union"):
        return False
    ok, v = lookup(root.view, ("x",))
    if not ok or v is None:
        return False
    for m in spec["type"][1:]:
        mspec = {"shape": "flat", "type": m, "default": S.UNSET, "dform": "raw", "mode": env.mode}
        try:
            o = outcome(S.build_parser(mspec, None, False).parse_object, {"x": dcopy(v)})
        except Exception:
            continue
        if o["kind"] != "ok" or ckey(o["value"].x) != ckey(v):
            continue
        od = outcome(S.build_parser(mspec, None, False).dump, o["value"], format=fmt, skip_none=False)
        if od["kind"] != "ok":
            continue
        o2 = _parse_text_with(S.build_parser(mspec, None, False), root, od["value"])
        if o2["kind"] == "ok" and ckey(o2["value"].x) == ckey(v):
            return True
    return False


def _none_over_default_paths(v, b0, path=(), out=None):
    """Paths (below namespaces / dicts) at which the configuration holds None while the defaults-only configuration
    holds something else: a None that the INPUT supplied over a non-None declared default."""
    out = [] if out is None else out
    if isinstance(v, (argparse.Namespace, dict)):
        for k, x in _items(v).items():
            if isinstance(k, str) and k.startswith("__"):
                continue
            if x is None:
                ok, d = lookup(b0, path + (k,))
                if ok and d is not None:
                    out.append(path + (k,))
            elif isinstance(x, (argparse.Namespace, dict)):
                _none_over_default_paths(x, b0, path + (k,), out)
    return out


def _default_options_dump(env, root, baselines):
    """The dump clause with the DEFAULT options of `dump` (skip_none=True; the edges of the search use skip_none=False),
    executed for the states in which the input gave None where the parser declares a non-None default - the only states
    in which the two option sets can part: dump, parse_string, dump must give byte-identical text.
    -> list of (signature, detail).  A difference that consists of nothing but such None values coming back as the
    declared default is the documented price of skip_none (one signature); everything else is reported by class."""
    from mc.util import outcome

    if baselines[0] is None or env.mode != "yaml":
        return []
    paths = _none_over_default_paths(_drop_cfg(root.view), baselines[0])
    if not paths:
        return []
    env.skipnone_states += 1
    env.transitions += 1
    cfgtxt = f"config {short(root.view)}"
    p = env.p()
    d0 = outcome(p.dump, root.cfg if root.has_set else dcopy(root.cfg))
    env.dumps += 1
    if d0["kind"] != "ok" or not isinstance(d0["value"], str):
        return [(f"default-dump-options:dump-raises-{_exc(d0)}:{_msg_class(d0.get('message', ''))}", f"{cfgtxt}: {str(d0.get('message'))[:300]}")]
    o = _parse_text_with(p, root, d0["value"])
    if o["kind"] != "ok" or not isinstance(o["value"], argparse.Namespace):
        return [(f"default-dump-options:raises-{_exc(o)}:{_failing_kinds(root, o.get('message', ''))}", f"{cfgtxt} text {d0['value']!r}: {str(o.get('message'))[:300]}")]
    d1 = outcome(p.dump, o["value"])
    env.dumps += 1
    if d1["kind"] == "ok" and d1["value"] == d0["value"]:
        return []
    a, b = _drop_cfg(root.view), _drop_cfg(_strip(o["value"]))
    diffs = all_diffs(a, b)
    detail = f"{cfgtxt}: dump() = {d0['value']!r}, re-parsed and dumped again = {d1.get('value', _exc(d1))!r}"
    unexplained = []
    for path, what, va, vb in diffs:
        okd, dv = lookup(baselines[0], tuple(x for x in path if x != "{member}"))
        if not (va is None and path in paths and okd and ckey(vb) == ckey(dv)):
            unexplained.append(what)
    if diffs and not unexplained:
        return [(SIG_SKIPNONE, detail)]
    if d1["kind"] != "ok":
        return [(f"default-dump-options:second-dump-raises-{_exc(d1)}:{_msg_class(d1.get('message', ''))}", detail)]
    return [(f"default-dump-options:dump-changed:{unexplained[0] if unexplained else 'same-state'}", detail)]


def _msg_class(msg):
    """Refactor-robust class of a dump error message (never raw values)."""
    import re

    m = re.search(r"Object of type (\w+) is not JSON serializable", msg or "")
    if m:
        return f"json-unserialisable-{m.group(1)}"
    if "cannot represent an object" in (msg or ""):
        return "yaml-unrepresentable-object"
    return "other"


def _failing_kinds(root, msg):
    """Kinds of the leaves below the key an error message names (else of the whole configuration)."""
    import re

    m = re.search(r'[Kk]ey "([^"]+)"', msg or "")
    sub = root.view
    if m:
        ok, v = lookup(root.view, tuple(m.group(1).split(".")))
        if ok:
            sub = v
    return ",".join(sorted(leaf_kinds(sub) - {"None"})[:4]) or "-"


def judge(env, root, baselines):
    """-> (list of (signature, detail), counters) for one initial state."""
    env._p = None  # one fresh parser per initial state
    edges, info = search(env, root)
    by_op = dict(edges)
    groups = {}  # signature -> {"ops": [...], "detail": str}
    devs = []

    def add(op, sig, detail):
        g = groups.setdefault(sig, {"ops": [], "detail": detail})
        g["ops"].append(op)

    cfgtxt = f"config {short(root.view)}"
    union_cache = {}

    def union_cause(op):
        if op not in ("yaml", "json"):
            return False
        if op not in union_cache:
            union_cache[op] = _union_root_cause(env, root, op)
        return union_cache[op]

    for op, r in edges:
        res = r["res"]
        if res == "same":
            continue
        if res == "mutates":
            devs.append(("validate:modifies-the-configuration", cfgtxt))
            continue
        if res == "raises":
            if r["stage"] == "validate":
                devs.append((f"validate:raises-{r['exc']}:{_failing_kinds(root, r['msg'])}", f"{cfgtxt}: {r['msg'][:300]}"))
            elif union_cause(op):
                add(op, SIG_UNION, f"{cfgtxt}: {r['stage']} raises {r['exc']}: {r['msg'][:300]}")
            elif r["stage"] == "dump":
                add(op, f"dump-raises-{r['exc']}:{_msg_class(r['msg'])}", f"{cfgtxt}: {r['msg'][:300]}")
            elif op == "json" and _json_nonfinite_root_cause(env, root, r.get("text"), by_op.get("yaml")):
                devs.append((SIG_JSON_NONFINITE, f"{cfgtxt} json text {r.get('text')!r} is rejected: {r['msg'][:200]}"))
            else:
                detail = cfgtxt + (f" text {r['text']!r}" if r.get("text") is not None else "") + f": {r['msg'][:300]}"
                add(op, f"raises-{r['exc']}:{_failing_kinds(root, r['msg'])}", detail)
            continue
        succ = r["succ"]
        cls = classify(info, r["succ_key"])
        if res == "meta-changed":
            for path, what, va, vb in all_diffs(root.cfg, succ.cfg) or [((), "unclassified", None, None)]:
                mk = str(path[-1]) if path and str(path[-1]).startswith("__") else "-"
                where = "top-level" if len(path) <= 1 else "nested"
                add(op, f"metadata-changed:{where}:{mk}:{what}:{cls}",
                    f"config {short(root.cfg)} -> {short(succ.cfg)} (metadata difference at {pstr(path)!r}: {short(va, 80)} -> {short(vb, 80)})")  # fmt: skip
            continue
        if res == "dump-changed" and _set_order_root_cause(root, r["d0"], r["d1"]):
            add(op, SIG_SETORDER + ":" + cls, f"{cfgtxt} -> typed-equal config, but {r['fmt']} dump {r['d0']!r} became {r['d1']!r}")
            continue
        if res == "dump-changed":
            add(op, f"dump-changed:{r['fmt']}:{cls}",
                f"{cfgtxt} -> typed-equal config, but {r['fmt']} dump {r['d0']!r} became {r['d1']!r}")  # fmt: skip
            continue
        # state-changed
        via = f" via text {r['text']!r}" if r.get("text") is not None else ""
        if op == "json" and _json_nonfinite_root_cause(env, root, r.get("text"), by_op.get("yaml")):
            devs.append((SIG_JSON_NONFINITE, f"{cfgtxt} -> {short(succ.view)}{via}"))
            continue
        if op in ("yaml", "json") and _sub_dcf_root_cause(env, root, r.get("text")):
            add(op, SIG_SUBDCF + ":" + cls, f"{cfgtxt} -> {short(succ.view)}{via}")
            continue
        a, b = (root.view, succ.view) if op in ("object", "dict") else (_drop_cfg(root.view), _drop_cfg(succ.view))
        for path, what, va, vb in all_diffs(a, b):
            detail = f"{cfgtxt} -> {short(succ.view)} (difference at {pstr(path)!r}: {short(va, 80)} -> {short(vb, 80)}){via}"
            if op in ("yaml", "json") and _decimal_root_cause(what, va, vb):
                add(op, SIG_DECIMAL + ":" + cls, detail)
            elif _default_root_cause(path, va, vb, baselines):
                add(op, SIG_DEFAULT + ":" + cls, detail)
            elif path[:1] == ("x",) and union_cause(op):
                add(op, SIG_UNION, detail)
            elif op in ("object", "dict") and _dict_kwargs_root_cause(path, what, vb, baselines):
                add(op, SIG_DKW + ":" + cls, detail)
            elif op in ("yaml", "json") and _namespace_name_root_cause(env, path, a, b):
                add(op, SIG_NSNAME + ":" + cls, detail)
            elif op in ("yaml", "json") and _optional_null_root_cause(env, root, r.get("text"), path, va, vb):
                add(op, SIG_OPTNULL, detail)
            elif op in ("yaml", "json") and _declared_default_text_root_cause(env, root, r.get("text"), path, va):
                add(op, SIG_DEFTEXT + ":" + cls, detail)
            else:
                add(op, f"state-changed:{what}:{cls}", detail)

    devs += _default_options_dump(env, root, baselines)
    for sig, g in groups.items():
        label = _edge_label(g["ops"], env)
        if sig.startswith((SIG_DECIMAL, SIG_DEFAULT, SIG_UNION, SIG_DEFTEXT, SIG_OPTNULL, SIG_SUBDCF, SIG_DKW, SIG_NSNAME, SIG_SETORDER)):
            devs.append((sig, f"[{label}] {g['detail']}"))
        else:
            devs.append((f"{label}:{sig}", g["detail"]))
    seen, out = set(), []
    for sig, detail in devs:  # one signature once per state
        if sig not in seen:
            seen.add(sig)
            out.append((sig, detail[:900]))
    singleton = all(r["res"] == "same" for _op, r in edges)  # every transition is a self-loop
    return out, {"extra_states": max(0, info.get("states", 1) - 1), "singleton": singleton}


# ---------------------------------------------------------------------------------------------------
# one task = one parser spec with all its inputs


def run_task(task):
    """Worker: all inputs of one parser spec; initial states deduplicated; every distinct state searched.

    A task with "hashseed": n is executed in a child interpreter started with PYTHONHASHSEED=n (set iteration order
    is then an explicit, enumerated axis instead of luck)."""
    from mc.util import restored_process_state, scratch_dir

    hs = task.get("hashseed")
    if hs is not None and os.environ.get("PYTHONHASHSEED") != str(hs):
        return _run_task_with_hashseed(task, hs)
    with restored_process_state(), scratch_dir(chdir=True) as cwd:
        cwd = os.path.realpath(cwd)
        os.environ["HOME"] = cwd
        make_fixture_tree()
        return _run_task(task, cwd)


_CHILD = (
    "import sys, json\n"
    "from mc import core\n"
    "core._worker_init(core.VERIF)\n"
    "from mc.checks import c10\n"
    "task = json.load(sys.stdin)\n"
    "out = c10.run_task(task)\n"
    "sys.stdout.write('\\n@@C10-RESULT@@' + json.dumps(out, default=repr))\n"
)


def _run_task_with_hashseed(task, hs):
    import subprocess
    import sys

    from mc.core import VERIF, HarnessError

    env = dict(os.environ, PYTHONHASHSEED=str(hs), PYTHONPATH=VERIF, PYTHONDONTWRITEBYTECODE="1", PYTHONWARNINGS="ignore")
    p = subprocess.run([sys.executable, "-c", _CHILD], input=json.dumps(task), capture_output=True, text=True, env=env, cwd=VERIF)
    mark = p.stdout.rfind("@@C10-RESULT@@")
    if p.returncode != 0 or mark < 0:
        raise HarnessError(f"child interpreter with PYTHONHASHSEED={hs} failed: {p.stderr[-600:]}")
    out = json.loads(p.stdout[mark + len("@@C10-RESULT@@"):])
    out["devs"] = [tuple(d) for d in out["devs"]]
    return out


def _baselines(env):
    """(b0, b1): the defaults-only configuration as the first parse (parse_args) hands it out, and what a second
    parse (parse_object) makes of it."""
    from mc.util import outcome

    _obj, argv = S.EMPTY[env.spec["shape"]]
    oa = outcome(env.mk().parse_args, list(argv))
    env.parses += 1
    if oa["kind"] != "ok" or not isinstance(oa["value"], argparse.Namespace):
        return None, None
    oo = outcome(env.mk().parse_object, dcopy(oa["value"]))
    env.parses += 1
    return _strip(oa["value"]), (_strip(oo["value"]) if oo["kind"] == "ok" else None)


def _baselines_args_only(env):
    from mc.util import outcome

    _obj, argv = S.EMPTY[env.spec["shape"]]
    oa = outcome(env.mk().parse_args, list(argv))
    env.parses += 1
    return _strip(oa["value"]) if oa["kind"] == "ok" and isinstance(oa["value"], argparse.Namespace) else None


META_KEYS = ("__path__", "__default_config__", "__orig__")


def _meta_census(cfg, _top=True):
    """(metadata at the top level?, metadata below it?) of a parse result."""
    top = nested = False
    if isinstance(cfg, argparse.Namespace):
        items = list(vars(cfg).items())
    elif isinstance(cfg, dict):
        items = list(cfg.items())
    elif isinstance(cfg, (list, tuple)):
        items = [(None, x) for x in cfg]
    else:
        return False, False
    for k, v in items:
        if k in META_KEYS:
            if _top:
                top = True
            else:
                nested = True
        else:
            t, n = _meta_census(v, False)
            nested = nested or t or n
    return top, nested


def _meta_in_list_items(cfg, _inlist=False):
    """Does a parse result carry metadata inside an item of a list?"""
    if isinstance(cfg, argparse.Namespace):
        cfg = vars(cfg)
    if isinstance(cfg, dict):
        return (_inlist and any(k in META_KEYS for k in cfg)) or any(_meta_in_list_items(v) for k, v in cfg.items() if k not in META_KEYS)
    if isinstance(cfg, (list, tuple)):
        return any(_meta_in_list_items(v, True) for v in cfg)
    return False


def _run_task(task, cwd):
    spec = task["spec"]
    out = {"spec": spec, "hashseed": task.get("hashseed"), "status": "ok", "inputs": 0, "accepted": 0, "rejected": 0, "not_expressible": 0, "escapes": [],
           "states": 0, "extra_states": 0, "singletons": 0, "transitions": 0, "parses": 0, "dumps": 0, "devs": [],
           "nontrivial": 0, "channels": {}, "samples": [], "state_hashes": [],
           "states_with_nested_metadata": 0, "states_with_toplevel_metadata": 0, "states_with_metadata_in_list_items": 0, "nargs_states": 0, "skipnone_states": 0, "ambient_specs": 0, "ambient_effective": 0,
           "states_overriding_ambient": 0}  # fmt: skip
    env = Env(spec, cwd)
    env.transitions = env.dumps = env.skipnone_states = 0
    if env.status != "ok":
        out["status"] = env.status
        out["parses"] = env.parses
        return out
    baselines = _baselines(env)
    if env.has_default and baselines[1] is None and baselines[0] is not None:
        # parse_args hands the declared default out but parse_object (which checks defaults) rejects it:
        # the parser does not accept its own default - outside the grammar
        out["status"] = "own-default-rejected-by-parse_object"
        out["parses"] = env.parses
        return out
    base_key = ckey(baselines[0]) if baselines[0] is not None else None
    if env.ambient:
        # vacuity: the environment really is a source for this parser - without the variables the no-argument
        # parse gives something else
        out["ambient_specs"] = 1
        saved = {k: os.environ.pop(k) for k in env.ambient}
        try:
            plain = _baselines_args_only(env)
        finally:
            os.environ.update(saved)
        if base_key is not None and plain is not None and ckey(plain) != base_key:
            out["ambient_effective"] = 1
    seen = {}
    for channel, value in task["inputs"]:
        out["inputs"] += 1
        try:
            o, text_cwd = call_input(env, channel, value)
            if o is None:
                out["not_expressible"] += 1
                continue
            if o["kind"] != "ok":
                out["rejected"] += 1
                if o["kind"] in ("escape", "timeout"):
                    out["escapes"].append([channel, S_jsonable(value), o.get("type", o["kind"])])
                continue
            out["accepted"] += 1
            out["channels"][channel] = out["channels"].get(channel, 0) + 1
            if not isinstance(o["value"], argparse.Namespace):
                out["devs"].append(("parse-returns-non-namespace", [channel, value], short(o["value"])))
                continue
            root = Node(env, o["value"], os.path.join(cwd, text_cwd) if text_cwd else None)
            skey = root.okey + "\x00" + ckey(o["value"], True) + "\x00" + str(text_cwd)
            if skey in seen:
                continue
            seen[skey] = (channel, value)
            devs, cnt = judge(env, root, baselines)
            out["states"] += 1
            out["extra_states"] += cnt["extra_states"]
            out["singletons"] += 1 if cnt["singleton"] else 0
            if root.key != base_key:
                out["nontrivial"] += 1
                if env.ambient and out["ambient_effective"]:
                    out["states_overriding_ambient"] += 1
            top_meta, nested_meta = _meta_census(o["value"])
            out["states_with_toplevel_metadata"] += 1 if top_meta else 0
            out["states_with_nested_metadata"] += 1 if nested_meta else 0
            out["states_with_metadata_in_list_items"] += 1 if nested_meta and _meta_in_list_items(o["value"]) else 0
            out["nargs_states"] += 1 if "nargs" in spec and root.key != base_key else 0
            for sig, detail in devs:
                out["devs"].append((sig, [channel, value], detail))
            if len(out["samples"]) < 2 and out["states"] in (2, 5):
                out["samples"].append([channel, S_jsonable(value)])
        finally:
            cleanup_input_files()
    out["transitions"] = env.transitions
    out["parses"] = env.parses
    out["dumps"] = env.dumps
    out["skipnone_states"] = env.skipnone_states
    return out


def S_jsonable(v):
    try:
        json.dumps(v, allow_nan=False)
        return v
    except (TypeError, ValueError):
        return repr(v)


def run_case(case):
    """Replay one case {"spec": parser spec, "input": [channel, value]} from scratch."""
    task = {"spec": case["spec"], "inputs": [case["input"]]}
    if case.get("hashseed") is not None:
        task["hashseed"] = case["hashseed"]
    out = run_task(task)
    return [{"signature": sig, "detail": detail} for sig, _inp, detail in out["devs"]]


# ---------------------------------------------------------------------------------------------------
# exploration


def explore(ctx):
    tasks = S.parser_specs(ctx.tier)
    tot = {k: 0 for k in ("inputs", "accepted", "rejected", "not_expressible", "states", "extra_states", "singletons",
                          "transitions", "parses", "dumps", "nontrivial", "states_with_nested_metadata",
                          "states_with_toplevel_metadata", "states_with_metadata_in_list_items", "nargs_states", "skipnone_states", "ambient_specs", "ambient_effective", "states_overriding_ambient")}  # fmt: skip
    status, channels, shapes, types_accepting, all_types = {}, {}, {}, set(), set()
    escapes = []
    hashseed_tasks = {}
    n_inputs = sum(len(t["inputs"]) for t in tasks)
    for r in ctx.pmap(run_task, tasks, chunk=1):
        spec = r["spec"]
        st = r["status"].split(":")[0]
        status[st] = status.get(st, 0) + 1
        for k in tot:
            tot[k] += r[k]
        if r["status"] == "ok":
            all_types.add(S.tkey(spec["type"]))
        if r["states"]:
            types_accepting.add(S.tkey(spec["type"]))
            shapes[spec["shape"]] = shapes.get(spec["shape"], 0) + r["states"]
        for ch, n in r["channels"].items():
            channels[ch] = channels.get(ch, 0) + n
        hs = r.get("hashseed")
        for sig, inp, detail in r["devs"]:
            case = {"spec": spec, "input": inp}
            if hs is not None:
                case["hashseed"] = hs
            ctx.deviation(sig, case, detail)
        if hs is not None:
            hashseed_tasks[hs] = hashseed_tasks.get(hs, 0) + 1
        for inp in r["samples"]:
            if len(json.dumps(spec)) > 70:
                ctx.sample({"spec": spec, "input": inp})
        escapes += [[S.tname(spec["type"])] + e for e in r["escapes"]]
    for k, v in sorted(status.items()):
        ctx.count("parser_specs." + k, v)
    for k, v in sorted(channels.items()):
        ctx.count("accepted_inputs.channel." + k, v)
    for k, v in sorted(shapes.items()):
        ctx.count("states.shape." + k, v)
    for k, v in tot.items():
        ctx.count(k, v)
    ctx.count("parse_escapes_seen_while_building_initial_states(C03 territory)", len(escapes))
    states = tot["states"] + tot["extra_states"]
    ctx.cover(
        states=states,
        initial_states=tot["states"],
        states_with_singleton_reachable_set=tot["singletons"],
        initial_states_with_a_deviating_edge=tot["states"] - tot["singletons"],
        transitions=tot["transitions"],
        traces_validated_against_impl=tot["transitions"],
        evaluations=tot["transitions"] + tot["parses"],
        distinct_nontrivial=tot["nontrivial"],
        rule="a state is a distinct configuration (complete typed canonical form incl. key order) returned by a real "
        "parse method for one parser spec; it is non-trivial when it differs (typed) from what parse_args([]) returns "
        "for that parser, i.e. the input changed something; a transition is one of validate / parse_object(c) / "
        "parse_object(c.as_dict()) / yaml and json dump->parse_string executed on the real parser (one fresh parser per state)",
        exhaustive=True,
        caps_hit=[],
        closed=True,
        bounds={
            "parser_specs": len(tasks),
            "inputs": n_inputs,
            "leaves": S.LEAVES,
            "constructors": ["Optional", "Union", "List", "Sequence", "DictStr", "DictInt", "Mapping", "OrderedDict", "Tuple2", "TupleVar", "Set"],
            "class_like": S.CLASSLIKE + S.DATACLASSES,
            "shapes": S.shapes(ctx.quick) + (list(S.NAME_SHAPES)[:4] if ctx.quick else list(S.NAME_SHAPES)),
            "channels": S.CHANNELS + S.EMPTY_CHANNELS + S.FILE_CHANNELS + S.SIBLING_CHANNELS + S.ENV_CHANNELS + ["argv-raw"] + S.NATIVE_CHANNELS + S.OWNFILE_CHANNELS + S.NARGS_CHANNELS,
            "nargs": "target argument declared with nargs " + ", ".join(map(str, S.NARGS)) + " (shapes " + ", ".join(S.NARGS_SHAPES) + "); items inline / each in a file of its own / one of them in a file",
            "default_forms": ["raw", "typed (by the library)", "native (Python constructors)"],
            "ambient_environment": "default_env=True parsers with the variable of the target argument and of a sibling set for the whole life of the spec: " + ", ".join(S.AMBIENT_SHAPES),
            "classification_depth": DEPTH,
            "type_depth": "G1 all leaves; G2 unary over all leaves, binary over core; G3 skeletons",
        },
        transitions_per_state=["validate", "object", "dict", "yaml", "json"],
        types=len(all_types),
    )
    ctx.assume("dump is a deterministic function of (parser, configuration): dumps are cached per complete state (history independence is C09)")
    ctx.assume("text round trips of a configuration loaded from a config file in another directory are executed with that directory as cwd (relative paths follow the config)")
    if hashseed_tasks:
        ctx.cover(hashseed_axis={f"PYTHONHASHSEED={k}": v for k, v in sorted(hashseed_tasks.items())})
        ctx.assume("PYTHONHASHSEED=0 (set by ./check) for all parser specs; specs with set-typed values are additionally executed in child interpreters with PYTHONHASHSEED=1 and 2")
    else:
        ctx.assume("PYTHONHASHSEED=0 (set by ./check): byte identity of Set[...] dumps is judged under this seed only (the thorough tier enumerates seeds 0,1,2 for set-typed specs)")
    ctx.require(tot["states"] > 2000, "more than 2000 distinct initial states")
    ctx.require(tot["rejected"] > 500 and tot["accepted"] > 5000, "accepted and rejected inputs both occur")
    ctx.require(tot["nontrivial"] > 1000, "more than 1000 states that differ from the parser's defaults")
    ctx.require(tot["transitions"] >= 4 * tot["states"], "at least four transitions per state executed")
    # Coverage guards.  When the run reports deviations that are not known findings it ends with VIOLATION lines
    # anyway; a tree broken that badly may also reject every value of some type, which must not turn the report
    # into a harness error.
    from mc.core import load_known

    known = {e["signature"] for e in load_known("C10") if e.get("status") == "open"}
    if any(sig not in known for sig in ctx.deviations):
        ctx.note("coverage guards (every type / channel / shape reached) not evaluated: the run reports violations")
        return
    missing = sorted(all_types - types_accepting)
    ctx.require(not missing, f"every type of the grammar has an accepted value (without: {missing[:4]})")
    want_ch = set(S.CHANNELS + S.EMPTY_CHANNELS + S.FILE_CHANNELS + S.SIBLING_CHANNELS + S.ENV_CHANNELS + ["argv-raw"] + S.NATIVE_CHANNELS + S.OWNFILE_CHANNELS + S.NARGS_CHANNELS)
    ctx.require(tot["states_with_nested_metadata"] >= 100, "at least 100 states carry metadata below the top level (values loaded from their own file)")
    ctx.require(tot["states_with_toplevel_metadata"] >= 100, "at least 100 states carry top-level metadata (default config files)")
    ctx.require(tot["states_with_metadata_in_list_items"] >= 50, "at least 50 states carry metadata inside the items of a list (nargs items loaded from their own files)")
    ctx.require(tot["nargs_states"] >= 300, "at least 300 non-default states of parsers whose target argument is declared with nargs")
    ctx.require(tot["skipnone_states"] >= 100, "at least 100 states in which the input gives None over a non-None declared default (dump clause with the default options)")
    ctx.require(tot["ambient_effective"] >= 0.8 * tot["ambient_specs"] > 0, "the ambient environment is a source for at least 80% of the parser specs that declare one")
    ctx.require(tot["states_overriding_ambient"] >= 200, "at least 200 states in which an input overrides (or adds to) what the ambient environment supplies")
    ctx.require(want_ch <= set(channels), f"every channel yields accepted inputs (without: {sorted(want_ch - set(channels))})")
    ctx.require(set(S.shapes(ctx.quick)) <= set(shapes), f"every parser shape yields states (without: {sorted(set(S.shapes(ctx.quick)) - set(shapes))})")
