"""C08 helper: identity-aware deep fingerprints and their comparison.

A fingerprint records, for every node reachable from an object, its exact type, its value (leaves) and -- for every
container (Namespace, dict, list, tuple, set, frozenset, other objects with a __dict__) -- its object identity and
the ordered fingerprints of its children.  Two fingerprints taken before and after a library call are equal iff the
call left the object graph exactly as it found it: same objects in the same places with the same contents.

`Keep` holds a reference to every container seen, so that an `id()` can never be reused by a new object between
the two snapshots (a replaced-and-freed list could otherwise be mistaken for the original).
"""
from __future__ import annotations

import argparse
import collections
import enum
import math


class Keep(list):
    """References to every fingerprinted container (keeps ids unique between snapshots)."""


def _leaf(v):
    t = type(v)
    if t is float and math.isnan(v):
        return ("leaf", "float", "nan")
    if isinstance(v, enum.Enum):
        return ("leaf", "enum:" + t.__qualname__, v.name)
    if isinstance(v, type):
        return ("leaf", "class", f"{v.__module__}.{v.__qualname__}")
    if t in (str, int, float, bool, bytes, complex, type(None)):
        return ("leaf", t.__name__, repr(v))
    return None


def fingerprint(obj, keep, _seen=None, _depth=0):
    """-> nested tuples ("leaf", type, repr) | (kind, type name, id, ((key, child), ...))."""
    leaf = _leaf(obj)
    if leaf is not None:
        return leaf
    if _seen is None:
        _seen = set()
    oid = id(obj)
    t = type(obj)
    tname = f"{t.__module__}.{t.__qualname__}"
    if oid in _seen or _depth > 12:
        return ("ref", tname, oid, ())
    keep.append(obj)
    d = _depth + 1
    if isinstance(obj, argparse.Namespace):
        _seen = _seen | {oid}
        return ("ns", tname, oid, tuple((k, fingerprint(v, keep, _seen, d)) for k, v in vars(obj).items()))
    if isinstance(obj, dict):
        _seen = _seen | {oid}
        # an OrderedDict is a mapping object of a class of its own: the library's entry-level copies (clone, strip_meta,
        # recreate_branches) hand it on as it is, like tuples and sets before fix 908f15a -> a place class of its own
        kind = "odict" if isinstance(obj, collections.OrderedDict) else "dict"
        return (kind, tname, oid, tuple((repr(k), fingerprint(v, keep, _seen, d)) for k, v in obj.items()))
    if isinstance(obj, list):
        _seen = _seen | {oid}
        return ("list", tname, oid, tuple((i, fingerprint(v, keep, _seen, d)) for i, v in enumerate(obj)))
    if isinstance(obj, tuple):
        _seen = _seen | {oid}
        return ("tuple", tname, oid, tuple((i, fingerprint(v, keep, _seen, d)) for i, v in enumerate(obj)))
    if isinstance(obj, (set, frozenset)):
        _seen = _seen | {oid}
        kids = sorted((fingerprint(v, keep, _seen, d) for v in obj), key=lambda c: repr(value_only(c)))
        return ("set", tname, oid, tuple((i, c) for i, c in enumerate(kids)))
    mod = t.__module__ or ""
    if mod == "pathlib" or (mod.startswith("jsonargparse") and t.__name__.startswith("Path")):
        # path objects: value-like; attributes may be filled lazily -> identity + textual value only
        return ("path", tname, oid, (("str", ("leaf", "str", str(obj))),))
    if hasattr(obj, "__dict__") and not callable(obj) and not mod.startswith(("argparse", "logging")):
        _seen = _seen | {oid}
        items = [(k, v) for k, v in vars(obj).items() if not (k.startswith("__") and k.endswith("__"))]
        return ("obj", tname, oid, tuple((k, fingerprint(v, keep, _seen, d)) for k, v in items))
    return ("leaf", tname, f"{oid}")


def value_only(fp):
    """Fingerprint with identities removed (value + exact type at every level)."""
    if fp[0] in ("leaf",):
        return fp
    if fp[0] == "ref":
        return ("ref", fp[1], 0, ())
    return (fp[0], fp[1], 0, tuple((k, value_only(c)) for k, c in fp[3]))


def first_difference(a, b, path=(), kinds=()):
    """-> None if equal, else dict(path, kinds (container kinds from the root down to the changed node's parent),
    change in {"value","type","identity","keys","length"}, before, after)."""
    if a == b:
        return None
    if a[0] == "leaf" or b[0] == "leaf" or a[0] != b[0] or a[1] != b[1]:
        change = "value" if (a[0] == b[0] == "leaf" and a[1] == b[1]) else "type"
        return {"path": path, "kinds": kinds, "change": change, "before": _short(a), "after": _short(b)}
    # same container kind and type
    if a[2] != b[2]:
        # another object sits at this place now: the *parent* was modified (the old object may be intact)
        same = value_only(a) == value_only(b)
        return {
            "path": path,
            "kinds": kinds,
            "change": "replaced-by-equal-copy" if same else "replaced",
            "before": _short(a),
            "after": _short(b),
        }
    ka = [k for k, _ in a[3]]
    kb = [k for k, _ in b[3]]
    here = kinds + (a[0],)
    if ka != kb:
        change = "length" if a[0] in ("list", "tuple", "set") else "keys"
        return {"path": path, "kinds": here, "change": change, "before": ka, "after": kb}
    for (k, ca), (_, cb) in zip(a[3], b[3]):
        d = first_difference(ca, cb, path + (k,), here)
        if d is not None:
            return d
    return {"path": path, "kinds": kinds, "change": "value", "before": _short(a), "after": _short(b)}


def _short(fp):
    if fp[0] == "leaf":
        return f"{fp[1]}:{fp[2]}"
    if fp[0] == "ref":
        return f"<{fp[1]}>"
    return f"<{fp[1].rsplit('.', 1)[-1]} of {len(fp[3])}>"


def where_of(diff):
    """Classify the place of a change by the containers above it (the part of the signature that names the root
    cause): inside a tuple / set (containers that recreate_branches does not copy), a nested container, or the
    top level of the object itself."""
    kinds = diff["kinds"]
    # kinds[0] is the root object itself; a change of one of its direct entries is "top-level"
    if "odict" in kinds:
        return "inside-ordered-dict"
    if "tuple" in kinds:
        return "inside-tuple"
    if "set" in kinds:
        return "inside-set"
    if "obj" in kinds:
        return "inside-object"
    if len(kinds) <= 1:
        return "top-level"
    return "nested-container"


def containers(obj, out=None, _seen=None, through_objects=True):
    """All mutable containers (Namespace, dict, list, set) reachable from obj -> {id: (object, under)} with under =
    "od" for an OrderedDict and everything below one, else "ts" for what has a tuple / set above, else ""."""
    if out is None:
        out = {}
    if _seen is None:
        _seen = set()
    _walk(obj, out, _seen, "", through_objects, 0)
    return out


def _walk(obj, out, seen, under_ts, through_objects, depth):
    if _leaf(obj) is not None or id(obj) in seen or depth > 12:
        return
    seen.add(id(obj))
    if isinstance(obj, argparse.Namespace):
        out[id(obj)] = (obj, under_ts)
        for v in vars(obj).values():
            _walk(v, out, seen, under_ts, through_objects, depth + 1)
    elif isinstance(obj, dict):
        if isinstance(obj, collections.OrderedDict):
            under_ts = "od"
        out[id(obj)] = (obj, under_ts)
        for v in obj.values():
            _walk(v, out, seen, under_ts, through_objects, depth + 1)
    elif isinstance(obj, list):
        out[id(obj)] = (obj, under_ts)
        for v in obj:
            _walk(v, out, seen, under_ts, through_objects, depth + 1)
    elif isinstance(obj, set):
        out[id(obj)] = (obj, under_ts)
        for v in obj:
            _walk(v, out, seen, under_ts or "ts", through_objects, depth + 1)
    elif isinstance(obj, (tuple, frozenset)):
        for v in obj:
            _walk(v, out, seen, under_ts or "ts", through_objects, depth + 1)
