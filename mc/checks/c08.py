"""C08 - parse, validate, dump, save, merge and instantiate never modify what they are given.

Bounded exhaustive product, executed on the real library:

    parser shape (generated container nests + hand-written shapes)
  x configuration of the shape (accepted ones, and each of them with one invalid value at EVERY position, so that
    every operation also fails midway at every point)
  x operation and argument form (parse_args / parse_object / parse_string / parse_env / parse_path / validate / dump /
    save / merge_config / strip_unknown / instantiate_classes / get_defaults / format_help; dict, Namespace, parsed
    result, argv list, environment mapping, os.environ)

Every case builds a fresh parser and fresh arguments, takes an identity-aware deep fingerprint (value, exact type
and object identity of every nested container) of every argument, of every action.default / parser._defaults (all
subparsers), of the fixture signatures' default objects, of cwd, os.environ, sys.argv, argparse.Namespace and every
ContextVar found by reflection in jsonargparse modules, runs ONE call, and requires the fingerprints to be identical
afterwards - for returning and for raising calls.  In addition: get_defaults() of the used parser must still equal
that of a pristine twin; a returned object must not hand out mutable parts of the declared defaults; two
instantiate_classes calls on one configuration must give distinct fresh objects at every position, none of them a
signature default instance.
"""
from __future__ import annotations

import argparse
import contextlib
import contextvars
import json
import os
import sys
import types

from mc.checks import c08_fp as FP
from mc.checks import c08_shapes as SH

META = {
    "id": "C08",
    "level": "exploration",
    "engine": "bounded exhaustive product on the real parser with identity-aware before/after fingerprints "
    "(mc/checks/c08.py)",
    "technique": "exhaustive product parser shape x configuration x single invalid position x operation/argument "
    "form; deep before/after fingerprint (value, type, identity) of arguments, declared defaults and process state",
    "level_text": "Every member of the stated finite product (all container nests of the grammar up to the stated "
    "depth plus the hand-written shapes, every accepted configuration and the same with one invalid value at each "
    "position, every operation in every argument form) is executed on the unmodified implementation with fresh "
    "objects, and judged by a differential oracle that needs no expectation about the result: the object graph "
    "before the call must equal the object graph after it. Exhaustive within the bounds; nothing is sampled.",
    "level_note": "Trusted: the fingerprint walker (mc/checks/c08_fp.py), vars()/action.default/_defaults as the "
    "read-out of declared defaults, the shape and value alphabets. Not covered: type nests deeper than the bound, two "
    "or more simultaneous invalid positions (thorough: pairs on the hand-written shapes), fsspec/URL paths, "
    "jsonnet, user-supplied custom actions/loaders.",
    "design_ref": "DESIGN.md §5 C08",
}

# ContextVars that the library writes before every read and never resets (memo of the last call, by design):
# _typehints.subclass_arg_parser, _typehints.dump_kwargs, _actions.parse_kwargs.  Whether such a memo can influence
# a later call is the subject of C09; C08 judges the variables that are documented to be reset on exit.
STICKY_CONTEXT_VARS = {"subclass_arg_parser", "dump_kwargs", "parse_kwargs"}

# ---------------------------------------------------------------------------------------------------
# operations


def operations(profile="full"):
    """The operation x argument-form alphabet.  profile "full": every variant; "core": one variant per code path
    (used by the quick tier on the generated container-nest family, where the parser has no classes or groups);
    "full+" (thorough tier): full, and the defaults=False variant of every parse entry point."""
    full = profile in ("full", "full+")
    ops = [
        ["parse_args", "argv"],
        ["parse_args", "argv+namespace"],
        ["parse_args", "sys.argv"],
        ["parse_args", "environ"],
        ["parse_object", "dict"],
        ["parse_object", "Namespace"],
        ["parse_object", "parsed"],
        ["parse_object", "dict+cfg_base"],
        ["parse_string"],
        ["parse_env", "mapping"],
        ["parse_env", "environ"],
        ["parse_path"],
        ["get_defaults", False],
        ["format_help"],
    ]
    # The same parse calls with the parser's defaults switched off (public keyword defaults=False): the call then starts
    # from an EMPTY configuration, and an object that the caller supplies as base (namespace=, cfg_base=) is the only
    # thing underneath the new values.  Every profile: both forms with a caller-supplied base.  full+: also one variant
    # per parse entry point (the argument forms of one entry point share the code that looks at the switch; their
    # arguments are immutable or copied on entry, so only defaults / process state can be affected there).
    nodef = {"defaults": False}
    ops.append(["parse_args", "argv+namespace", nodef])
    ops.append(["parse_object", "dict+cfg_base", nodef])
    if profile == "full+":
        ops.append(["parse_args", "argv", nodef])
        ops.append(["parse_object", "dict", nodef])
        ops.append(["parse_string", nodef])
        ops.append(["parse_env", "mapping", nodef])
        ops.append(["parse_path", nodef])
    if full:
        ops.append(["get_defaults", True])
        ops.append(["print_config"])
        for name in ("dump", "save"):
            ops.append([name, "parsed_path"] + ([ "yaml", False, False] if name == "dump" else [True, False]))
    dumps = [("yaml", False, False), ("yaml", True, True), ("json", False, False)]
    saves = [(True, False), (False, False)]
    if full:
        dumps += [("yaml", True, False), ("yaml", False, True), ("json_indented", True, False)]
        saves += [(True, True)]
    for src in ("raw", "parsed"):
        ops.append(["validate", src])
        for fmt, skip_default, skip_validation in dumps:
            ops.append(["dump", src, fmt, skip_default, skip_validation])
        for multifile, skip_validation in saves:
            ops.append(["save", src, multifile, skip_validation])
        ops.append(["merge_config", src, "from"])
        ops.append(["merge_config", src, "to"])
        ops.append(["strip_unknown", src])
        ops.append(["instantiate_classes", src, True])
        if full:
            ops.append(["instantiate_classes", src, False])
    return ops


def op_label(op):
    return op[0]


# ---------------------------------------------------------------------------------------------------
# snapshots


def _parsers(parser, prefix="", out=None):
    out = [] if out is None else out
    out.append((prefix, parser))
    sub = getattr(parser, "_subcommands_action", None)
    if sub is not None:
        for name, sp in sub._name_parser_map.items():
            _parsers(sp, prefix + name + ".", out)
    return out


def default_holders(parser):
    """[(label, holder, attribute)] the places that hold declared defaults: every action of every (sub)parser that
    exists now, and each parser's _defaults mapping.  (Actions that a call adds later - parse_args registers a
    suppressed completion action on first use - declare no default; if they did, the comparison with the pristine
    twin parser reports it.)"""
    out = []
    for prefix, p in _parsers(parser):
        for n, action in enumerate(p._actions):
            out.append((f"{prefix}{action.dest}#{n}", action, "default"))
        out.append((f"{prefix}_defaults", p, "_defaults"))
    for lab, obj in SH.declarations(parser):
        # other objects in which the user declared defaults (the schemas given to ActionJsonSchema arguments)
        out.append((lab, types.SimpleNamespace(value=obj), "value"))
    return out


def default_objects(holders):
    return [(lab, getattr(h, attr)) for lab, h, attr in holders]


def signature_default_objects():
    """Default objects of the fixture signatures (what class-typed arguments take their defaults from)."""
    from mc.fixtures.c08 import lib

    out = []
    for name in ("Base", "Sub", "Other", "Holder", "Outer"):
        cls = getattr(lib, name)
        out.append((f"{name}.__init__.__defaults__", cls.__init__.__defaults__))
    for n, inst in enumerate(lib.DEFAULT_INSTANCES):
        out.append((f"default_instance#{n}", vars(inst)))
    return out


_cv_cache = {"nmods": -1, "vars": {}}


def context_vars():
    """Every ContextVar defined in a jsonargparse module (found by reflection; re-scanned when modules were added)."""
    mods = [m for n, m in list(sys.modules.items()) if m is not None and (n == "jsonargparse" or n.startswith("jsonargparse."))]
    if len(mods) != _cv_cache["nmods"]:
        out = {}
        for mod in mods:
            for v in list(vars(mod).values()):
                if isinstance(v, contextvars.ContextVar):
                    out[v.name] = v
        _cv_cache.update(nmods=len(mods), vars=out)
    return _cv_cache["vars"]


_MISSING = ("leaf", "unset", "")


def snapshot(watched, holders, keep):
    """Fingerprints of everything the call must leave alone."""
    snap = {}
    for label, obj in watched:
        snap["argument:" + label] = FP.fingerprint(obj, keep)
    snap["declared-defaults"] = ("list", "defaults", 0, tuple((lab, FP.fingerprint(o, keep)) for lab, o in default_objects(holders)))
    snap["signature-defaults"] = (
        "list",
        "signature-defaults",
        0,
        tuple((lab, FP.fingerprint(o, keep)) for lab, o in signature_default_objects()),
    )
    snap["cwd"] = ("leaf", "str", os.getcwd())
    snap["environ"] = ("dict", "environ", 0, tuple((k, ("leaf", "str", v)) for k, v in sorted(os.environ.items())))
    snap["sys.argv"] = FP.fingerprint(sys.argv, keep)
    snap["argparse.Namespace"] = ("leaf", "class", f"{argparse.Namespace.__module__}.{argparse.Namespace.__qualname__}:{id(argparse.Namespace)}")
    for name, var in sorted(context_vars().items()):
        if name in STICKY_CONTEXT_VARS:
            continue
        try:
            val = var.get()
        except LookupError:
            snap["contextvar:" + name] = _MISSING
            continue
        if isinstance(val, (list, dict, tuple, str, int, bool, type(None))):
            snap["contextvar:" + name] = FP.fingerprint(val, keep)
        else:
            keep.append(val)
            snap["contextvar:" + name] = ("leaf", type(val).__name__, str(id(val)))
    return snap


def compare(pre, post, label, returned):
    """-> [(signature, detail)].  Signatures name (operation, what was modified, where in it):
    mutates:<op>:<argument name(form)>|declared-defaults|signature-defaults:<top-level|nested-container|inside-tuple|
    inside-set|inside-object|replaced>   and   leaks:<op>:<returns|raises>:<cwd|environ|sys.argv|argparse.Namespace|
    contextvar:name>."""
    devs = []
    how = "returns" if returned else "raises"
    for key in pre:
        d = FP.first_difference(pre[key], post[key], kinds=())
        if d is None:
            continue
        target, _, name = key.partition(":")
        if target == "contextvar":
            sig = f"leaks:{label}:{how}:{key}"
        elif target in ("cwd", "environ", "sys.argv", "argparse.Namespace"):
            sig = f"leaks:{label}:{how}:{target}"
        elif target in ("declared-defaults", "signature-defaults"):
            kinds = d["kinds"][1:]  # the synthetic list of all defaults is not a container of the program
            where = FP.where_of(dict(d, kinds=kinds)) if kinds else "replaced"
            sig = f"mutates:{label}:{target}:{where}"
        else:
            where = FP.where_of(d)
            if where == "top-level" and not pre[key][3]:
                where = "top-level-of-empty-object"  # (an empty Namespace is falsy: copy-if-truthy code paths skip it)
            sig = f"mutates:{label}:{name}:{where}"
        detail = f"[call {how}] {key} at {list(d['path'])}: {d['change']}: {d['before']} -> {d['after']}"
        devs.append((sig, detail))
    return devs


# ---------------------------------------------------------------------------------------------------
# one case


class Skip(Exception):
    """The operation is not applicable to this configuration (e.g. no parsed form of an invalid configuration)."""


def _with_unknown(ns):
    ns["unknown_key_c08"] = [1, {"k": [2]}]
    return ns


def prepare(op, parser, shape, cfg, scratch, used=None):
    """-> (callable, [(label, watched object)], environ patch or None, sys.argv replacement or None).
    used: list that receives the name of every library call made on `parser` while preparing the arguments."""
    kw = {}
    if isinstance(op[-1], dict):
        op, kw = op[:-1], op[-1]  # public keyword switches of the observed call (defaults=False ...)
    name = op[0]
    used = used if used is not None else []

    def parsed(c=cfg):
        from mc.util import outcome

        used.append("parse_object")
        o = outcome(parser.parse_object, SH.build_root(c, "dict"))
        if o["kind"] != "ok":
            raise Skip("configuration is not accepted: no parsed form")
        return o["value"]

    def parsed_path():
        """Result of parse_path on a file (carries the __path__ metadata of every loaded file)."""
        from mc.util import outcome

        if scratch is None:
            raise Skip("no files")
        path = os.path.join(os.getcwd(), "c08_source.json")
        with open(path, "w") as f:
            f.write(SH.text_of(cfg))
        used.append("parse_path")
        o = outcome(parser.parse_path, path)
        if o["kind"] != "ok":
            raise Skip("configuration is not accepted: no parsed form")
        return o["value"]

    def source(src):
        if src == "parsed_path":
            return parsed_path()
        return parsed() if src == "parsed" else SH.build_root(cfg, "ns")

    if name == "print_config":
        if not shape.get("config_option"):
            raise Skip("parser without a config option has no --print_config")
        argv = SH.argv_of(shape, cfg) + ["--print_config"]
        return (lambda: parser.parse_args(argv)), [("argv", argv)], None, None

    if name == "parse_args":
        form = op[1]
        if form == "argv":
            argv = SH.argv_of(shape, cfg)
            return (lambda: parser.parse_args(argv, **kw)), [("argv", argv)], None, None
        if form == "argv+namespace":
            ns = SH.build_root(cfg, "ns")
            argv = SH.argv_of(shape, cfg)
            return (lambda: parser.parse_args(argv, namespace=ns, **kw)), [("argv", argv), ("namespace", ns)], None, None
        if form == "sys.argv":
            argv = ["prog"] + SH.argv_of(shape, cfg)
            return (lambda: parser.parse_args(**kw)), [], None, argv
        if form == "environ":
            argv = []
            return (lambda: parser.parse_args(argv, env=True, **kw)), [("argv", argv)], SH.env_of(shape, cfg), None
    if name == "parse_object":
        form = op[1]
        if form == "dict":
            obj = SH.build_root(cfg, "dict")
            return (lambda: parser.parse_object(obj, **kw)), [("cfg_obj(dict)", obj)], None, None
        if form == "Namespace":
            obj = SH.build_root(cfg, "ns")
            return (lambda: parser.parse_object(obj, **kw)), [("cfg_obj(Namespace)", obj)], None, None
        if form == "parsed":
            obj = parsed()
            return (lambda: parser.parse_object(obj, **kw)), [("cfg_obj(Namespace)", obj)], None, None
        if form == "dict+cfg_base":
            obj = SH.build_root(cfg, "dict")
            base = parsed(shape["configs"][0])
            return (lambda: parser.parse_object(obj, cfg_base=base, **kw)), [("cfg_obj(dict)", obj), ("cfg_base", base)], None, None
    if name == "parse_string":
        text = SH.text_of(cfg)
        return (lambda: parser.parse_string(text, **kw)), [], None, None
    if name == "parse_env":
        env = SH.env_of(shape, cfg)
        if op[1] == "mapping":
            return (lambda: parser.parse_env(env, **kw)), [("env", env)], None, None
        return (lambda: parser.parse_env(**kw)), [], env, None
    if name == "parse_path":
        # next to the files that relative paths of the configuration refer to, but not in the cwd of the caller
        path = os.path.join(os.getcwd(), "c08_input.json")
        with open(path, "w") as f:
            f.write(SH.text_of(cfg))
        os.makedirs(os.path.join(scratch, "elsewhere"), exist_ok=True)
        os.chdir(os.path.join(scratch, "elsewhere"))
        return (lambda: parser.parse_path(path, **kw)), [], None, None
    if name == "get_defaults":
        return (lambda: parser.get_defaults(skip_validation=op[1])), [], None, None
    if name == "format_help":
        return (lambda: parser.format_help()), [], None, None
    if name == "validate":
        x = source(op[1])
        return (lambda: parser.validate(x)), [("cfg", x)], None, None
    if name == "dump":
        _, src, fmt, skip_default, skip_validation = op
        x = source(src)
        return (
            (lambda: parser.dump(x, format=fmt, skip_default=skip_default, skip_validation=skip_validation)),
            [("cfg", x)],
            None,
            None,
        )
    if name == "save":
        _, src, multifile, skip_validation = op
        x = source(src)
        out = os.path.join(scratch, "saved", "out.yaml")
        os.makedirs(os.path.dirname(out), exist_ok=True)
        return (
            (lambda: parser.save(x, out, multifile=multifile, skip_validation=skip_validation, overwrite=True)),
            [("cfg", x)],
            None,
            None,
        )
    if name == "merge_config":
        _, src, role = op
        x = source(src)
        other = parser.get_defaults(skip_validation=True) if shape["name"] != "default_config_bad" else parsed(shape["configs"][0])
        if role == "from":
            return (lambda: parser.merge_config(x, other)), [("cfg_from", x), ("cfg_to", other)], None, None
        return (lambda: parser.merge_config(other, x)), [("cfg_from", other), ("cfg_to", x)], None, None
    if name == "strip_unknown":
        x = _with_unknown(source(op[1]))
        return (lambda: parser.strip_unknown(x)), [("cfg", x)], None, None
    if name == "instantiate_classes":
        x = source(op[1])
        return (lambda: parser.instantiate_classes(x, instantiate_groups=op[2])), [("cfg", x)], None, None
    raise AssertionError(op)


def _golden_defaults(shape, scratch):
    """Value of get_defaults() of a pristine twin parser (never used for anything else)."""
    from mc.util import outcome

    twin = shape["make"](scratch)
    o = outcome(twin.get_defaults, skip_validation=True)
    if o["kind"] != "ok":
        return ("raises", o["kind"])
    return FP.value_only(FP.fingerprint(o["value"], FP.Keep()))


def _instances(obj, path=(), kinds=(), out=None, seen=None):
    """(path, kinds, instance) for every fixture-class instance reachable from a result."""
    if out is None:
        out, seen = [], set()
    if id(obj) in seen or len(path) > 12:
        return out
    mod = type(obj).__module__
    if isinstance(obj, argparse.Namespace):
        for k, v in vars(obj).items():
            _instances(v, path + (k,), kinds + ("ns",), out, seen)
    elif isinstance(obj, dict):
        for k, v in obj.items():
            _instances(v, path + (repr(k),), kinds + ("dict",), out, seen)
    elif isinstance(obj, (list, tuple)):
        for i, v in enumerate(obj):
            _instances(v, path + (i,), kinds + ("tuple" if isinstance(obj, tuple) else "list",), out, seen)
    elif mod == SH.FIX and not isinstance(obj, type) and hasattr(obj, "__dict__") and type(obj).__name__ != "E":
        seen.add(id(obj))
        out.append((path, kinds, obj))
        for k, v in vars(obj).items():
            _instances(v, path + ("." + k,), kinds + ("obj",), out, seen)
    return out


def _count_specs(obj, depth=0):
    n = 0
    if depth > 12:
        return 0
    if isinstance(obj, (argparse.Namespace, dict)):
        d = vars(obj) if isinstance(obj, argparse.Namespace) else obj
        if "class_path" in d:
            n += 1
        for v in d.values():
            n += _count_specs(v, depth + 1)
    elif isinstance(obj, (list, tuple)):
        for v in obj:
            n += _count_specs(v, depth + 1)
    return n


def twice_oracle(parser, cfg_factory, groups, counts):
    """Two instantiate_classes calls on one configuration: distinct fresh objects everywhere."""
    from jsonargparse._typehints import LazyInitBaseClass  # noqa: PLC0415 - only to recognise lazy default instances
    from mc.fixtures.c08 import lib
    from mc.util import outcome

    cfg = cfg_factory()
    given = {id(o) for _, _, o in _instances(cfg)}
    o1 = outcome(parser.instantiate_classes, cfg, instantiate_groups=groups)
    o2 = outcome(parser.instantiate_classes, cfg, instantiate_groups=groups)
    if o1["kind"] != "ok" or o2["kind"] != "ok":
        return []
    devs = []
    a = {p: (k, o) for p, k, o in _instances(o1["value"])}
    b = {p: (k, o) for p, k, o in _instances(o2["value"])}
    defaults = {id(x) for x in lib.DEFAULT_INSTANCES}
    counts["twice:specs"] = counts.get("twice:specs", 0) + _count_specs(cfg)
    for path, (kinds, obj) in a.items():
        where = "inside-tuple" if "tuple" in kinds else ("nested-in-object" if "obj" in kinds else "plain")
        if isinstance(obj, LazyInitBaseClass):
            # a lazy instance is the declared default of a signature: it must reach a result only as a fresh object
            # built from its class_path/init_args spec, never as itself
            devs.append((f"instantiate:returns-lazy-default-instance:{where}", f"at {list(path)}: {type(obj).__name__}"))
            continue
        if id(obj) in given:
            # the configuration already held a live object here (a plain instance used as signature default is
            # documented to be passed through as it is): not a class_path position
            counts["twice:given-instances-exempt"] = counts.get("twice:given-instances-exempt", 0) + 1
            continue
        counts["twice:positions"] = counts.get("twice:positions", 0) + 1
        if id(obj) in defaults:
            devs.append((f"instantiate:returns-signature-default-instance:{where}", f"at {list(path)}: {type(obj).__name__}"))
        other = b.get(path)
        if other is not None and other[1] is obj:
            devs.append((f"instantiate-twice:same-object:{where}", f"at {list(path)}: {type(obj).__name__}"))
    return devs


def aliasing_oracle(result, holders, label):
    """A returned object must not hand out mutable containers of the declared defaults (a later write to the result
    would silently change what every later parse starts from)."""
    mine = {}
    for lab, obj in default_objects(holders) + signature_default_objects():
        for oid, (o, under) in FP.containers(obj).items():
            mine.setdefault(oid, (lab, under))
    devs = []
    seen = set()
    for oid, (o, under) in FP.containers(result).items():
        if oid in mine:
            lab, under_default = mine[oid]
            if lab.endswith(":schema"):
                where = "schema-default"  # a "default" of the JSON schema given to an ActionJsonSchema argument
            elif "od" in (under, under_default):
                where = "ordered-dict"  # an OrderedDict (or a container inside one): not copied by recreate_branches
            elif under or under_default:
                where = "inside-tuple-or-set"
            elif isinstance(o, set):
                where = "set"
            else:
                where = "plain"
            sig = f"result-shares-container-with-defaults:{where}"
            if sig not in seen:
                seen.add(sig)
                devs.append((sig, f"[{label}] {type(o).__name__} {o!r:.80} of default {lab} is reachable from the result"))
    return devs


def _preparation_alone_differs(op, shape, cfg, scratch, golden):
    """Only evaluated when get_defaults() differs from the pristine twin after a call whose argument was built by a
    parse on the same parser: does it already differ on a third parser after that preparation alone?"""
    from mc.util import outcome

    parser3 = shape["make"](scratch)
    try:
        prepare(op, parser3, shape, cfg, scratch)
    except (Skip, SH.Unbuildable):
        return False
    og = outcome(parser3.get_defaults, skip_validation=True)
    now = FP.value_only(FP.fingerprint(og["value"], FP.Keep())) if og["kind"] == "ok" else ("raises", og["kind"])
    return now != golden


_golden_cache = {}
_cwd_cache = {}


def _plain_cwd():
    """A per-process empty directory used as cwd by cases that touch no files."""
    from mc.util import scratch_root

    d = _cwd_cache.get("d")
    if d is None or not os.path.isdir(d):
        d = os.path.join(scratch_root(), "c08_cwd")
        os.makedirs(d, exist_ok=True)
        _cwd_cache["d"] = d
    return d


@contextlib.contextmanager
def _restored_argv():
    saved, items = sys.argv, list(sys.argv)
    try:
        yield
    finally:
        sys.argv = saved
        sys.argv[:] = items


def run_one(shape_name, ci, bad, op, counts=None, warm=False):
    """Execute ONE case from scratch.  -> (list of (signature, detail), outcome kind or "skip").

    bad: None | {"at": [position, ...], "v": value spec put at these positions}.  warm: the parser has already been
    used (parse_args of the shape's first configuration, format_help, get_defaults) before the observed call."""

    from mc.util import outcome, restored_process_state, scratch_dir

    from mc.fixtures.c08 import lib

    lib.reset()
    counts = {} if counts is None else counts
    shape = SH.get_shape(shape_name)
    cfg = shape["configs"][ci]
    if bad is not None:
        for path in bad["at"]:
            cfg = SH.inject(cfg, path, bad["v"])
    label = op_label(op)
    files = bool(shape.get("files")) or op[0] in ("parse_path", "save") or "parsed_path" in op[1:2]
    SH.DECLARATIONS.clear()
    with restored_process_state(), _restored_argv(), (scratch_dir() if files else contextlib.nullcontext(None)) as scratch:
        if files:
            work = os.path.join(scratch, shape.get("chdir", "work"))
            os.makedirs(work, exist_ok=True)
        else:
            work = _plain_cwd()
        if shape.get("files"):
            golden = _golden_defaults(shape, scratch)
        else:
            # the value of a pristine twin's defaults is a constant of the shape (immutable fingerprint)
            golden = _golden_cache.get(shape_name)
            if golden is None:
                golden = _golden_cache[shape_name] = _golden_defaults(shape, scratch)
        parser = shape["make"](scratch)
        os.chdir(work)
        if warm:
            # a parser that has been used before: one parse, its help, its defaults.  (No dump / save in the warm-up:
            # on the current tree they rewrite tuple-valued defaults - finding R2 - and every later call would then be
            # blamed for writing the original values back.)
            outcome(parser.parse_args, SH.argv_of(shape, shape["configs"][0]))
            outcome(parser.format_help)
            outcome(parser.get_defaults)
        used = []
        try:
            fn, watched, environ, argv = prepare(op, parser, shape, cfg, scratch, used)
        except (Skip, SH.Unbuildable):
            return [], "skip"
        if environ:
            os.environ.update(environ)
        if argv is not None:
            sys.argv = argv
        holders = default_holders(parser)
        keep = FP.Keep()
        pre = snapshot(watched, holders, keep)
        o = outcome(fn)
        post = snapshot(watched, holders, keep)
        returned = o["kind"] == "ok"
        devs = compare(pre, post, label, returned)
        if o["kind"] in ("timeout",):
            devs.append((f"no-termination:{label}", "ran past the horizon"))
        # declared defaults as seen through the API still equal those of a pristine twin (reported only when the
        # identity-aware comparison above has not already named the modified default)
        if not any(":declared-defaults:" in s for s, _ in devs):
            og = outcome(parser.get_defaults, skip_validation=True)
            now = FP.value_only(FP.fingerprint(og["value"], FP.Keep())) if og["kind"] == "ok" else ("raises", og["kind"])
            if now != golden and used and _preparation_alone_differs(op, shape, cfg, scratch, golden):
                # the parse that built the argument of this call (a parse_object / parse_path of its own, explored
                # and reported as an observed call elsewhere) had already changed the defaults: not this call's doing
                counts["defaults-differ:attributed-to-preparation"] = counts.get("defaults-differ:attributed-to-preparation", 0) + 1
            elif now != golden:
                d = FP.first_difference(golden, now) if og["kind"] == "ok" and golden[0] != "raises" else (golden[:2], now[:2])
                devs.append(
                    (
                        f"defaults-differ-from-pristine-parser:{label}",
                        f"[call {'returns' if returned else 'raises'}] get_defaults() after the call differs from a pristine parser's: {d}",
                    )
                )
        if returned and op[0] not in ("format_help", "dump", "save", "validate"):
            devs += aliasing_oracle(o["value"], holders, label)
        if returned and op[0] == "instantiate_classes" and op[1] == "parsed":
            # (a hand-built partial Namespace leaves parameters to the constructor's own Python defaults - outside the
            # library; the oracle therefore takes complete, parsed configurations, where every default is a spec)
            parser2 = shape["make"](scratch)

            def factory():
                return prepare(op, parser2, shape, cfg, scratch)[1][0][1]

            devs += twice_oracle(parser2, factory, op[2], counts)
        kind = o["kind"]
        if kind == "escape":
            kind = "raises-other"
        if kind == "exit":
            kind = "exit-0" if o["code"] == 0 else "exit-error"
        return devs, kind


def _nontrivial(cfg):
    """A configuration is non-trivial when it holds a mutable container below its top level (anything that a
    shallow copy would share) or an invalid value (the operation stops midway)."""
    j = SH.to_json({"__ns__": cfg})
    return any(isinstance(v, (list, dict)) and any(isinstance(x, (list, dict)) for x in (v.values() if isinstance(v, dict) else v)) for v in j.values())


def work_item(item):
    """Worker: one (shape, configuration, invalid positions, warm) with every operation of the profile."""
    shape_name, ci, bad, profile, warm = item
    out = {"item": [shape_name, ci, bad, warm], "devs": [], "counts": {}, "n": 0, "nontrivial": 0}
    shape = SH.get_shape(shape_name)
    cfg = shape["configs"][ci]
    nontrivial = bad is not None or _nontrivial(cfg)
    for op in operations(profile):
        if op[0] in CONFIG_INDEPENDENT and (ci != 0 or bad is not None):
            continue  # the call does not involve the configuration: the case of the shape's first item again
        devs, kind = run_one(shape_name, ci, bad, op, out["counts"], warm)
        key = f"{op[0]}:{kind}"
        out["counts"][key] = out["counts"].get(key, 0) + 1
        if kind == "skip":
            continue
        out["n"] += 1
        out["nontrivial"] += 1 if nontrivial else 0
        for sig, detail in devs:
            case = {"shape": shape_name, "config": ci, "bad": bad, "op": op}
            if warm:
                case["warm"] = True
            out["devs"].append((sig, case, detail))
    return out


def run_case(case):
    devs, _ = run_one(case["shape"], case["config"], case["bad"], case["op"], None, case.get("warm", False))
    return [{"signature": s, "detail": d} for s, d in devs]


# ---------------------------------------------------------------------------------------------------
# exploration

BAD2 = {"zz": ["zz"]}  # a second kind of invalid value (a mapping): fails later / elsewhere than the string

# Hand-written shapes that the quick tier runs like the generated family (core alphabet, invalid positions of the first
# configuration only); the thorough tier runs them in full.  actions_final is the twin of actions_raw (same parser, the
# declared defaults already in final form): every code path is executed by actions_raw with the full alphabet.
# subcommands_optional is the twin of subcommands (same parser, same configurations, add_subcommands(required=False)).
# Its invalid-position variants are taken on the configurations in which the two differ (no explicit choice / settings
# of the subcommand that was not chosen).
QUICK_CORE_SHAPES = {"actions_final": (0,), "subcommands_optional": (3, 4, 5)}
# Operations whose call does not involve the configuration: executed once per parser shape (and warm state), with the
# shape's first item - for every other configuration variant the case would be the very same case again.
CONFIG_INDEPENDENT = ("get_defaults", "format_help")
# Ten independent arguments with ~60 positions: the ~1500 pairs of invalid positions per configuration would cost more
# than all other hand-written shapes together; two failures in two independent plain arguments add no code path.
# (subcommands_optional: its twin subcommands has the pairs.)
NO_PAIRS_SHAPES = ("actions_raw", "actions_final", "subcommands_optional")


def _independent(p, q):
    n = min(len(p), len(q))
    return p[:n] != q[:n]


def items_for(tier):
    """(shape, configuration index, invalid positions or None, operation profile, warm) - the product of the tier.

    quick:    hand-written shapes: every configuration x (valid + every single invalid position; of the first six
              configurations of a shape) x full alphabet (QUICK_CORE_SHAPES: core alphabet, invalid positions of the
              stated configurations only); get_defaults / format_help once per shape (CONFIG_INDEPENDENT);
              generated nests of depth <= 2 with a declared default (depth 1 also without): the raw-form configuration
              x (valid + every invalid position) and the final-form configuration (valid), core alphabet.  Nests with
              the OrderedDict constructor R: depth 1 over both leaves, depth 2 over the leaf E only (R over every
              constructor, every constructor over R), declared default in final form, plus the "mixed" configuration.
    thorough: hand-written shapes additionally with a second kind of invalid value at every position, with every PAIR
              of independent invalid positions (core alphabet; not for NO_PAIRS_SHAPES), and everything single again on
              a parser that has already been used for a parse, a help text and get_defaults (warm; not for
              QUICK_CORE_SHAPES);
              generated nests of depth <= 3: depth <= 2 with default forms none/final/raw, both configurations with
              every invalid position, full alphabet; depth 3 with default forms final/raw, core alphabet.  Nests with
              R: depth 1 in full (three default forms), depth 2 over both leaves like quick, none of depth 3."""
    items = []

    def add(name, profile, bad_for=(0, 1, 2, 3, 4, 5), values=(SH.BAD,), warm=False, pairs=False):
        shape = SH.get_shape(name)
        for ci, cfg in enumerate(shape["configs"]):
            if not pairs:
                items.append((name, ci, None, profile, warm))
            if ci in bad_for:
                pos = SH.positions(cfg)
                if pairs:
                    for i, p in enumerate(pos):
                        for q in pos[i + 1 :]:
                            if _independent(p, q):
                                items.append((name, ci, {"at": [p, q], "v": SH.BAD}, profile, warm))
                    continue
                for v in values:
                    for p in pos:
                        items.append((name, ci, {"at": [p], "v": v}, profile, warm))

    if tier == "quick":
        for name in SH.NAMED:
            if name in QUICK_CORE_SHAPES:
                add(name, "core", bad_for=QUICK_CORE_SHAPES[name])
            else:
                add(name, "full")
        for t in SH.gen_types(2):
            depth = SH.type_depth(t)
            if depth == 2 and SH.has_constructor(t, "R") and SH.leaf_of(t) == "i":
                continue  # OrderedDict nests of depth 2 over the leaf int: thorough only (over E: here)
            for dform in ["final"] + (["none"] if depth == 1 and t[0] != "R" else []):
                add(f"gen:{SH.type_name(t)}:{dform}", "core", bad_for=(0,))
    else:
        for name in SH.NAMED:
            add(name, "full+", values=(SH.BAD, BAD2))
            if name not in QUICK_CORE_SHAPES:
                add(name, "full+", warm=True)
            if name not in NO_PAIRS_SHAPES:
                add(name, "core", pairs=True)
        for t in SH.gen_types(3):
            depth = SH.type_depth(t)
            if SH.has_constructor(t, "R"):
                # nests with the OrderedDict constructor (added by the third seeded-defect round, priced to keep the
                # tier within its budget): depth 1 like the other constructors, depth 2 like the depth-3 nests, no depth 3
                if depth == 1:
                    for dform in ("none", "final", "raw"):
                        add(f"gen:{SH.type_name(t)}:{dform}", "full+")
                elif depth == 2:
                    add(f"gen:{SH.type_name(t)}:final", "core", bad_for=(0,))
                continue
            if depth <= 2:
                for dform in ("none", "final", "raw"):
                    add(f"gen:{SH.type_name(t)}:{dform}", "full+")
            else:
                for dform in ("final", "raw"):
                    add(f"gen:{SH.type_name(t)}:{dform}", "core", bad_for=(0,))
    return items


def explore(ctx):
    tier = "quick" if ctx.quick else "thorough"
    items = items_for(tier)
    totals = {"n": 0, "nontrivial": 0}
    shapes, configs = set(), set()
    for out in ctx.pmap(work_item, items):
        totals["n"] += out["n"]
        totals["nontrivial"] += out["nontrivial"]
        shapes.add(out["item"][0])
        configs.add(json.dumps(out["item"]))
        for k, v in out["counts"].items():
            ctx.count(k, v)
        for sig, case, detail in out["devs"]:
            ctx.deviation(sig, case, detail)
    ops = operations("full" if ctx.quick else "full+")
    for it in (items[0], items[len(items) // 2], items[-1]):
        ctx.sample({"shape": it[0], "config": it[1], "bad": it[2], "op": ops[4], "warm": it[4]})
    c = ctx.counters
    ctx.cover(
        evaluations=totals["n"],
        states=len(configs),
        transitions=totals["n"],
        traces_validated_against_impl=totals["n"],
        distinct_nontrivial=totals["nontrivial"],
        rule="a case = one library call on a fresh parser with fresh arguments, fingerprinted before and after; "
        "non-trivial = the configuration holds a mutable container below its top level or one invalid value",
        exhaustive=True,
        caps_hit=[],
        bounds={
            "generic_type_depth": 2 if ctx.quick else 3,
            "generic_type_constructors": "List Dict Tuple[t,int] Tuple[t,...] Set Optional at every depth; "
            "OrderedDict (value of a mapping class of its own) at depth <= 2"
            + (", depth 2 over the leaf E only" if ctx.quick else ""),
            "parser_shapes": len(shapes),
            "configurations_incl_invalid_positions": len(configs),
            "operations_and_forms": {"full": len(ops), "core": len(operations("core"))},
            "invalid_positions_per_configuration": "every single position"
            if ctx.quick
            else "every single position (two kinds of invalid value) and every pair of independent positions "
            "(hand-written shapes)",
            "history": "one observed call on a fresh parser" if ctx.quick else "one observed call on a fresh parser, "
            "and on a parser already used for parse_args + format_help + get_defaults (hand-written shapes)",
            "container_width": 2,
        },
    )
    ctx.require(totals["n"] > 5000, "more than 5000 calls executed")
    for name in sorted({op[0] for op in ops}):
        ctx.require(c.get(f"{name}:ok", 0) + c.get(f"{name}:exit-0", 0) > 0, f"{name}: some call completed")
        if name not in ("format_help", "strip_unknown", "merge_config"):
            failed = c.get(f"{name}:ArgumentError", 0) + c.get(f"{name}:raises-other", 0) + c.get(f"{name}:exit-error", 0)
            ctx.require(failed > 0, f"{name}: some call failed midway")
    ctx.require(c.get("twice:positions", 0) > 50, "instantiate-twice oracle compared > 50 class positions")
