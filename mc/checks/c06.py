"""C06 - unknown keys are never silently ignored; required keys are enforced.

Bounded exhaustive exploration on the real parsers.  For every parser shape (mc/checks/c06_schema.py: one shape per
node kind, a two-level subcommand tree and an all-in-one parser), for every valid base configuration of the shape
(required-only / every key; every concrete class at every class-typed node; every subcommand path), for EVERY
mapping node of the configuration tree:

    insert a foreign key            -> must be rejected AND the error text must contain the key
    remove / null each required key -> must be rejected
    (argv only) leftover tokens at every subcommand depth -> rejected, text names a leftover token

and the unmodified base configuration must be accepted (and, as a harness sanity check, parse to the same result
through every channel).  Every mutated configuration is delivered through every channel (mc/checks/c06_channels.py:
object, config text via parse_string, --config, per-subcommand --config, default config file, parser.validate on
the parsed namespace, defaults=False, argv as JSON values, argv as dotted options, environment as JSON values and
per-leaf variables; thorough adds files, YAML text, dotted / Namespace objects, short / append argv spellings,
default_env parse_args, APP_CONFIG, exit_on_error=True variants, foreign keys whose NAME is defined elsewhere in
the parser, and None / dict foreign values).  Each case builds a fresh parser.  `parse_known_args` called from
outside must raise NotImplementedError.

Foreign key NAMES: `zzq` (defined nowhere) and, per node, the spelling neighbours of a key the node defines - a
"truncated" name (defined key minus its last letter: a proper prefix of a defined key) and an "extended" name (defined
key plus one letter); thorough: one pair per defined key, plus names defined elsewhere in the parser.  And names that
carry the append suffix `+` without being the append spelling of a list-typed key of the node: "plus-suffixed" (`zzq+`, base
name defined nowhere) and "plus-suffixed-defined" (`yaw+` next to `yaw: int` - a defined key that is not list-typed).

Used-parser family (operation histories): for every (shape, base configuration, prior call) ONE parser; before every
judged case the prior call is made on that parser (values on argv, then a --config document that fails while it is
applied; the same with a valid document = a complete successful parse; thorough also a failing parse_string), so each
judged case (the base, every required key removed / nulled, the foreign key at every node; channels string, object,
argv, environment) runs on a parser / thread that has just performed the prior call and before it every earlier case
of the sequence.  Oracle as on a fresh parser; reported only when a fresh parser judges the same input correctly.
Every from-scratch case runs in an empty contextvars.Context, so state left behind by one case cannot reach another.

Construction shapes (c06_schema.CONSTRUCTION_SHAPES): the same cases on parsers that are DECLARED differently - with
argument links (the target key is derived, everything else - in particular the class-typed argument whose init arg is
linked - stays required), with underscore-named required parameters (optional ones are documented as ignored), with
as_group=False / explicit argument groups.  Which keys are defined and required must not depend on how they were declared.

The expected keys (which keys a node defines, which are required) come from the shape declaration and from
`inspect` / `dataclasses` / `typing` on the fixture classes - never from jsonargparse.

A case is {"shape", "cfg" (valid base), "mut", "ch"[, "prior"[, "history"]]}; everything else is derived.
"""
from __future__ import annotations

import hashlib
import json
import os
import re

META = {
    "id": "C06",
    "level": "exploration",
    "engine": "bounded exhaustive single-position mutation of valid configurations on real parsers "
    "(mc/checks/c06.py, c06_schema.py, c06_channels.py)",
    "technique": "every node of every valid configuration tree x {foreign key (never-defined name, truncated / extended "
    "spelling of a defined key, `+`-suffixed undefined / defined non-list name), required key removed, required key "
    "nulled, leftover argv tokens} x every channel, each "
    "on a freshly built real parser and - base / required / plain foreign cases - on a parser that has just performed a "
    "failing or a complete earlier parse, judged by an independent schema read from the shape declaration and the "
    "fixture signatures",
    "level_text": "The property quantifies over inputs x configurations. The parser shapes contain every node kind "
    "the statement names (top level, dotted group, dataclass argument, class group, class-typed argument with nested "
    "dataclass and nested class, List[class], List[dataclass], Dict[str,dataclass], Optional[dataclass], required "
    "subcommands two levels deep, required arguments inside subcommands, add_subclass_arguments(required=True); as "
    "extensions TypedDict, Optional[class], Union[dataclass,int], nested containers, ActionParser groups; and three "
    "construction shapes: argument links onto init args / leaves / dataclass fields, underscore-named required "
    "parameters, as_group=False and explicit argument groups), "
    "alone and combined below a subcommand; for each shape every position of every base configuration is mutated "
    "and delivered through every channel, so within the stated shapes the enumeration of positions x mutations x "
    "channels is complete, not sampled. The used-parser family repeats the base / required-key / foreign-key cases "
    "on one parser per (base, prior call) after a prior call that fails while a config source is merged into argv "
    "values, or succeeds completely: the statement holds for every parse, not only the first of a process. Vacuity guards require every node kind to be hit, every base to be accepted "
    "and to parse identically through all channels.",
    "level_note": "Trusted: the schema reader (inspect/dataclasses on mc/fixtures/c06/lib.py) and the channel "
    "renderers (cross-checked: every base configuration must be accepted and give the same result through every "
    "channel). Bounded: fixed fixture classes (int/str leaves, nesting depth <= 4), one mutation per case, lists and "
    "dicts of <= 2 items. Not judged: unknown environment variable NAMES, dict_kwargs, dotted item addressing of "
    "Dict[str,.] on argv, metadata keys (__path__), settings of a non-selected subcommand (C17), exception type of "
    "the rejection (C03).",
    "design_ref": "DESIGN.md §5 C06",
}

QUICK_CHANNELS = [
    "object",
    "string",
    "config-arg",
    "sub-config",
    "validate",
    "object:nodefaults",
    "default-config-file",
    "argv-json",
    "argv-flat",
    "env-json",
    "env-flat",
]
THOROUGH_CHANNELS = QUICK_CHANNELS + [
    "object-dotted",
    "object-namespace",
    "env-config",
    "string-yaml",
    "config-file",
    "path",
    "argv-short",
    "argv-append",
    "env-args",
    "string:nodefaults",
    "argv-flat:nodefaults",
    "config-arg:exit",
    "argv-flat:exit",
    "env-json:exit",
]

# used-parser family (see used_unit): prior calls and judged channels per tier (True = quick)
USED = {
    True: {"priors": ["argv+config-fails", "argv+config-ok"], "channels": ["string", "object", "argv-json", "env-json"]},
    False: {
        "priors": ["argv+config-fails", "argv+config-ok", "string-fails"],
        "channels": ["string", "object", "argv-json", "env-json", "config-arg", "path"],
    },
}
AIO_QUICK_SKIP = ("string", "env-flat", "default-config-file", "config-arg", "object:nodefaults", "argv-json")
USED_QUICK_SKIP = ("all-in-one", "box", "nested-containers")  # quick: the three most expensive parsers
# quick: the construction shapes (c06_schema.CONSTRUCTION_SHAPES) go through one channel per delivery mechanism: without
# --config text / default config file (text documents: `string`), per-leaf environment variables and JSON-valued options
# (`env-json` hands the same JSON values to the same value parsers), defaults=False (exists for the recursion into
# subcommand sections; these shapes have no subcommands)
CONSTRUCTION_QUICK_SKIP = ("config-arg", "default-config-file", "env-flat", "argv-json", "object:nodefaults")
# quick: in the required-only bases the spelling neighbours (truncated / extended names) go through one channel per channel
# class (JSON values on argv: a truncated name cannot be an option name); the bases with every key keep every channel.
# The names are derived from the DEFINED keys of the node, so they are the same in both bases; what differs is whether
# the neighbouring key is present - that is kept in every channel class.  (Trimmed to pay for the construction shapes.)
RELATED_MIN_QUICK = ("object", "validate", "argv-json", "env-json")
# quick: the `+`-suffixed foreign names go without env-flat (a group that holds a foreign key cannot be spread over
# per-leaf variables: the variable that carries the key has the same text as in env-json) and without
# object:nodefaults (that channel exists for the required keys; unknown keys are looked up the same way)
SUFFIXED_QUICK_SKIP = ("env-flat", "object:nodefaults")

# node kinds (label@context of foreign-key positions, kind@label of required keys) that every run must hit
REQUIRED_FOREIGN_KINDS = [
    "top",
    "dotted-group@top",
    "dotted-group@dotted-group",
    "dataclass-group@top",
    "dataclass-group@dataclass-group",
    "dataclass-value@optional",
    "class-group@top",
    "dataclass-group@class-group",
    "class-spec@class-group",
    "class-spec@top",
    "init_args@class",
    "dataclass-value@init_args",
    "class-spec@init_args",
    "class-spec@list-item-first",
    "class-spec@list-item-later",
    "dataclass-value@list-item-first",
    "dataclass-value@list-item-later",
    "dataclass-value@dict-value",
    "typed-dict@top",
    "typed-dict@list-item-later",
    "class-spec@optional",
    "dataclass-value@union",
    "class-spec@dict-value",
    "dataclass-value@dataclass-value",
    "parser-group@top",
    "dotted-group@parser-group",
    "dataclass-group@parser-group",
    "subclass-arg-spec@top",
    "init_args@subclass-arg",
    "subcommand@top",
    "subcommand@subcommand",
    "dotted-group@subcommand",
    "dataclass-group@subcommand",
    "class-group@subcommand",
    "class-spec@subcommand",
    "subclass-arg-spec@subcommand",
    # construction shapes
    "class-args-ungrouped@top",
    "class-spec@class-args-ungrouped",
    "dataclass-group@class-args-ungrouped",
]
REQUIRED_REQUIRED_KINDS = [
    "required-leaf@top",
    "required-leaf@dotted-group",
    "has-required-dotted-group@top",
    "required-leaf@dataclass-group",
    "has-required-dataclass-group@top",
    "required-dataclass-group@dataclass-group",
    "required-leaf@dataclass-value",
    "required-leaf@class-group",
    "required-spec@class-group",
    "required-spec@top",
    "required-leaf@init_args",
    "required-dataclass-value@init_args",
    "required-spec@init_args",
    "required-leaf@typed-dict",
    "required-leaf@parser-group",
    "has-required-parser-group@top",
    "required-leaf@subcommand",
    "required-spec@subcommand",
    "subcommand-selector@top",
    "subcommand-selector@subcommand",
    "has-required-subcommand-section@top",
    "has-required-subcommand-section@subcommand",
    # construction shapes: a required class-typed argument one of whose init args is a link target; required keys
    # declared with as_group=False; required keys whose name begins with an underscore, per node kind
    "required-spec-linked-init-arg@top",
    "required-spec-ungrouped@top",
    "has-required-class-args-ungrouped@top",
    "required-leaf@class-args-ungrouped",
    "required-spec@class-args-ungrouped",
    "required-dataclass-group@class-args-ungrouped",
    "required-leaf@init_args:underscore-name",
    "required-leaf@dataclass-group:underscore-name",
    "required-leaf@dataclass-value:underscore-name",
    "required-leaf@class-group:underscore-name",
    "required-dataclass-group@class-group:underscore-name",
]


# ------------------------------------------------------------------------------------------------
# judging one case


def names_key(text, key):
    """The text names `key` as a whole token (not as part of a longer identifier)."""
    return re.search(r"(?<![A-Za-z0-9_])" + re.escape(key) + r"(?![A-Za-z0-9_])", text or "") is not None


def error_text(o):
    if o["kind"] == "ArgumentError":
        return o["message"]
    if o["kind"] == "exit":
        return (o.get("stderr") or "") + (o.get("stdout") or "")
    if o["kind"] == "escape":
        return o.get("message") or ""
    return ""


def strip_config_keys(ns, rec):
    """Remove the value of the --config option itself at every parser level (it differs by channel by design)."""
    import jsonargparse

    ns = ns.clone()

    def go(ns, rec):
        if "config" in ns:
            del ns["config"]
        if rec.get("subs"):
            for name, child in rec["subs"]["choices"].items():
                if name in ns and isinstance(ns[name], jsonargparse.Namespace):
                    go(ns[name], child)

    go(ns, rec)
    return ns


def prune_empty(c):
    """Drop empty namespaces from a tcanon form (an empty section is kept or dropped depending on the channel; the
    sanity comparison of base results is about delivered VALUES)."""
    if isinstance(c, list) and len(c) == 2 and c[0] == "Namespace" and isinstance(c[1], dict):
        kept = {k: prune_empty(v) for k, v in c[1].items()}
        return ["Namespace", {k: v for k, v in kept.items() if v != ["Namespace", {}]}]
    if isinstance(c, list):
        return [prune_empty(x) for x in c]
    return c


def run_one(shape, cfg, mut, channel, parser=None):
    """Execute one case (on a fresh parser, or on the given used `parser`).  Returns dict: verdict in
    {"inexpressible", "ok", "deviation"}, signature, detail, rendering hash, and for base cases the canonical result."""
    import jsonargparse

    from mc.checks import c06_channels as C
    from mc.checks import c06_schema as S
    from mc.util import tcanon

    schema = S.parser_schema(S.SHAPES[shape])
    kind = mut[0]
    chclass = C.channel_class(channel)
    if channel == "validate":
        assert parser is None
        o, shown = C.deliver_validate(shape, cfg, mut, mut[3] if kind == "foreign" else None, mut[4] if kind == "foreign" else None)
    else:
        mutated = S.apply_mutation(schema, cfg, mut)
        leftover = [mut[1][0], mut[3]] if kind == "leftover" else None
        o, shown = C.deliver(shape, mutated, channel, leftover, parser=parser)
    res = {"verdict": "ok", "signature": None, "detail": "", "hash": None, "result": None, "okind": o["kind"]}
    if o["kind"] == "inexpressible":
        res["verdict"] = "inexpressible"
        return res
    res["hash"] = hashlib.sha1(json.dumps([shape, channel, shown], sort_keys=True, default=repr).encode()).hexdigest()[:16]
    accepted = o["kind"] == "ok" or (o["kind"] == "exit" and o.get("code") in (0, None))
    text = error_text(o)
    given = f"channel {channel} received {json.dumps(shown, default=repr)[:700]}"
    if o["kind"] == "timeout":
        res.update(verdict="deviation", signature=f"{kind}:timeout:{chclass}", detail=given)
        return res
    if kind == "base":
        if not accepted:
            res.update(
                verdict="deviation",
                signature=f"base:rejected:{channel}:{shape}:{mut[2]}",
                detail=f"valid configuration rejected: {text[:400]!r}; {given}",
            )
        elif o["kind"] == "ok" and channel != "validate":
            canon = tcanon(strip_config_keys(jsonargparse.strip_meta(o["value"]), schema))
            res["result"] = json.dumps(prune_empty(canon), sort_keys=True)
        return res
    node_kind = mut[2]
    if kind == "foreign" and len(mut) > 5:
        node_kind += f":{mut[5]}-name"  # spelling neighbour of a defined key: a root cause of its own
    if accepted:
        if kind == "foreign":
            what = f"foreign key {mut[3]!r} at {mut[1]} was accepted"
        elif kind == "remove":
            what = f"configuration without required key {mut[1]} was accepted"
        elif kind == "null":
            what = f"configuration with required key {mut[1]} = null was accepted"
        else:
            what = f"leftover argv tokens ({mut[3]}) at subcommand depth {mut[1][0]} were accepted"
        got = ""
        if o["kind"] == "ok" and o.get("value") is not None and channel != "validate":
            got = f"; result {json.dumps(jsonargparse.strip_meta(o['value']).as_dict(), default=repr)[:500]}"
        res.update(verdict="deviation", signature=f"{kind}:accepted:{chclass}:{node_kind}", detail=f"{what}; {given}{got}")
        return res
    if kind in ("foreign", "leftover"):
        # a leftover is named when the text names any of its tokens (argparse reads the value token of an unknown
        # "--opt value" pair as the subcommand name and reports that token)
        keys = [mut[3]] if kind == "foreign" else [S.FOREIGN, C.LEFTOVER_VALUE]
        if not any(names_key(text, key) for key in keys):
            res.update(
                verdict="deviation",
                signature=f"{kind}:not-named:{chclass}:{node_kind}",
                detail=f"rejected, but the error text does not name {keys[0]!r}: {text[:1500]!r}; {given}",
            )
    return res


def run_used(shape, cfg, mut, channel, prior, history=()):
    """One case of the used-parser family from scratch: fresh parser; for every (mutation, channel) of `history`
    the prior call and that case; then the prior call and the judged case - all on the same parser object."""
    from mc.checks import c06_channels as C
    from mc.checks import c06_schema as S

    parser = S.build_parser(S.SHAPES[shape])
    for hmut, hch in history:
        C.prior_call(parser, shape, cfg, prior)
        run_one(shape, cfg, hmut, hch, parser=parser)
    C.prior_call(parser, shape, cfg, prior)
    r = run_one(shape, cfg, mut, channel, parser=parser)
    if r["verdict"] == "deviation":
        r["signature"] = f"used-parser:{prior}:{r['signature']}"
        r["detail"] = (
            f"on a parser that had performed the call {prior!r} ({C.PRIORS[prior]}) with the valid configuration"
            + (f" and {len(history)} earlier cases" if history else "")
            + f" (a fresh parser judges this input correctly): {r['detail']}"
        )
    return r


def run_case(case):
    if case.get("special") == "parse_known_args":
        return known_args_case(case["shape"])
    if case.get("prior"):
        r = run_used(case["shape"], case["cfg"], case["mut"], case["ch"], case["prior"], case.get("history") or ())
    else:
        r = run_one(case["shape"], case["cfg"], case["mut"], case["ch"])
    if r["verdict"] == "deviation":
        return [{"signature": r["signature"], "detail": r["detail"]}]
    return []


def known_args_case(shape):
    """parse_known_args (argparse's lenient mode) must refuse callers outside the library."""
    from mc.checks import c06_schema as S
    from mc.util import outcome

    parser = S.build_parser(S.SHAPES[shape])
    o = outcome(parser.parse_known_args, ["--" + S.FOREIGN + "=1"])
    if o["kind"] == "escape" and o["type"].endswith("NotImplementedError"):
        return []
    return [
        {
            "signature": "parse_known_args:available-to-external-callers",
            "detail": f"parse_known_args(['--zzq=1']) from outside the library gave {o['kind']}: "
            f"{str(o.get('value', o.get('message')))[:300]}",
        }
    ]


# ------------------------------------------------------------------------------------------------
# work units


def unit(arg):
    """Worker: one (shape, base configuration, mutation) through the given channels."""
    shape, cfg, mut, channels = arg
    out = {"shape": shape, "mut": mut, "rows": [], "cfg": cfg}
    for ch in channels:
        r = clean_context(run_one, shape, cfg, mut, ch)
        out["rows"].append((ch, r["verdict"], r["signature"], r["detail"], r["hash"], r["result"], r["okind"]))
    return out


def clean_context(fn, *args):
    """Run fn in an empty contextvars.Context: the library keeps its per-call state in context variables, a case that
    claims to start from scratch must not inherit them from earlier cases of the same worker process (the driver
    re-executes witnesses in fresh processes)."""
    import contextvars

    return contextvars.Context().run(fn, *args)


def used_unit(arg, _clean=False):
    """Worker of the used-parser family: ONE parser for (shape, base configuration, prior); for every mutation and
    channel the prior call and then the judged case on that same parser, so every judged case sees a parser that has
    just performed the prior call and, before it, all earlier cases of the sequence (themselves failing parses of
    every kind).  A deviation is reported only when a fresh parser judges the same input correctly (otherwise it is
    the fresh-parser family's finding); the witness is the shortest of [prior, case] / [whole sequence so far] that
    reproduces from scratch."""
    from mc.checks import c06_channels as C
    from mc.checks import c06_schema as S

    if not _clean:
        return clean_context(used_unit, arg, True)
    shape, cfg, prior, muts, channels = arg
    parser = S.build_parser(S.SHAPES[shape])
    out = {"shape": shape, "cfg": cfg, "prior": prior, "rows": [], "prior_kinds": {}}
    history = []
    for mut in muts:
        for ch in channels:
            po = C.prior_call(parser, shape, cfg, prior)
            out["prior_kinds"][po["kind"]] = out["prior_kinds"].get(po["kind"], 0) + 1
            r = run_one(shape, cfg, mut, ch, parser=parser)
            row = {"mut": mut, "ch": ch, "verdict": r["verdict"], "hash": r["hash"], "okind": r["okind"]}
            if r["verdict"] == "deviation":
                fresh = clean_context(run_one, shape, cfg, mut, ch)
                if fresh["verdict"] == "deviation" and fresh["signature"] == r["signature"]:
                    row["verdict"] = "same-on-fresh-parser"
                else:
                    alone = clean_context(run_used, shape, cfg, mut, ch, prior)
                    if alone["verdict"] == "deviation":
                        row.update(signature=alone["signature"], detail=alone["detail"], history=[])
                    else:
                        again = clean_context(run_used, shape, cfg, mut, ch, prior, history)
                        row.update(
                            signature=f"used-parser:{prior}:{r['signature']}",
                            detail=again["detail"] or r["detail"],
                            history=list(history),
                        )
            out["rows"].append(row)
            if r["verdict"] != "inexpressible":
                history.append([mut, ch])
    return out


def plan(ctx):
    """(base items, mutation items, bases, channels): items are (shape, cfg, mut, channels), simplest shapes first."""
    from mc.checks import c06_channels as C
    from mc.checks import c06_schema as S

    channels = QUICK_CHANNELS if ctx.quick else THOROUGH_CHANNELS
    base_items, mut_items, bases, used_items = [], [], [], []
    used_priors, used_channels = USED[ctx.quick]["priors"], USED[ctx.quick]["channels"]
    only = [x for x in os.environ.get("C06_SHAPES", "").split(",") if x]  # development aid; reported as a cap
    for shape in S.SHAPES:
        if only and shape not in only:
            continue
        schema = S.parser_schema(S.SHAPES[shape])
        has_subs = bool(S.SHAPES[shape]["sub"])
        chans = [c for c in channels if has_subs or c != "sub-config"]
        if ctx.quick and shape == "all-in-one":
            # quick: the expensive parser keeps one channel per channel class plus the per-level --config (object,
            # sub-config, validate, argv-flat, env-json); the other six channels are explored for every node kind in
            # the single-kind shapes and below subcommands in the shape "subcommands"
            chans = [c for c in chans if c not in AIO_QUICK_SKIP]
        if shape in S.CONSTRUCTION_SHAPES:
            # thorough: the eleven quick channels (the further spellings / loaders are explored in the node-kind shapes)
            chans = [c for c in QUICK_CHANNELS if c != "sub-config" and not (ctx.quick and c in CONSTRUCTION_QUICK_SKIP)]
        for mode, variant, subpath, cfg in S.base_configs(shape):
            if ctx.quick and shape in S.CONSTRUCTION_SHAPES and mode != "full":
                # quick: the bases with every key (their required keys and nodes include those of the required-only bases)
                continue
            if ctx.quick and shape == "all-in-one" and subpath == ["go", "all"] and (mode, variant) != ("full", 1):
                # quick: the expensive all-in-one parser gets the one of its four go/all bases that has every key
                # and both classes of every class-typed node (list items alternate); the single-kind shapes
                # explore all of their bases
                continue
            tag = f"{'/'.join(subpath) or '-'}:{mode}:{variant}"
            bases.append((shape, tag))
            base_items.append((shape, cfg, ["base", [], tag], chans))
            # quick: foreign key zzq = 1 everywhere and additionally zzq = null in all but the three most expensive
            # parsers (a null value matters to check_values' skip_none, at every group-like / parser-level node kind
            # of the other shapes)
            construction = shape in S.CONSTRUCTION_SHAPES
            values = (1,) if shape in USED_QUICK_SKIP or (ctx.quick and construction) else (1, None)
            # the spelling neighbours of defined keys (truncated / extended names): quick in the single-kind shapes;
            # thorough one pair per defined key there, and one pair per node in the fullest base of all-in-one
            if shape == "all-in-one":
                related = not ctx.quick and (subpath, mode, variant) == (["go", "all"], "full", 1)
            else:
                # the construction shapes (links / underscore names / presentation options) vary HOW keys are
                # declared; they get the plain foreign key and every required key (thorough: also zzq = null, the
                # required-only bases, all quick channels, used parsers), the name classes and the names defined
                # elsewhere stay with the shapes that vary the node kinds
                related = not construction
            every = not ctx.quick and shape != "all-in-one"
            # the `+`-suffixed names (append suffix on a name that is no list-typed key of the node), wherever the
            # spelling neighbours are explored.  quick: the never-defined name (`zzq+`) in the bases with every key (the
            # nodes of a required-only base are a subset of the nodes of the full base of the same variant; the name
            # is present in neither), the defined non-list name (`yaw+`) in every base (its base key is present in one
            # and absent in the other); both without the channels SUFFIXED_QUICK_SKIP.  thorough: every base, every
            # channel, and in the bases with every key one defined name per KIND of non-list key of the node
            muts = S.mutations(
                schema, cfg, subpath, rich=not ctx.quick and not construction, values=values, related=related, related_every=every,
                suffixed=related, suffixed_every=every and mode == "full",
            )
            if ctx.quick and mode != "full":
                muts = [m for m in muts if not (len(m) > 5 and m[5] == "plus-suffixed")]
            for mut in muts:
                mchans = chans
                if ctx.quick and len(mut) > 5 and mut[5].startswith("plus-"):
                    mchans = [c for c in chans if c not in SUFFIXED_QUICK_SKIP]
                if ctx.quick and mode != "full" and len(mut) > 5 and mut[5] in ("truncated", "extended"):
                    mchans = [c for c in chans if c in RELATED_MIN_QUICK]
                mut_items.append((shape, cfg, mut, mchans))
            # used-parser family: the base, every required key removed / nulled and the plain foreign key at every node
            if mode != "full" or (ctx.quick and (shape in USED_QUICK_SKIP or construction)):
                continue  # the keys of a required-only base are a subset of those of the full base of the same variant
            if not C.priors_applicable(shape, cfg):
                continue  # (no such base among the full ones; kept for new shapes)
            plain = [["base", [], tag]] + [
                m for m in muts if m[0] in ("remove", "null") or (m[0] == "foreign" and m[3:] == [S.FOREIGN, 1])
            ]
            priors, uchans = used_priors, used_channels
            if shape == "all-in-one":  # thorough only: the expensive parser gets its fullest base, one prior, the text channels
                if (subpath, mode, variant) != (["go", "all"], "full", 1):
                    continue
                priors, uchans = used_priors[:1], ["string", "object"]
            for prior in priors:
                used_items.append((shape, cfg, prior, plain, uchans))
    return base_items, mut_items, bases, channels, used_items


def explore(ctx):
    from mc.checks import c06_channels as C
    from mc.checks import c06_schema as S

    base_items, mut_items, bases, channels, used_items = plan(ctx)
    tot = {"evaluations": 0, "inexpressible": 0, "base_accept": 0, "named": 0, "required": 0, "skipped": 0}
    used = {"cases": 0, "base_accept": 0, "named": 0, "required": 0, "same_on_fresh_parser": 0, "sequences": 0}
    prior_outcomes, related_hit = {}, {}
    hashes, states = set(), set()
    kinds_hit, base_results, per_channel, per_shape = {}, {}, {}, {}
    base_rejected = {}  # (shape, cfg json) -> channels in which the valid base itself is rejected
    mismatches = []
    sampled = set()

    def absorb(out):
        shape, mut, cfg = out["shape"], out["mut"], out["cfg"]
        kind = mut[0]
        states.add(hashlib.sha1(json.dumps([shape, cfg, mut], sort_keys=True).encode()).hexdigest()[:16])
        for ch, verdict, sig, detail, h, result, okind in out["rows"]:
            case = {"shape": shape, "cfg": cfg, "mut": mut, "ch": ch}
            if verdict == "inexpressible":
                tot["inexpressible"] += 1
                ctx.count(f"inexpressible:{C.channel_class(ch)}:{kind}")
                continue
            tot["evaluations"] += 1
            per_channel[ch] = per_channel.get(ch, 0) + 1
            per_shape[shape] = per_shape.get(shape, 0) + 1
            if kind != "base":
                hashes.add(h)
                kinds_hit[(kind, mut[2])] = kinds_hit.get((kind, mut[2]), 0) + 1
                if kind == "foreign" and len(mut) > 5:
                    related_hit.setdefault(mut[5], set()).add(mut[2])
            if verdict == "deviation":
                ctx.deviation(sig, case, detail)
                if kind == "base":
                    base_rejected.setdefault((shape, json.dumps(cfg, sort_keys=True)), set()).add(ch)
                continue
            if kind == "base":
                tot["base_accept"] += 1
                if result is not None:
                    base_results.setdefault(json.dumps([shape, cfg], sort_keys=True), {})[ch] = result
                continue
            ctx.count(f"rejected:{kind}:{C.channel_class(ch)}")
            if kind == "foreign" and len(mut) > 5:
                ctx.count(f"rejected-and-named:{mut[5]}-name")
            ctx.count(f"rejection-kind:{okind}")
            tot["named" if kind in ("foreign", "leftover") else "required"] += 1
            tag = (kind, C.channel_class(ch))
            if tag not in sampled and len(json.dumps(cfg)) < 400:
                sampled.add(tag)
                ctx.sample(case, limit=16)

    # phase 1: every valid base configuration through every channel
    for out in ctx.pmap(unit, base_items):
        absorb(out)
    # phase 2: the mutations; a channel in which the base itself is rejected says nothing about its mutations
    todo = []
    for shape, cfg, mut, chans in mut_items:
        bad = base_rejected.get((shape, json.dumps(cfg, sort_keys=True)), ())
        if bad:
            tot["skipped"] += sum(1 for c in chans if c in bad)
            chans = [c for c in chans if c not in bad]
        todo.append((shape, cfg, mut, chans))
    for out in ctx.pmap(unit, todo):
        absorb(out)
    # phase 3: the used-parser family
    for out in ctx.pmap(used_unit, used_items):
        shape, cfg, prior = out["shape"], out["cfg"], out["prior"]
        used["sequences"] += 1
        for k, n in out["prior_kinds"].items():
            prior_outcomes[f"{prior}:{k}"] = prior_outcomes.get(f"{prior}:{k}", 0) + n
        for row in out["rows"]:
            mut, ch, verdict = row["mut"], row["ch"], row["verdict"]
            if verdict == "inexpressible":
                tot["inexpressible"] += 1
                continue
            tot["evaluations"] += 2  # the prior call and the judged call
            used["cases"] += 1
            per_channel["used:" + ch] = per_channel.get("used:" + ch, 0) + 1
            per_shape[shape] = per_shape.get(shape, 0) + 1
            states.add(hashlib.sha1(json.dumps([shape, cfg, mut, prior], sort_keys=True).encode()).hexdigest()[:16])
            hashes.add(f"{row['hash']}:{prior}")
            case = {"shape": shape, "cfg": cfg, "mut": mut, "ch": ch, "prior": prior}
            if verdict == "same-on-fresh-parser":
                used["same_on_fresh_parser"] += 1
            elif verdict == "deviation":
                if row["history"]:
                    case["history"] = row["history"]
                ctx.deviation(row["signature"], case, row["detail"])
            elif mut[0] == "base":
                used["base_accept"] += 1
            else:
                used["named" if mut[0] == "foreign" else "required"] += 1
                if ("used", prior) not in sampled and len(json.dumps(cfg)) < 400:
                    sampled.add(("used", prior))
                    ctx.sample(case, limit=16)
    shapes_run = sorted({s for s, _ in bases}, key=list(S.SHAPES).index)
    for shape in shapes_run:
        tot["evaluations"] += 1
        for d in known_args_case(shape):
            ctx.deviation(d["signature"], {"special": "parse_known_args", "shape": shape}, d["detail"])

    # harness sanity: a base configuration must parse to the same result through every channel, otherwise a
    # renderer does not deliver what the case says (that would make rejections of its mutations meaningless)
    for key, by_ch in base_results.items():
        for group in (False, True):  # results with and without defaults are compared among themselves
            members = {ch: r for ch, r in by_ch.items() if ("nodefaults" in ch) == group}
            ref = members.get("object:nodefaults" if group else "object")
            for ch, res in members.items():
                if ref is not None and res != ref:
                    mismatches.append((json.loads(key)[0], ch))
    subset = os.environ.get("C06_SHAPES")
    ctx.cover(
        evaluations=tot["evaluations"],
        states=len(states),
        transitions=tot["evaluations"],
        traces_validated_against_impl=tot["evaluations"],
        distinct_nontrivial=len(hashes),
        rule="a case = (parser shape, valid base configuration, one mutation, channel), run on a fresh parser, or "
        "(..., prior call) run on a used parser (counted as two evaluations: the prior call and the judged call); "
        "states = distinct (shape, base, mutation[, prior]); distinct_nontrivial = distinct (shape, channel, exact input "
        "handed to the library[, prior]) among MUTATED cases that are expressible in their channel (base cases of the "
        "fresh-parser family and inexpressible combinations are not counted)",
        exhaustive=not subset,
        caps_hit=[f"C06_SHAPES={subset}: only these shapes explored"] if subset else [],
        bounds={
            "shapes": shapes_run,
            "base_configurations": len(bases),
            "bases": [f"{s}:{t}" for s, t in bases],
            "mutations": len(mut_items),
            "channels": channels,
            "foreign_key": "zzq = 1 (all shapes) and zzq = null (all shapes but " + ", ".join(USED_QUICK_SKIP) + ")"
            if ctx.quick
            else "names {never-defined zzq, own name of the node, a key of a child node, a parameter of a sibling "
            "class, init_args} x values {1, null, {x: 1}} (values for zzq only)",
            "list_and_dict_items": "<= 2",
            "foreign_key_related_names": "one truncated and one extended spelling of a defined key per node (value 1); "
            "not in all-in-one"
            if ctx.quick
            else "per node every defined key truncated by one letter / extended by one letter (all-in-one: one truncated "
            "and one extended name per node, in its fullest base)",
            "foreign_key_suffixed_names": "append suffix on a name that is no list-typed key of the node, value 1, not in "
            "all-in-one: zzq+ per node of every base with every key, <defined non-list key>+ per node of every base; "
            "without the channels " + ", ".join(SUFFIXED_QUICK_SKIP)
            if ctx.quick
            else "zzq+ per node and <defined non-list key>+ (one per node; in the bases with every key one per kind of "
            "non-list key) in every base and channel (all-in-one: its fullest base)",
            "used_parser_family": "shapes "
            + ("without " + ", ".join(USED_QUICK_SKIP) if ctx.quick else "all (all-in-one: 1 base, 1 prior, 2 channels)")
            + "; bases with every key"
            + "; base + required keys removed / nulled + foreign key zzq = 1 at every node; one parser per (base, prior)",
            "construction_shapes": ", ".join(S.CONSTRUCTION_SHAPES)
            + (
                ": bases with every key, foreign key zzq = 1, required keys removed / nulled, leftovers; without the channels "
                + ", ".join(CONSTRUCTION_QUICK_SKIP)
                + "; no name classes, no used-parser family"
                if ctx.quick
                else ": every base, zzq = 1 / null, required keys, leftovers, the quick channels, used-parser family; no name classes"
            ),
            "quick_reduction": "all-in-one/go/all explores 1 of its 4 base configurations (full:1), without the channels "
            + ", ".join(AIO_QUICK_SKIP)
            + "; truncated / extended names in the required-only bases through "
            + ", ".join(RELATED_MIN_QUICK)
            + " only"
            if ctx.quick
            else None,
        },
        inexpressible_combinations=tot["inexpressible"],
        skipped_because_base_rejected_in_channel=tot["skipped"],
        per_channel=dict(sorted(per_channel.items())),
        per_shape=dict(sorted(per_shape.items())),
        node_kinds_hit={f"{k}:{n}": c for (k, n), c in sorted(kinds_hit.items())},
        base_cases_accepted=tot["base_accept"],
        rejected_foreign_named=tot["named"],
        rejected_required=tot["required"],
        related_name_kinds_hit={t: len(v) for t, v in sorted(related_hit.items())},
        used_parser_family={
            **used,
            "priors": {p: C.PRIORS[p] for p in USED[ctx.quick]["priors"]},
            "channels": USED[ctx.quick]["channels"],
            "prior_outcomes": dict(sorted(prior_outcomes.items())),
        },
    )
    ctx.assume("unknown environment variable NAMES are not configuration keys (shared environment) - not judged")
    ctx.assume("dict_kwargs, __path__ and the keys of Dict[str,.] arguments are not foreign keys")
    ctx.assume("a required subcommand is removed together with its settings sections (selection by section is C17)")
    ctx.assume("sections of NON-selected subcommands are dropped unvalidated by design (C17); keys in them are not judged")
    ctx.require(not mismatches, f"every base configuration parses identically through all channels (differs: {mismatches[:5]})")
    if subset:
        return  # development run on a subset of the shapes: coverage guards do not apply (reported as a cap)
    from mc.core import load_known

    known = {e.get("signature") for e in load_known("C06") if e.get("status") == "open"}
    if set(ctx.deviations) - known:
        # the coverage guards below describe a run without (new) deviations: the mutations of a base are not run in a
        # channel in which the base itself is rejected, so a tree that rejects every base of a shape (seed C06-8) would
        # otherwise end as "kind not hit" (harness error) instead of reporting the rejected bases
        return
    hit_foreign = {n for (k, n) in kinds_hit if k == "foreign"}
    hit_required = {n for (k, n) in kinds_hit if k in ("remove", "null")}
    missing = [k for k in REQUIRED_FOREIGN_KINDS if k not in hit_foreign]
    ctx.require(not missing, f"every node kind receives a foreign key (missing: {missing})")
    missing = [k for k in REQUIRED_REQUIRED_KINDS if k not in hit_required]
    ctx.require(not missing, f"every kind of required key is removed and nulled (missing: {missing})")
    related_shapes = {shape for shape, _, m, _ in mut_items if len(m) > 5}
    expected = {m[2] for shape, _, m, _ in mut_items if m[0] == "foreign" and shape in related_shapes}
    for tagname in ("truncated", "extended", "plus-suffixed", "plus-suffixed-defined"):
        missing = [k for k in REQUIRED_FOREIGN_KINDS if k in expected and k not in related_hit.get(tagname, ())]
        ctx.require(not missing, f"every node kind receives a foreign key with a {tagname} name (missing: {missing})")
    wrong = [k for k in prior_outcomes if k.split(":")[-1] != {"fails": "ArgumentError", "ok": "ok"}[C.PRIORS[k.rsplit(":", 1)[0]]]]
    ctx.require(not wrong, f"every prior call of the used-parser family ends as its kind says (others: {wrong})")
    ctx.require(
        used["sequences"] == len(used_items) and used["base_accept"] >= 3 * used["sequences"],
        "used-parser family: the base configuration is accepted through >= 3 channels on every used parser",
    )
    ctx.require(used["required"] > 300 and used["named"] > 300, "used-parser family: more than 300 required-key and 300 foreign-key rejections")
    ctx.require(tot["base_accept"] >= len(bases) * 5, "every base configuration accepted through >= 5 channels")
    ctx.require(tot["named"] > 1000 and tot["required"] > 500, "more than 1000 foreign-key and 500 required-key rejections")
    for cls in ("config", "argv", "env", "validate"):
        ctx.require(
            any(C.channel_class(ch) == cls and n > 100 for ch, n in per_channel.items()),
            f"more than 100 cases through a channel of class {cls}",
        )
