"""C12 generator: signatures, programs (real source modules), inputs and the expected binding.

Nothing here imports jsonargparse.  Everything is a JSON value:

* a *parameter*  is ``[type_key, has_default (0/1), kind ("P" positional-or-keyword | "K" keyword-only)]``;
* a *signature* is a list of parameters that Python accepts (required "P" before defaulted "P", every "P" before
  every "K");
* a *program*   is ``{"form": ..., ...}`` (see ``leaves`` and ``c12.space``), rendered by ``source`` into one importable module;
* an *input*    is ``{"sel": leaf index, "as_pos": bool, "assign": [[[channel, alt], ...] per stage], "layout": "ol"|"of",
  "style": "eq"|"sp", "cfg": "top"|"own"[, "cfgpos": "last"][, "sib": leaf index][, "cfg2": level]}`` with channel
  "-" (omitted), "a" (argv), "c" (--config file) or "d" (a SECOND --config file, given at parser level ``cfg2``: 0 =
  at the top level directly after the first one, k = after the token of the k-th sub-command level; it holds nested
  sections for the levels below its own); alt picks the other one of the two values of the type; layout = positionals or
  options first; style = ``--name=value`` or ``--name value``; cfg = one top-level config with nested sections or one
  config per parser level; cfgpos = --config after the other tokens of its level; sib = the top-level config also
  holds a complete section for that sibling leaf; ``"selcfg": k`` = the tokens of the last k sub-command levels are
  not written on the command line, those levels are selected by an explicit ``"subcommand"`` key in the top-level
  config (their parameters can then only come from that config or be omitted).
* class programs: ``"mkind"`` / ``"m2kind"`` = kind of the method m1 / m2 ("inst" | "cls" = @classmethod | "static" =
  @staticmethod; default "inst"); ``"inh"`` = which members the class K given to auto_cli merely inherits from a base
  class B ("" none | "meth" the methods | "init" the constructor | "all" both, K's body is ``pass``).
* mixed programs: ``"nmeth": 2`` gives the class the second method m2; ``"nest": 1`` puts the class one level deeper
  (``{"fa": fa, "grp": {"K": K}}`` instead of ``[fa, K]``).
* ``program["flip"] = 1`` makes every parameter use the other default and the other value (the choice between the two
  is otherwise fixed by the parity of position + role, so that same-named parameters of two components differ).

* type keys: the 8 of ``TYPE_ORDER`` (the product alphabet) and the 11 of ``X_ORDER`` (second alphabet: Optional of
  str / enum / parametrized generics / a Union, Tuple, a dataclass, Optional[dataclass], a class given by class_path,
  Optional[class]; ``xsignatures`` = one of them at one position, ``int`` elsewhere).

The interface rule the harness relies on (documented for auto_cli): with ``as_positional=True`` a parameter without
default whose annotation is not Optional is a positional argument (in signature order); every other parameter is the
option ``--<name>``.  A parameter typed with a dataclass is never a positional: its fields are the options
``--<name>.<field>`` and ``--<name>`` takes the whole value; it is required when the dataclass has a field without
default (the generated ``Opt`` has one).  A class-typed value is ``{"class_path": ..., "init_args": {...}}``.  Positional tokens are consumed in order, therefore within one parser level the positionals given
on the command line must be a prefix of that level's positionals, and a sub-command token can only be written when
every positional of the level before it is on the command line too (``build`` returns None for inputs that cannot be
written down; they are counted, not judged).
"""
from __future__ import annotations

import hashlib
import itertools
import json

# type_key -> (annotation, [given value 0, given value 1], [default 0, default 1])
# a given value is (python source of the expected object, argv token, JSON config value)
TYPES = {
    "int": ("int", [("7", "7", 7), ("-3", "-3", -3)], ["11", "12"]),
    "str": ("str", [("'ab'", "ab", "ab"), ("'12'", "12", "12")], ["'dflt'", "'d2'"]),
    "float": ("float", [("2.5", "2.5", 2.5), ("3.0", "3", 3)], ["1.5", "0.25"]),
    "bool": ("bool", [("False", "false", False), ("True", "true", True)], ["True", "False"]),
    "optint": ("Optional[int]", [("5", "5", 5), ("None", "null", None)], ["None", "4"]),
    "list": ("List[int]", [("[1, 2]", "[1,2]", [1, 2]), ("[]", "[]", [])], ["[3]", "[4, 5]"]),
    "enum": ("E", [("E.B", "B", "B"), ("E.C", "C", "C")], ["E.A", "E.B"]),
    "dict": ("Dict[str, int]", [("{'a': 1}", '{"a":1}', {"a": 1}), ("{}", "{}", {})], ["{'k': 2}", "{'j': 3}"]),
}
TYPE_ORDER = ["int", "str", "float", "bool", "optint", "list", "enum", "dict"]
# third value of a type (alt = 2): the "zero" value - valid, but falsy / empty (0, '', 0.0, False, [], {}); a type
# without one (enum) keeps its ordinary value
ZERO = {
    "int": ("0", "0", 0),
    "str": ("''", "", ""),
    "float": ("0.0", "0", 0),
    "bool": ("False", "false", False),
    "optint": ("0", "0", 0),
    "list": ("[]", "[]", []),
    "dict": ("{}", "{}", {}),
}

# The second alphabet ("X types"): Optional[...] of parametrized generics / str / enum / a Union, a Tuple, and
# class-typed parameters (a dataclass, Optional[dataclass], a class given by class_path, Optional[class]).  They are
# not part of the product over TYPE_ORDER (cost); `xsignatures` puts one of them at every position of every pattern.
# An argv token is a string (one token; "@MOD" = name of the generated module) or, for the options of a dataclass, a
# list of [suffix, token] pairs ("--<name><suffix>=<token>": [".lr", "0.5"] = the field option, ["", json] = the
# whole value).  Values of class types are always complete (every field / init argument given), so that nothing
# depends on how a partial value is merged with a default instance.
_OPT0 = ("Opt(lr=0.5, steps=6)", [[".lr", "0.5"], [".steps", "6"]], {"lr": 0.5, "steps": 6})
_OPT1 = ("Opt(lr=2.0, steps=1)", [["", '{"lr":2,"steps":1}']], {"lr": 2, "steps": 1})
_CLS0 = (
    "BigModel(size=4)",
    '{"class_path":"@MOD.BigModel","init_args":{"size":4}}',
    {"class_path": "@MOD.BigModel", "init_args": {"size": 4}},
)
_CLS1 = (
    "Model(size=2)",
    '{"class_path":"@MOD.Model","init_args":{"size":2}}',
    {"class_path": "@MOD.Model", "init_args": {"size": 2}},
)
_NULL = ("None", "null", None)
# values that contain characters of the command line syntax itself ('=' of --name=value, '.' of --name.key): a plain
# str, the items of a Dict[str, str] given one by one as --name.key=value, the str field of a dataclass as --name.field=value
_SD0 = ("{'u': 'k=v', 'w': 'x=='}", [[".u", "k=v"], [".w", "x=="]], {"u": "k=v", "w": "x=="})
_SD1 = ("{'u': 'a.b=c'}", '{"u":"a.b=c"}', {"u": "a.b=c"})
_NOTE0 = ("Note(text='k=v', n=2)", [[".text", "k=v"], [".n", "2"]], {"text": "k=v", "n": 2})
_NOTE1 = ("Note(text='x==', n=0)", [["", '{"text":"x==","n":0}']], {"text": "x==", "n": 0})
XTYPES = {
    "optstr": ("Optional[str]", [("'ab'", "ab", "ab"), _NULL], ["None", "'d2'"]),
    "optlist": ("Optional[List[int]]", [("[1, 2]", "[1,2]", [1, 2]), _NULL], ["None", "[4, 5]"]),
    "optdict": ("Optional[Dict[str, int]]", [("{'a': 1}", '{"a":1}', {"a": 1}), _NULL], ["None", "{'j': 3}"]),
    "optenum": ("Optional[E]", [("E.B", "B", "B"), _NULL], ["None", "E.C"]),
    "opttuple": ("Optional[Tuple[int, str]]", [("(1, 'a')", '[1,"a"]', [1, "a"]), _NULL], ["None", "(2, 'b')"]),
    "optunion": ("Optional[Union[int, List[int]]]", [("[3]", "[3]", [3]), ("6", "6", 6)], ["None", "7"]),
    "tuple": ("Tuple[int, str]", [("(1, 'a')", '[1,"a"]', [1, "a"]), ("(0, 'zz')", '[0,"zz"]', [0, "zz"])], ["(2, 'b')", "(3, 'c')"]),
    "dc": ("Opt", [_OPT0, _OPT1], ["Opt(lr=0.25, steps=2)", "Opt(lr=1.5, steps=3)"]),
    "optdc": ("Optional[Opt]", [_OPT0, _NULL], ["None", "Opt(lr=0.25, steps=2)"]),
    "cls": ("Model", [_CLS0, _CLS1], ["Model(size=8)", "BigModel(size=9)"]),
    "optcls": ("Optional[Model]", [_CLS0, _NULL], ["None", "Model(size=8)"]),
    "eqstr": ("str", [("'k=v'", "k=v", "k=v"), ("'a.b=c'", "a.b=c", "a.b=c")], ["'d=1'", "'e=='"]),
    # the defaults have no key besides u / w: whether items given one by one are merged into the default is not judged
    "sdict": ("Dict[str, str]", [_SD0, _SD1], ["{'u': 'o=1'}", "{'u': 'p', 'w': 'q=2'}"]),
    "sdc": ("Note", [_NOTE0, _NOTE1], ["Note(text='t=0', n=3)", "Note(text='q', n=4)"]),
}
X_ORDER = list(XTYPES)
TYPES.update(XTYPES)
OPTIONAL = {"optint"} | {t for t in XTYPES if t.startswith("opt")}  # omitted without default -> None
NEVER_POSITIONAL = {"dc", "sdc"}  # a dataclass-typed parameter is a group of options --name.field (and --name = whole value)
MUTABLE = {"list", "dict", "optlist", "optdict", "dc", "optdc", "sdict", "sdc"}
CLASS_TYPED = {"dc", "optdc", "cls", "optcls", "sdc"}  # dataclass form: default through default_factory

HEADER = '''\
import dataclasses
import enum
from typing import Dict, List, Optional, Tuple, Union


class E(enum.Enum):
    A = 1
    B = 2
    C = 3


CALLS = []
TOKENS = []


class Token:
    def __init__(self, name):
        self.name = name


def _log(name, kwargs, owner=None):
    CALLS.append((name, kwargs, owner))
    return len(CALLS) - 1


def _token(name):
    t = Token(name)
    TOKENS.append(t)
    return t

'''

# only in programs that use a class-typed parameter: a dataclass with one field without default (so that a parameter
# of this type without default is really required) and a class with a subclass, both to be given by class_path
HEADER_X = '''
@dataclasses.dataclass
class Opt:
    lr: float
    steps: int = 5


class Model:
    def __init__(self, size: int = 1):
        self.size = size


class BigModel(Model):
    pass


@dataclasses.dataclass
class Note:
    text: str
    n: int = 1

'''


# ---------------------------------------------------------------------------------------------------
# signatures


def patterns(n):
    """All (has_default, kind) sequences of length n that are legal Python: P-required* P-default* then any K."""
    out = []
    for p in range(n, -1, -1):  # number of positional-or-keyword parameters
        for req in range(p, -1, -1):  # required ones come first
            head = [(0, "P")] * req + [(1, "P")] * (p - req)
            for tail in itertools.product([(0, "K"), (1, "K")], repeat=n - p):
                out.append(head + list(tail))
    return out


def type_vectors(n, max_dev=None):
    """All type vectors of length n; with max_dev: only those differing from `int` in at most max_dev positions."""
    for tv in itertools.product(TYPE_ORDER, repeat=n):
        if max_dev is None or sum(t != "int" for t in tv) <= max_dev:
            yield tv


def signatures(n, max_dev=None):
    for pat in patterns(n):
        for tv in type_vectors(n, max_dev):
            yield [[t, d, k] for t, (d, k) in zip(tv, pat)]


def xsignatures(n):
    """Every pattern of length n x every position x every X type at that position, `int` elsewhere."""
    for pat in patterns(n):
        for pos in range(n):
            for x in X_ORDER:
                yield [[x if i == pos else "int", d, k] for i, (d, k) in enumerate(pat)]


def rotate(sig, by):
    """Same pattern, every type moved `by` places along its type alphabet (sibling components of list / dict forms)."""
    out = []
    for t, d, k in sig:
        order = TYPE_ORDER if t in TYPE_ORDER else X_ORDER
        out.append([order[(order.index(t) + by) % len(order)], d, k])
    return out


def is_positional(param, as_pos):
    t, d, _ = param
    return bool(as_pos) and not d and t not in OPTIONAL and t not in NEVER_POSITIONAL


def is_required(param):
    t, d, _ = param
    return not d and t not in OPTIONAL


def uses_class_types(program):
    return any(t in CLASS_TYPED for leaf in leaves(program) for st in leaf for t, _, _ in st["sig"])


# ---------------------------------------------------------------------------------------------------
# programs -> stages


KINDS = ("inst", "cls", "static")  # kinds of public methods: plain, @classmethod, @staticmethod
INHERIT = ("", "meth", "init", "all")  # what the class given to auto_cli inherits from its base class instead of defining it
DECOY_M2 = [["int", 1, "P"], ["str", 1, "K"]]  # second method of two-method classes: m2(self, p0: int = .., *, z: str = ..)


# The parameter-name axis: names the library itself uses (keys that auto_cli adds to or pops from the parsed
# namespace, built-in options, attribute / method names of Namespace), grouped by what they could clash with; the
# last group holds neutral control names.  `program["pname"] = {"at": "leaf" | "init" | "meth", "i": index, "name": n}`
# gives ONE parameter of the enumerated component that name.
NAME_CLASSES = {
    "subcommand": ["subcommand"],
    "config": ["config"],
    "like-a-built-in-option": ["help", "print_config"],
    "like-Namespace-attribute": ["items", "values", "keys", "get", "update", "clone", "pop", "as_dict"],
    "other-library-name": ["cfg"],
    "neutral-control": ["alpha", "beta_two"],
}
NAMES = [n for names in NAME_CLASSES.values() for n in names]
NAME_CLASS = {n: c for c, names in NAME_CLASSES.items() for n in names}
NAME_TYPES = ["int", "str", "dict"]


def leaves(program):
    """`_leaves` with the renamed parameter of the parameter-name axis (program["pname"]) applied."""
    out = _leaves(program)
    pn = program.get("pname")
    if pn:
        form = program["form"]
        for li, leaf in enumerate(out):
            for st in leaf:
                if form in ("func", "dict", "plainclass"):
                    hit = st["callee"] is not None
                elif form == "list":
                    hit = st["callee"] == "fa"
                else:  # class
                    hit = st["callee"] == ("K.__init__" if pn["at"] == "init" else "K.m1")
                if hit and st["sig"]:
                    st["names"] = [pn["name"] if i == pn["i"] else n for i, n in enumerate(st["names"])]
    return out


def _leaves(program):
    """The selectable leaves of a program; each leaf is a list of *stages* (parser levels along the path).

    stage = {"token": sub-command token selecting this level (None for the root), "sig", "names", "role",
             "callee": name the generated code logs (None for pure grouping levels), "ret": "token"|"instance"|None}
    """
    form = program["form"]

    def names(sig, letter="p"):
        return [f"{letter}{i}" for i in range(len(sig))]

    flip = program.get("flip", 0)  # 1: every component uses the other default / the other value at every position

    def st(token, sig, role, callee, ret, nm=None, mkind=None):
        out = {"token": token, "sig": sig, "names": nm or names(sig), "role": role + flip, "callee": callee, "ret": ret}
        if mkind is not None:
            out["mkind"] = mkind
        return out

    if form == "func":
        return [[st(None, program["sig"], 0, "fa", "token")]]
    if form in ("dataclass", "plainclass"):
        return [[st(None, program["sig"], 0, "D", "instance")]]
    if form == "list":
        sig = program["sig"]
        return [
            [st(None, [], 0, None, None), st("fa", sig, 0, "fa", "token")],
            [st(None, [], 0, None, None), st("fb", rotate(sig, 1), 1, "fb", "token")],
        ]
    if form == "dict":
        sig = program["sig"]
        g = lambda tok: st(tok, [], 0, None, None)  # noqa: E731
        if program.get("pname"):  # name axis: the three leaves keep the type of the named parameter
            return [
                [g(None), st("top", sig, 0, "fa", "token")],
                [g(None), g("grp"), st("inner", sig, 1, "fb", "token")],
                [g(None), g("grp"), g("deep"), st("leaf", sig, 0, "fc", "token")],
            ]
        return [
            [g(None), st("top", sig, 0, "fa", "token")],
            [g(None), g("grp"), st("inner", rotate(sig, 1), 1, "fb", "token")],
            [g(None), g("grp"), g("deep"), st("leaf", rotate(sig, 2), 0, "fc", "token")],
        ]
    if form == "class":
        init, meth = program["init"], program["meth"]
        mnames = names(meth, "p" if program["naming"] == "shared" else "q")
        k1, k2 = program.get("mkind", "inst"), program.get("m2kind", "inst")
        out = [[st(None, init, 0, "K.__init__", None), st("m1", meth, 1, "K.m1", "token", mnames, k1)]]
        if program["nmeth"] == 2:
            out.append([st(None, init, 0, "K.__init__", None), st("m2", DECOY_M2, 1, "K.m2", "token", ["p0", "z"], k2)])
        return out
    if form == "mixed":  # [function, class]: two (nest: three) levels of sub-commands for the class
        init, meth = program["init"], program["meth"]
        k1, k2 = program.get("mkind", "inst"), program.get("m2kind", "inst")
        g = lambda tok: st(tok, [], 0, None, None)  # noqa: E731
        pre = [g(None), g("grp")] if program.get("nest") else [g(None)]
        out = [
            [g(None), st("fa", rotate(init, 3), 1, "fa", "token")],
            pre + [st("K", init, 0, "K.__init__", None), st("m1", meth, 1, "K.m1", "token", None, k1)],
        ]
        if program.get("nmeth", 1) == 2:
            out.append(pre + [st("K", init, 0, "K.__init__", None), st("m2", DECOY_M2, 1, "K.m2", "token", ["p0", "z"], k2)])
        return out
    raise AssertionError(form)


def default_src(param, i, role):
    return TYPES[param[0]][2][(i + role) % 2]


def given(param, i, role, alt):
    if alt == 2:  # the zero value of the type (falsy / empty), where it has one
        if param[0] in ZERO:
            return ZERO[param[0]]
        alt = 0
    return TYPES[param[0]][1][(i + role + alt) % 2]


# ---------------------------------------------------------------------------------------------------
# source rendering


def _params_src(sig, names, role, is_method, mkind="inst"):
    parts = ([] if mkind == "static" else ["cls"] if mkind == "cls" else ["self"]) if is_method else []
    star = False
    for i, (p, n) in enumerate(zip(sig, names)):
        if p[2] == "K" and not star:
            parts.append("*")
            star = True
        s = f"{n}: {TYPES[p[0]][0]}"
        if p[1]:
            s += f" = {default_src(p, i, role)}"
        parts.append(s)
    return ", ".join(parts)


def _logdict(names):
    return "{" + ", ".join(f"{n!r}: {n}" for n in names) + "}"


def _func_src(name, stage, indent="", is_method=False, body_extra=""):
    sig, names, role = stage["sig"], stage["names"], stage["role"]
    pad = indent + "    "
    if name == "__init__":
        lines = [
            f"{indent}def __init__({_params_src(sig, names, role, True)}):",
            f"{pad}self._id = _log({stage['callee']!r}, {_logdict(names)})",
        ]
    elif is_method:
        mkind = stage.get("mkind") or "inst"
        deco = {"inst": [], "cls": [f"{indent}@classmethod"], "static": [f"{indent}@staticmethod"]}[mkind]
        owner = {"inst": "getattr(self, '_id', 'no-id')", "cls": "'class:' + cls.__name__", "static": "'static'"}[mkind]
        lines = deco + [
            f"{indent}def {name}({_params_src(sig, names, role, True, mkind)}):",
            f"{pad}_log({stage['callee']!r}, {_logdict(names)}, {owner})",
            f"{pad}return _token({stage['callee']!r})",
        ]
    else:
        lines = [
            f"{indent}def {name}({_params_src(sig, names, role, False)}):",
            f"{pad}_log({stage['callee']!r}, {_logdict(names)})",
            f"{pad}return _token({stage['callee']!r})",
        ]
    return "\n".join(lines) + "\n"


def _class_src(program):
    lv = leaves(program)
    init = next(s for s in lv[-1] if s["callee"] == "K.__init__")
    init_src = _func_src("__init__", init, "    ") + "\n"
    meth_src = ""
    for leaf in lv:
        m = leaf[-1]
        if m["callee"].startswith("K.m"):
            meth_src += _func_src(m["token"], m, "    ", is_method=True) + "\n"
    inh = program.get("inh", "")
    if not inh:
        return "class K:\n" + init_src + meth_src
    # members K merely inherits are defined in the base class B (which is not handed to auto_cli)
    base = (init_src if inh in ("init", "all") else "") + (meth_src if inh in ("meth", "all") else "")
    own = (init_src if inh == "meth" else "") + (meth_src if inh == "init" else "")
    return "class B:\n" + base + "\nclass K(B):\n" + (own or "    pass\n")


def source(program):
    form = program["form"]
    lv = leaves(program)
    src = HEADER + (HEADER_X if uses_class_types(program) else "")
    if form in ("func", "list", "dict"):
        for leaf in lv:
            s = leaf[-1]
            src += "\n" + _func_src(s["callee"], s) + "\n"
    elif form == "plainclass":
        s = lv[0][0]
        src += "\nclass D:\n"
        src += f"    def __init__({_params_src(s['sig'], s['names'], s['role'], True)}):\n"
        src += f"        self._id = _log('D', {_logdict(s['names'])})\n"
    elif form == "dataclass":
        s = lv[0][0]
        src += "\n@dataclasses.dataclass\nclass D:\n"
        for i, (p, n) in enumerate(zip(s["sig"], s["names"])):
            opts = []
            if p[1]:
                d = default_src(p, i, s["role"])
                opts.append(f"default_factory=lambda: {d}" if p[0] in MUTABLE else f"default={d}")
            if p[2] == "K":
                opts.append("kw_only=True")
            src += f"    {n}: {TYPES[p[0]][0]}" + (f" = dataclasses.field({', '.join(opts)})" if opts else "") + "\n"
        src += "\n    def __post_init__(self):\n"
        src += f"        self._id = _log('D', {{f.name: getattr(self, f.name) for f in dataclasses.fields(self)}})\n"
    elif form == "class":
        src += "\n" + _class_src(program)
    elif form == "mixed":
        src += "\n" + _func_src("fa", lv[0][-1]) + "\n\n" + _class_src(program)
    else:
        raise AssertionError(form)
    return src


def components(program, mod):
    """The object handed to auto_cli."""
    form = program["form"]
    if form == "func":
        return mod.fa
    if form in ("dataclass", "plainclass"):
        return mod.D
    if form == "list":
        return [mod.fa, mod.fb]
    if form == "dict":
        return {"top": mod.fa, "grp": {"_help": "a group", "inner": mod.fb, "deep": {"leaf": mod.fc}}}
    if form == "class":
        return mod.K
    if form == "mixed":
        if program.get("nest"):
            return {"fa": mod.fa, "grp": {"_help": "a group", "K": mod.K}}
        return [mod.fa, mod.K]
    raise AssertionError(form)


def module_name(program):
    return "c12p_" + hashlib.sha1(json.dumps(program, sort_keys=True).encode()).hexdigest()[:16]


# ---------------------------------------------------------------------------------------------------
# inputs


def build(stages, inp, all_leaves=None):
    """-> None when the input cannot be written down, else {"argv": [...], "files": [json, ...], "expect": ...}.

    expect = {"kind": "exit2", "missing": [[stage, index], ...]} or
             {"kind": "ok", "calls": [[callee, {name: python source of the expected value}, owner]], "ret": ...}.
    argv uses the placeholder "@CFGk" for the path of files[k].
    """
    as_pos, layout, style, cfg_level = inp["as_pos"], inp["layout"], inp["style"], inp["cfg"]
    assign = inp["assign"]
    # the levels from `cut` on are not selected by a token on the command line but by "subcommand" keys in the config
    cut = len(stages) - inp.get("selcfg", 0)
    if cut < 1:
        return None
    # second config source: a --config given at parser level cfg2 (0 = next to the first one at the top level) that
    # holds the parameters assigned to channel "d", nested in sections for the levels below cfg2
    cfg2 = inp.get("cfg2")
    if cfg2 is not None and (cfg2 >= cut or cfg_level != "top"):
        return None
    missing, calls, per_stage = [], [], []
    for si, stage in enumerate(stages):
        sig, names, role = stage["sig"], stage["names"], stage["role"]
        opts, poss, cfgd, cfgd2, kwargs = [], [], {}, {}, {}
        extras = []  # channel "p": values of options written as extra positionals (parse_optionals_as_positionals)
        extras_open = True  # every option of this level so far is given as an extra positional
        prefix_open = True  # every positional of this level so far is on the command line
        pos_from_cfg = pos_missing = False
        for i, (p, n) in enumerate(zip(sig, names)):
            ch, alt = assign[si][i]
            pos = is_positional(p, as_pos)
            if ch == "p":
                # documented rule of the setting: extra positionals go, in order, to the options of the parser in the
                # order they were added; only parsers without sub-commands take them.  So: the options given this way
                # are a prefix of the level's options, the level is the last one, its token is on the command line,
                # and none of its parameters expands into several options (dataclass) or is skipped (subclass types)
                if not inp.get("optpos") or pos or not extras_open or si != len(stages) - 1 or si >= cut:
                    return None
                if any(q[0] in CLASS_TYPED for q in sig):
                    return None
                src, tok, cval = given(p, i, role, alt)
                kwargs[n] = src
                extras.append(tok if isinstance(tok, str) else json.dumps(cval))
                continue
            if not pos:
                extras_open = False
            if ch == "-":
                if is_required(p):
                    missing.append([si, i])
                elif p[1]:
                    kwargs[n] = default_src(p, i, role)
                else:
                    kwargs[n] = "None"  # Optional[...] without default
                if pos:
                    prefix_open = False
                    pos_missing = True
                continue
            src, tok, cval = given(p, i, role, alt)
            kwargs[n] = src
            if ch == "a":
                if si >= cut:
                    return None  # nothing of a level can be on the command line without the level's token
                if pos:
                    if not prefix_open:
                        return None  # a later positional on the command line while an earlier one is not
                    poss.append(tok if isinstance(tok, str) else json.dumps(cval))  # item-wise value: one JSON token
                else:
                    for suffix, t in [["", tok]] if isinstance(tok, str) else tok:  # dataclass: one option per field
                        opts += [f"--{n}{suffix}={t}"] if style == "eq" else [f"--{n}{suffix}", t]
            else:
                if ch == "d":  # the second config file
                    if cfg2 is None or si < cfg2:
                        return None  # a file given at a deeper level cannot hold parameters of the levels above it
                    cfgd2[n] = cval
                else:
                    cfgd[n] = cval
                if pos:
                    prefix_open = False
                    pos_from_cfg = True
        if extras:
            if pos_from_cfg or pos_missing:
                return None  # the first extra positional would be taken for the positional that is not on the command line
            poss = poss + extras
        per_stage.append((opts, poss, cfgd, pos_from_cfg, pos_missing, cfgd2))
        if stage["callee"]:
            calls.append([stage["callee"], kwargs, stage.get("mkind")])
    # command line, level by level
    levels, files, top_cfg = [], [], Sec()
    cfg_last = inp.get("cfgpos", "first") == "last"
    node = top_cfg
    top2 = node2 = Sec()
    # A level with a positional that is not on the command line (taken from the config, or omitted): the token of a
    # later sub-command would be consumed as that positional's value, so nothing of the later levels can be written.
    blocked_at, blocked_by_cfg = None, False
    for si, stage in enumerate(stages):
        opts, poss, cfgd, pos_from_cfg, pos_missing, cfgd2 = per_stage[si]
        head = []
        if stage["token"] is not None:
            if si >= cut:
                if cfgd and cfg_level != "top":
                    return None
                node["subcommand"] = stage["token"]  # explicit selection in the section of the level above
            elif blocked_at is not None:
                if opts or poss or (cfgd and cfg_level != "top") or cut < len(stages):
                    return None
                if cfg2 is not None and si <= cfg2:
                    return None  # the level of the second config cannot be reached on the command line
                if blocked_by_cfg and not missing and not (cfgd or cfgd2):
                    return None  # the sub-command has to be selected through a non-empty section of the config
            else:
                head = [stage["token"]]
            node = node.setdefault(stage["token"], Sec())
            if cfg2 is not None and si > cfg2:
                node2 = node2.setdefault(stage["token"], Sec())
        node2.update(cfgd2)
        body = (opts + poss) if layout == "of" else (poss + opts)
        if cfgd:
            if cfg_level == "own":
                files.append(cfgd)
                cfgtok = ["--config", f"@CFG{len(files) - 1}"]
                body = body + cfgtok if cfg_last else cfgtok + body
            else:
                node.update(cfgd)
        levels.append([head, body])
        if (pos_from_cfg or pos_missing) and blocked_at is None:
            blocked_at, blocked_by_cfg = si, not pos_missing
    if inp.get("sib") is not None:
        # the top-level config also carries a complete section for a sibling component that is not selected; not
        # when a level is selected only implicitly (by being the only section present)
        if all_leaves is None or (blocked_at is not None and blocked_at + 1 < cut):
            return None
        node, shared = top_cfg, True
        for si, st in enumerate(all_leaves[inp["sib"]]):
            if st["token"] is not None:
                shared = shared and si < len(stages) and stages[si]["token"] == st["token"]
                node = node.setdefault(st["token"], Sec())
            if not shared:
                for i, (p, n) in enumerate(zip(st["sig"], st["names"])):
                    node[n] = given(p, i, st["role"], 0)[2]
    top_cfg = _prune(top_cfg)
    top2 = _prune(top2)
    if top_cfg:
        files.append(top_cfg)
        cfgtok = ["--config", f"@CFG{len(files) - 1}"]
    if top2:  # first token of its level: directly after the first --config when both are at the top level
        files.append(top2)
        levels[cfg2][1] = ["--config", f"@CFG{len(files) - 1}"] + levels[cfg2][1]
    if top_cfg:
        levels[0][1] = levels[0][1] + cfgtok if cfg_last else cfgtok + levels[0][1]
    argv = [t for head, body in levels for t in head + body]
    if missing:
        return {"argv": argv, "files": files, "expect": {"kind": "exit2", "missing": missing}}
    out_calls = []
    for idx, (callee, kwargs, mkind) in enumerate(calls):
        owner = None
        if callee.startswith("K.m"):
            # a method runs on the object its __init__ call built, a classmethod on the class given to auto_cli
            owner = {"cls": "class:K", "static": "static"}.get(mkind, idx - 1)
        out_calls.append([callee, kwargs, owner])
    return {"argv": argv, "files": files, "expect": {"kind": "ok", "calls": out_calls, "ret": stages[-1]["ret"]}}


class Sec(dict):
    """A config section created for a sub-command token (as opposed to a Dict-typed parameter value)."""


def _prune(d):
    """Drop empty sections (an empty section in a config says nothing about a component)."""
    out = {}
    for k, v in d.items():
        if isinstance(v, Sec):
            v = _prune(v)
            if not v:
                continue
        out[k] = v
    return out


def _all(stages, ch, alt=0):
    return [[[ch, alt] for _ in s["sig"]] for s in stages]


def _flat(stages):
    return [(si, i) for si, s in enumerate(stages) for i in range(len(s["sig"]))]


def _inp(sel, assign, as_pos=True, layout="ol", style="eq", cfg="top", cfgpos="first", sib=None, selcfg=0, cfg2=None, optpos=0, hist=None, relcfg=0):
    out = {"sel": sel, "as_pos": as_pos, "assign": assign, "layout": layout, "style": style, "cfg": cfg}
    if optpos:
        out["optpos"] = 1  # the call runs under set_parsing_settings(parse_optionals_as_positionals=True)
    if hist is not None:
        out["hist"] = hist  # an earlier auto_cli call of the same process (see history_inputs)
    if relcfg:
        out["relcfg"] = 1  # --config paths are written relative to the working directory
    if cfg2 is not None:
        out["cfg2"] = cfg2  # parser level at which the second --config (parameters with channel "d") is given
    if selcfg:
        out["selcfg"] = selcfg  # the last `selcfg` sub-command levels are selected by "subcommand" keys in the config
    if cfgpos != "first":
        out["cfgpos"] = cfgpos  # --config written after the other tokens of its level instead of before them
    if sib is not None:
        out["sib"] = sib  # index of a sibling leaf whose complete section is also in the top-level config
    return out


def _minimal(stages, also=None):
    """Required parameters on the command line, everything else omitted (plus `also` = (stage, index, channel))."""
    a = [[["a", 0] if is_required(p) else ["-", 0] for p in s["sig"]] for s in stages]
    if also:
        a[also[0]][also[1]] = [also[2], 0]
    return a


def _omit(stages, si, i, as_pos=True):
    """Everything on the command line except parameter (si, i).  When that parameter is a positional, the later
    positionals of its level and the tokens of every later level cannot be written on the command line any more
    (they would be consumed as its value): those parameters go to the config."""
    a = _all(stages, "a")
    a[si][i] = ["-", 0]
    sig = stages[si]["sig"]
    if is_positional(sig[i], as_pos):
        for j in range(i + 1, len(sig)):
            if is_positional(sig[j], as_pos):
                a[si][j] = ["c", 0]
        for sj in range(si + 1, len(stages)):
            a[sj] = [["c", 0] for _ in stages[sj]["sig"]]
    return a


def _required(stages):
    return [(si, i) for si, i in _flat(stages) if is_required(stages[si]["sig"][i])]


def lean_inputs(sel, stages):
    """all given on the command line / all in the config (both config placements when they differ) / only the
    required ones / each required one omitted in turn."""
    staged = len(stages) > 1
    yield _inp(sel, _all(stages, "a"))
    yield _inp(sel, _all(stages, "c"))
    if staged:
        yield _inp(sel, _all(stages, "c"), cfg="own")
    if len(_required(stages)) < len(_flat(stages)):
        yield _inp(sel, _minimal(stages))
    for si, i in _required(stages):
        yield _inp(sel, _omit(stages, si, i))


def lean3_inputs(sel, stages, first_only=False):
    """all given on the command line / the required ones in the config and nothing else / each required one omitted
    (first_only: only the first required one; every (position, kind, type) is the first required parameter of some
    signature of the same length)."""
    yield _inp(sel, _all(stages, "a"))
    yield _inp(sel, [[["c", 0] if is_required(p) else ["-", 0] for p in s["sig"]] for s in stages])
    for si, i in _required(stages)[: 1 if first_only else None]:
        yield _inp(sel, _omit(stages, si, i))


def full_inputs(sel, stages, nleaves=1):
    """The whole product {omitted, argv, config}^parameters, plus the variation axes on top of it."""
    staged = len(stages) > 1
    flat = _flat(stages)
    seen = set()

    def fresh(inp):
        k = json.dumps(inp, sort_keys=True)
        if k in seen:
            return False
        seen.add(k)
        return True

    def gen_all():
        for combo in itertools.product("-ac", repeat=len(flat)):
            a = [[None] * len(s["sig"]) for s in stages]
            for (si, i), ch in zip(flat, combo):
                a[si][i] = [ch, 0]
            yield _inp(sel, a)
            if staged and "c" in combo:
                yield _inp(sel, a, cfg="own")
            if "c" in combo and "a" in combo:
                yield _inp(sel, a, cfgpos="last")
                if staged:
                    yield _inp(sel, a, cfg="own", cfgpos="last")
        # each required parameter omitted with everything else given (also where the plain product cannot say it)
        for si, i in _required(stages):
            yield _inp(sel, _omit(stages, si, i))
        # the other value of every parameter, by each channel, the remaining parameters given on the command line
        for si, i in flat:
            for ch in "ac":
                a = _all(stages, "a")
                a[si][i] = [ch, 1]
                yield _inp(sel, a, layout="of", style="sp")
        # all other values at once; options before positionals; "--name value" instead of "--name=value"
        for layout, style in (("of", "eq"), ("ol", "sp"), ("of", "sp")):
            yield _inp(sel, _all(stages, "a", 1), layout=layout, style=style)
        # each optional parameter alone (with the required ones), by each channel
        for si, i in flat:
            if not is_required(stages[si]["sig"][i]):
                for ch in "ac":
                    yield _inp(sel, _minimal(stages, (si, i, ch)), layout="of")
        # a complete section for a sibling component (same parameter names, other values) in the top-level config
        if nleaves > 1:
            sib = (sel + 1) % nleaves
            yield _inp(sel, _all(stages, "a"), sib=sib)
            yield _inp(sel, _all(stages, "c"), sib=sib, as_pos=False)
            yield _inp(sel, _minimal(stages), sib=sib)
        # as_positional=False: every parameter is an option
        yield _inp(sel, _all(stages, "a"), as_pos=False)
        yield _inp(sel, _all(stages, "c"), as_pos=False)
        yield _inp(sel, _minimal(stages), as_pos=False)
        for si, i in _required(stages):
            yield _inp(sel, _omit(stages, si, i, as_pos=False), as_pos=False)

    for inp in gen_all():
        if fresh(inp):
            yield inp


def selcfg_inputs(sel, stages, nleaves=1, slim=False):
    """Sub-commands selected through the config instead of the command line.

    For every k = 1 .. number of sub-command levels: the tokens of the last k levels are left out and each of those
    levels is named by an explicit "subcommand" key in the top-level config; alone and together with a complete
    section for each other leaf of the program (sections of siblings at the selected level or elsewhere).
    Assignments, for every (k, sibling): everything in the config with as_positional=False; the levels that still
    have their token give their parameters on the command line, the others in the config; each required one
    omitted.  Without sibling section additionally: only the required parameters; everything in the config with
    as_positional=True; the other value of every parameter with --config as the last token.
    slim (used for the leaves that are not the enumerated one, so that the selected sub-command is also one that
    is not the first of its level): only "everything in the config with as_positional=False" per (k, sibling)."""
    n = len(stages)
    for k in range(1, n):
        cut = n - k
        for sib in [None] + [j for j in range(nleaves) if j != sel]:
            kw = {"selcfg": k, "sib": sib}
            yield _inp(sel, _all(stages, "c"), as_pos=False, **kw)
            if slim:
                continue
            yield _inp(sel, [[["a" if si < cut else "c", 0] for _ in s["sig"]] for si, s in enumerate(stages)], **kw)
            for si, i in _required(stages):
                a = _all(stages, "c")
                a[si][i] = ["-", 0]
                yield _inp(sel, a, as_pos=False, **kw)
            if sib is None:
                yield _inp(
                    sel,
                    [[[("a" if si < cut else "c") if is_required(p) else "-", 0] for p in s["sig"]] for si, s in enumerate(stages)],
                    **kw,
                )
                yield _inp(sel, _all(stages, "c"), **kw)
                yield _inp(sel, _all(stages, "c", 1), as_pos=False, cfgpos="last", **kw)


def twocfg_inputs(sel, stages):
    """The settings come from TWO config sources.

    Every way of distributing the parameters of the path over a first config file (given at the top level, nested
    sections) and a second one, both used, x every parser level the second file can be given at: 0 = a second
    --config at the top level right after the first, an intermediate level (the file again holds sections for the
    levels below it), the component's own level.  Per (distribution, level): everything given with
    as_positional=False; the same with as_positional=True (where it can be written down); only the required
    parameters, the others omitted (when they still occupy both files)."""
    flat = _flat(stages)
    for combo in itertools.product("cd", repeat=len(flat)):
        if len(set(combo)) < 2:
            continue
        a = [[None] * len(s["sig"]) for s in stages]
        for (si, i), ch in zip(flat, combo):
            a[si][i] = [ch, 0]
        req = [[c if is_required(p) else ["-", 0] for c, p in zip(row, s["sig"])] for row, s in zip(a, stages)]
        req_chans = {c[0] for row in req for c in row} - {"-"}
        for lvl in range(1 + min(si for (si, _), ch in zip(flat, combo) if ch == "d")):
            yield _inp(sel, a, as_pos=False, cfg2=lvl)
            yield _inp(sel, a, cfg2=lvl)
            if req != a and req_chans == {"c", "d"}:
                yield _inp(sel, req, cfg2=lvl)


def zero_inputs(sel, stages):
    """Every parameter given its zero value (0, '', 0.0, false, [], {} - valid but falsy / empty): all on the command
    line (--name=value and --name value, as_positional True / False), all in the config, and one parameter at a time
    on the command line with the others at their ordinary value."""
    yield _inp(sel, _all(stages, "a", 2))
    yield _inp(sel, _all(stages, "a", 2), layout="of", style="sp")
    yield _inp(sel, _all(stages, "a", 2), as_pos=False)
    yield _inp(sel, _all(stages, "c", 2))
    flat = _flat(stages)
    if len(flat) > 1:
        for si, i in flat:
            a = _all(stages, "a")
            a[si][i] = ["a", 2]
            yield _inp(sel, a)


def optpos_inputs(sel, stages):
    """The documented parsing setting parse_optionals_as_positionals=True: extra positionals are, in order, the
    values of the options of the (leaf) parser.  For as_positional True / False: the ordinary inputs (all on the
    command line with ordinary and zero values, all in the config) must not be affected by the setting; then for
    every k = 1 .. number of options of the leaf level the first k options given as extra positionals x the other
    options omitted (ordinary / zero values of every parameter of the level, also of the real positionals) / given
    by name (zero values) / in the config (ordinary values); once more with the other values and the named options first (as_positional=False, where
    the required parameters are options too and can be given this way: the others omitted with ordinary values / by
    name with zero values)."""
    last = len(stages) - 1
    for as_pos in (True, False):
        opt_idx = [i for i, p in enumerate(stages[last]["sig"]) if not is_positional(p, as_pos)]
        for alt in (0, 2):
            yield _inp(sel, _all(stages, "a", alt), as_pos=as_pos, optpos=1)
        yield _inp(sel, _all(stages, "c"), as_pos=as_pos, optpos=1)
        for k in range(1, len(opt_idx) + 1):
            variants = [("-", 0, "ol"), ("-", 2, "ol"), ("a", 2, "ol"), ("c", 0, "ol"), ("a", 1, "of")] if as_pos else [("-", 0, "ol"), ("a", 2, "ol")]
            for rest, alt, layout in variants:
                a = _all(stages, "a", alt)
                for j, i in enumerate(opt_idx):
                    a[last][i] = ["p" if j < k else rest, alt]
                yield _inp(sel, a, as_pos=as_pos, layout=layout, optpos=1)


HISTORY_FIRST = ("valid", "missing", "rejected-config", "mistyped-config")


def history_inputs(sel, stages):
    """Two auto_cli calls in one process; the second one is judged.  The process runs in a directory A; a directory
    B next to it holds same-named config files with other values.  First call: valid / a required parameter missing
    / a config file that is rejected (rejected-config: a key nobody accepts; mistyped-config: a value that the type of
    the first parameter refuses), its --config file in A or in B, written as a relative
    or an absolute path.  Second call: everything in the config, the path relative to A or absolute."""
    for first in HISTORY_FIRST:
        if first == "missing" and not _required(stages):
            continue
        for where in ("cwd", "other"):
            for fstyle in ("rel", "abs"):
                for sstyle in (1, 0):
                    hist = {"first": first, "dir": where, "path": fstyle}
                    yield _inp(sel, _all(stages, "c"), as_pos=False, hist=hist, relcfg=sstyle)


def product_inputs(sel, stages):
    """{omitted, argv, config}^parameters (config at the top level and, for staged forms, at the component's own
    level) plus each required parameter omitted; none of the variation axes of the full plan."""
    staged = len(stages) > 1
    flat = _flat(stages)
    seen = set()
    for combo in itertools.product("-ac", repeat=len(flat)):
        a = [[None] * len(s["sig"]) for s in stages]
        for (si, i), ch in zip(flat, combo):
            a[si][i] = [ch, 0]
        seen.add(json.dumps(a))
        yield _inp(sel, a)
        if staged and "c" in combo:
            yield _inp(sel, a, cfg="own")
    for si, i in _required(stages):
        a = _omit(stages, si, i)
        if json.dumps(a) not in seen:
            yield _inp(sel, a)


def decoy_inputs(sel, stages):
    """For leaves that are not the enumerated one (sibling function, second method): everything / only the required."""
    yield _inp(sel, _all(stages, "a"))
    if len(_required(stages)) < len(_flat(stages)):
        yield _inp(sel, _minimal(stages))


def decoy1_inputs(sel, stages):
    yield _inp(sel, _all(stages, "a"))


def names_inputs(sel, stages):
    """Parameter-name axis: every parameter on the command line (as_positional True / False), every parameter in the
    config, only the required ones (the others keep their defaults); command lines that coincide are run once."""
    yield _inp(sel, _all(stages, "a"))
    yield _inp(sel, _all(stages, "c"))
    yield _inp(sel, _minimal(stages))
    yield _inp(sel, _all(stages, "a"), as_pos=False)


def no_inputs(sel, stages):
    return iter(())


PLANS = {"none": no_inputs, "argv": decoy1_inputs, "full": full_inputs, "product": product_inputs, "lean": lean_inputs, "lean3": lean3_inputs, "decoy": decoy_inputs, "decoy1": decoy1_inputs}


def inputs(program, plan):
    """All inputs of a program.  `plan` = plan of the enumerated leaf/leaves ("full" | "lean" | "lean3" | "argv" =
    everything on the command line, nothing else), optionally
    suffixed ":deep" (dict form: only the deepest leaf), ":first" (lean3: omit only the first required parameter),
    ":first1" (the same, and only for type vectors with at most one non-int type), ":two" (`twocfg_inputs`) or
    ":sel" (additionally `selcfg_inputs`: sub-commands selected through the config, with and without sibling sections)."""
    plan, *opts = plan.split(":")
    opt = next((o for o in opts if o in ("deep", "first", "first1", "first2")), "")
    lv = leaves(program)
    form = program["form"]
    for sel, stages in enumerate(lv):
        if form == "dict":
            if opt == "deep" and sel != len(lv) - 1:
                continue
            main = True  # three leaves at three depths, each with its own (rotated) signature
        elif form == "mixed":
            main = sel == 1
        else:
            main = sel == 0
        if plan == "none":
            pass  # only the inputs of the suffixes
        elif main and plan == "full":
            yield from full_inputs(sel, stages, len(lv))
        elif main and plan == "lean3" and opt == "first":
            yield from lean3_inputs(sel, stages, first_only=True)
        elif main and plan == "lean3" and opt in ("first1", "first2"):
            # as "first", but the omission only for type vectors that differ from `int` in at most one position;
            # "first2": moreover the input "required ones in the config, nothing else" (the second of the plan) only for
            # type vectors that differ from `int` in at most two positions
            nonint = sum(p[0] != "int" for st in stages for p in st["sig"])
            for k, inp in enumerate(lean3_inputs(sel, stages, first_only=True)):
                if nonint > 1 and any(c[0] == "-" and is_required(p) for row, st in zip(inp["assign"], stages) for c, p in zip(row, st["sig"])):
                    continue
                if opt == "first2" and k == 1 and nonint > 2:
                    continue
                yield inp
        else:
            yield from PLANS[plan if main else ("decoy" if plan == "full" else "decoy1")](sel, stages)
        if "sel" in opts:
            yield from selcfg_inputs(sel, stages, len(lv), slim=not main)
        if "zero" in opts and main:
            yield from zero_inputs(sel, stages)
        if "optpos" in opts and main:
            yield from optpos_inputs(sel, stages)
        if "hist" in opts and main:
            yield from history_inputs(sel, stages)
        if "names" in opts and main:
            yield from names_inputs(sel, stages)
        if "two" in opts and main and not (form == "dict" and opt == "deep" and sel != len(lv) - 1):
            yield from twocfg_inputs(sel, stages)
