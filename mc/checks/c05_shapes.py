"""C05 - two further parser shapes on the machinery of c05.py / c05_more.py (added for the seeds C05-7 and C05-9).

  nargs  - arguments declared with `nargs`: every nargs in {1, 2, "+", "*", "?"} x element declaration (untyped, str, int,
           bool, Enum, Optional[int], str with choices) x every array over the element alphabet up to length 3
           (conforming items, one bad item; every arity: empty, short, exact, long), for "?" the scalars.  Renderings: one
           command line word per item (`--k a b`, for one item also `--k=a`), the JSON array as environment text, for
           one item also the bare item as environment text, through parse_env(dict) and os.environ, and the array in
           every document / object channel (nested, dotted, --cfg string / file, parse_path, config through the
           environment).
  subcmd - a parser with sub-commands (root option `top`, sub-commands `fit` with `x` and `test` with `y`), sub-command
           required or not, and a sub-command possibly PRE-SELECTED by a lower-priority source (set_defaults, a default
           config file, the environment); every subset of the settings {top, subcommand in {fit, test}, fit.x, test.y}
           (the settings may name their sub-command or not, may carry values for the selected, the other or both
           sub-commands) through every document / object channel in nested and dotted spelling, the config option
           (string, file, through the environment), the environment, and the command line where it can say it.

Oracle as everywhere in C05: all renderings of one case give the identical typed result or are all rejected.
"""
from __future__ import annotations

import copy
import itertools
import json
import os

from mc.checks import c05
from mc.checks.c05_more import _environ, _obs, _partition

# ------------------------------------------------------------------------------------------------------
# block "nargs"

NARGS = [1, 2, "+", "*", "?"]
# element declaration -> (two conforming items, one non-conforming item).  Items travel as bare words on the command
# line, so rule U applies per item: strings only at string positions, non-strings only where no string is admitted.
NARGS_ELEMS = {
    "untyped": (["a", "1"], None),  # no type: every word is kept as the string it is
    "str": (["a", "ab"], None),
    "int": ([1, 2], "a"),
    "bool": ([True, False], "a"),
    "E": (["A", "B"], "C"),
    "OptInt": ([1, None], "a"),
    "ChoiceS": (["a", "b"], "c"),  # type=str, choices=["a", "b"]
}
NARGS_SHAPES = ["nested", "top", "positional"]


def nargs_key(shape):
    return "n.k" if shape == "nested" else "k"


def nargs_parser(shape, nargs, elem, mode):
    import typing

    import jsonargparse

    p = jsonargparse.ArgumentParser(exit_on_error=False, parser_mode=mode, env_prefix=c05.ENV_PREFIX, default_env=False)
    p.add_argument("--cfg", action=jsonargparse.ActionConfigFile)
    name = {"nested": "--n.k", "top": "--k", "positional": "k"}[shape]
    kw = {"nargs": nargs}
    if elem == "ChoiceS":
        kw.update(type=str, choices=["a", "b"])
    elif elem == "OptInt":
        kw.update(type=typing.Optional[int])
    elif elem != "untyped":
        kw.update(type=c05.build_type(elem))
    p.add_argument(name, **kw)
    p.add_argument("--n.j" if shape == "nested" else "--j", type=int, default=3)
    return p


def nargs_values(nargs, elem):
    """[(value, class)]: the scalars for "?", else every array of length <= 2 over the two conforming items, the
    length-3 array, and arrays with the bad item; class = relation of the array to the declared arity / items."""
    (a, b), z = NARGS_ELEMS[elem]
    if nargs == "?":
        return [(a, "conforming"), (b, "conforming")] + ([(z, "bad-item")] if z is not None else [])
    arrays = [[], [a], [b], [a, b], [b, a], [a, a], [a, b, a]]
    if z is not None:
        arrays += [[z], [a, z], [z, a]]
    out = []
    for v in arrays:
        n = len(v)
        lo, hi = {"+": (1, 99), "*": (0, 99)}.get(nargs, (nargs, nargs))
        if z is not None and z in v:
            cls = "bad-item" if lo <= n <= hi else "bad-item+arity"
        elif n == 0 and lo > 0:
            cls = "arity-empty"
        elif n < lo:
            cls = "arity-short"
        elif n > hi:
            cls = "arity-long"
        else:
            cls = "conforming"
        out.append((v, cls))
    return out


def nargs_cases(quick):
    out = []
    for shape in NARGS_SHAPES[:2] if quick else NARGS_SHAPES:
        modes = ["yaml"] if quick else ["yaml", "json"]
        for nargs in NARGS:
            for elem in NARGS_ELEMS:
                for v, cls in nargs_values(nargs, elem):
                    out.append({"block": "nargs", "shape": shape, "nargs": nargs, "elem": elem, "value": v, "class": cls, "modes": modes})
    return out


def nargs_channels(case):
    """(name, family, how, payload)."""
    shape, v = case["shape"], case["value"]
    key = nargs_key(shape)
    envn = c05.env_name(key)
    doc_n = c05.nested_doc(key, v)
    text = c05.text_of(v)
    items = v if isinstance(v, list) else [v]
    words = [c05.text_of(x) for x in items]
    out = []
    if shape == "positional":
        out.append(("argv_words", "argv", "argv", words))
    else:
        out.append(("argv_words", "argv", "argv", ["--" + key] + words))
        if len(words) == 1:
            out.append(("argv_eq", "argv", "argv", [f"--{key}={words[0]}"]))
    if isinstance(v, list):
        out.append(("env_dict_json", "env", "env_dict", {envn: text}))
        out.append(("env_os_json", "env", "env_os", {envn: text}))
    if len(words) == 1:  # documented: a bare value in the environment is a one-item list for a list-valued argument
        out.append(("env_dict_item", "env.item", "env_dict", {envn: words[0]}))
    out += [
        ("parse_object", "obj", "object", doc_n),
        ("parse_string", "cfg", "string", json.dumps(doc_n)),
        ("cfg_str", "cfg", "argv_opt", ["--cfg=" + json.dumps(doc_n)]),
        ("cfg_file", "cfg", "file", json.dumps(doc_n)),
        ("parse_path", "cfg", "path", json.dumps(doc_n)),
        ("env_cfg", "cfg.env", "env_dict", {c05.env_name("cfg"): json.dumps(doc_n)}),
    ]
    if "." in key:
        out += [
            ("parse_object_dotted", "obj.dotted", "object", {key: v}),
            ("parse_string_dotted", "cfg.dotted", "string", json.dumps({key: v})),
        ]
    return out


def _parse(p, how, payload, fname="s.json", **kw):
    payload = copy.deepcopy(payload)
    if how in ("argv", "argv_opt"):
        return _obs(p.parse_args, payload, **kw)
    if how == "object":
        return _obs(p.parse_object, payload, **kw)
    if how == "string":
        return _obs(p.parse_string, payload, **kw)
    if how == "env_dict":
        return _obs(p.parse_env, payload)
    if how == "env_os":
        with _environ(payload):
            return _obs(p.parse_args, [], env=True)
    if how in ("file", "path"):
        with open(fname, "w") as f:
            f.write(payload)
        return _obs(p.parse_args, ["--cfg", fname], **kw) if how == "file" else _obs(p.parse_path, fname, **kw)
    raise AssertionError(how)


def nargs_observe(case):
    from mc.util import restored_process_state, scratch_dir

    obs, parses = {}, 0
    with restored_process_state(), scratch_dir(chdir=True):
        for mode in case["modes"]:
            obs[mode] = {}
            for name, _fam, how, payload in nargs_channels(case):
                p = nargs_parser(case["shape"], case["nargs"], case["elem"], mode)
                obs[mode][name] = _parse(p, how, payload)
                parses += 1
    return obs, parses


def nargs_judge(case, obs):
    chans = nargs_channels(case)
    if len({json.dumps(obs[m][c[0]]) for m in obs for c in chans}) <= 1:
        return []
    parts = {m: _partition([(c[1], obs[m][c[0]]) for c in chans]) for m in obs}
    ref = next(iter(parts))
    part = parts[ref] + "".join(f";{m}:{parts[m]}" for m in parts if parts[m] != parts[ref])
    if case["class"].startswith("arity-"):
        # the number of items: one class per direction, whatever the declaration and the element type
        sig = f"nargs-arity:{case['class'][6:]}:{part}"
    else:
        sig = f"nargs:{case['nargs']}:{case['elem']}:{case['class']}:{part}"
        if case["shape"] == "positional" and case["nargs"] in ("*", "?") and case["class"] == "conforming":
            # one root cause of its own: argparse runs the action of a positional that may be empty also when no word
            # matched it, so parse_args([... no word for it ...]) resets what --cfg / the process environment gave.
            # Named only if exactly those channels deviate, all alike, in every mode - anything else keeps the
            # generic signature above.
            reset = {"cfg_str", "cfg_file", "env_os_json"}
            alike = True
            for m in obs:
                ref_o = json.dumps(obs[m]["argv_words"])
                dev = {n: json.dumps(o) for n, o in obs[m].items() if json.dumps(o) != ref_o}
                if not dev or not set(dev) <= reset or len(set(dev.values())) != 1:
                    alike = False
            if alike:
                sig = f"nargs:{case['nargs']}:positional:value-given-by-config-or-environment-is-reset-by-the-absent-positional"
    detail = {"declaration": {"nargs": case["nargs"], "element": case["elem"], "shape": case["shape"]}, "value": case["value"],
              "partition": part, "observations": {m: {n: c05._short(o) for n, o in obs[m].items()} for m in obs}}
    return [{"signature": sig, "detail": json.dumps(detail, default=repr)[:3000]}]


# ------------------------------------------------------------------------------------------------------
# block "subcmd"

SUB_PRE = ["none", "defaults:fit", "defaults:test", "default_config:fit", "default_config:test", "env:fit", "env:test"]
SUB_DEFAULT_FILE = "defaults.json"


def subcmd_parser(required, pre, mode):
    import jsonargparse

    kw = {}
    if pre.startswith("default_config:"):
        kw["default_config_files"] = [SUB_DEFAULT_FILE]  # relative to the cwd of the case (written by subcmd_observe)
    p = jsonargparse.ArgumentParser(exit_on_error=False, parser_mode=mode, env_prefix=c05.ENV_PREFIX, default_env=False, **kw)
    p.add_argument("--cfg", action=jsonargparse.ActionConfigFile)
    p.add_argument("--top", type=int, default=0)
    sc = p.add_subcommands(required=required)
    fit = jsonargparse.ArgumentParser(exit_on_error=False, parser_mode=mode)
    fit.add_argument("--x", type=int, default=0)
    sc.add_subcommand("fit", fit)
    test = jsonargparse.ArgumentParser(exit_on_error=False, parser_mode=mode)
    test.add_argument("--y", type=int, default=0)
    sc.add_subcommand("test", test)
    if pre.startswith("defaults:"):
        p.set_defaults(subcommand=pre.split(":")[1])
    return p


def subcmd_settings():
    """Every subset of {top=3, subcommand=fit|test, fit.x=1, test.y=2} as an ordered list of (dotted key, value)."""
    out = []
    for top, sub, x, y in itertools.product((None, 3), (None, "fit", "test"), (None, 1), (None, 2)):
        s = []
        if top is not None:
            s.append(["top", top])
        if sub is not None:
            s.append(["subcommand", sub])
        if x is not None:
            s.append(["fit.x", x])
        if y is not None:
            s.append(["test.y", y])
        out.append(s)
    return out


def subcmd_cases(quick):
    out = []
    for required in (True, False):
        for pre in SUB_PRE:
            if quick and not required and pre.split(":")[0] in ("default_config", "env"):
                continue
            modes = ["yaml", "json"] if (required and pre.split(":")[0] in ("none", "defaults")) or not quick else ["yaml"]
            for s in subcmd_settings():
                out.append({"block": "subcmd", "required": required, "pre": pre, "settings": s, "modes": modes})
    return out


def subcmd_class(case):
    """Class of the settings by shape: do they name a sub-command, and for which sub-commands do they carry values -
    relative to the sub-command they name, else to the pre-selected one."""
    s = dict((k, v) for k, v in case["settings"])
    named = s.get("subcommand")
    pre = case["pre"].split(":")[1] if ":" in case["pre"] else None
    ref = named or pre
    have = [n for n in ("fit", "test") if any(k.startswith(n + ".") for k in s)]
    if not have:
        has = "no-subcommand-settings"
    elif ref is None:
        has = "settings-of-one" if len(have) == 1 else "settings-of-both"
    else:
        own, other = ref in have, any(n != ref for n in have)
        has = "own" if own and not other else "other" if other and not own else "own+other"
    rel = "unnamed" if named is None else "named" if pre is None else "named-same" if named == pre else "named-other"
    return f"{rel}:{has}"


def subcmd_channels(case):
    """(name, family, how, payload).  With a pre-selection through the environment every parse runs with that variable
    in os.environ and env=True (subcmd_observe)."""
    s = [(k, v) for k, v in case["settings"]]
    d = dict(s)
    doc_n, doc_d = {}, {}
    for k, v in s:
        c05._insert(doc_n, k.split("."), v)
        doc_d[k] = v
    tn, td = json.dumps(doc_n), json.dumps(doc_d)
    out = [
        ("parse_object", "obj", "object", doc_n),
        ("parse_string", "cfg", "string", tn),
        ("parse_path", "cfg", "path", tn),
        ("cfg_str", "cfg.option", "argv_opt", ["--cfg=" + tn]),
        ("cfg_file", "cfg.option", "file", tn),
    ]
    if not case["pre"].startswith("env:"):
        # (with a pre-selection through the environment the config in the environment is not above it: the variable of
        # an argument outranks the config variable by the documented order of sources)
        out.append(("env_cfg", "cfg.env", "env_dict", {c05.env_name("cfg"): tn}))
    if tn != td:
        out += [
            ("parse_object_dotted", "obj.dotted", "object", doc_d),
            ("parse_string_dotted", "cfg.dotted", "string", td),
            ("cfg_str_dotted", "cfg.option", "argv_opt", ["--cfg=" + td]),
        ]
    named = d.get("subcommand")
    pre = case["pre"].split(":")[1] if ":" in case["pre"] else None
    have = [n for n in ("fit", "test") if any(k.startswith(n + ".") for k in d)]
    # the environment: variables of a sub-command that nothing selects are ignored by design (like every variable that
    # names no argument of the parse), so the environment is a channel unless the documents would choose the sub-command
    # implicitly from the presence of its settings
    if not (named is None and pre is None and have):
        env = {c05.env_name(k): c05.text_of(v) for k, v in s}
        out.append(("env_dict", "env", "env_dict", env))
        out.append(("env_os", "env.os", "env_os", env))
    # the command line: root options, then the sub-command word, then its own options
    if named is not None and all(n == named for n in have):
        words = [f"--{k}={c05.text_of(v)}" for k, v in s if "." not in k and k != "subcommand"] + [named]
        words += [f"--{k.split('.', 1)[1]}={c05.text_of(v)}" for k, v in s if k.startswith(named + ".")]
        out.append(("argv", "argv", "argv", words))
    elif named is None and not have:
        out.append(("argv", "argv", "argv", [f"--{k}={c05.text_of(v)}" for k, v in s]))
    return out


def subcmd_observe(case):
    from mc.util import restored_process_state, scratch_dir

    pre = case["pre"]
    obs, parses = {}, 0
    base_env = {c05.env_name("subcommand"): pre.split(":")[1]} if pre.startswith("env:") else {}
    with restored_process_state(), scratch_dir(chdir=True):
        if pre.startswith("default_config:"):
            with open(SUB_DEFAULT_FILE, "w") as f:
                f.write(json.dumps({"subcommand": pre.split(":")[1]}))
        for mode in case["modes"]:
            obs[mode] = {}
            for name, _fam, how, payload in subcmd_channels(case):
                p = subcmd_parser(case["required"], pre, mode)
                with _environ(base_env):
                    if base_env:
                        if how == "env_dict":  # the given dict is the environment: the pre-selection lives in it
                            o = _obs(p.parse_env, {**base_env, **payload})
                        elif how == "env_os":
                            with _environ(payload):
                                o = _obs(p.parse_args, [], env=True)
                        else:
                            o = _parse(p, how, payload, env=True)
                    else:
                        o = _parse(p, how, payload)
                obs[mode][name] = o
                parses += 1
    return obs, parses


def subcmd_judge(case, obs):
    chans = subcmd_channels(case)
    if len({json.dumps(obs[m][c[0]]) for m in obs for c in chans}) <= 1:
        return []
    parts = {m: _partition([(c[1], obs[m][c[0]]) for c in chans]) for m in obs}
    ref = next(iter(parts))
    part = parts[ref] + "".join(f";{m}:{parts[m]}" for m in parts if parts[m] != parts[ref])
    kind = case["pre"].split(":")[0]
    if part == "ok1:env.os+cfg+obj|ok2:env" and subcmd_class(case) in ("unnamed:own", "unnamed:own+other"):
        # only parse_env(<dict>) deviates, for settings of the pre-selected sub-command that do not name it: the given
        # dict reaches the sub-command's parser only through the sub-command variable (recognised root cause)
        sig = f"subcommand:given-env-dict-not-handed-to-preselected-subcommand:preselected-by-{kind}"
    else:
        sig = f"subcommand:preselected-by-{kind}:{subcmd_class(case)}:{part}"
    detail = {"settings": case["settings"], "pre": case["pre"], "partition": part,
              "observations": {m: {n: c05._short(o) for n, o in obs[m].items()} for m in obs}}
    return [{"signature": sig, "detail": json.dumps(detail, default=repr)[:3000]}]


OBSERVE = {"nargs": (nargs_observe, nargs_judge), "subcmd": (subcmd_observe, subcmd_judge)}


def cases(quick):
    return nargs_cases(quick) + subcmd_cases(quick)
