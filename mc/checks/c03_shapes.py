"""C03 helper: the six parser shapes (declarative option tables + builders) and the scratch files of a case.

Nothing here imports jsonargparse at module import time.  `build(shape, eoe)` returns a FRESH parser.
"""
from __future__ import annotations

import os

LIB = "mc.fixtures.c03.lib"

# ------------------------------------------------------------------------------------------------
# option tables: shape -> list of (dest, kind, valid argv value).  `kind` is the argument kind used in
# signatures; `valid` is one well-formed value for the option (text as given on the command line).
# Options of sub-parsers are addressed through their subcommand prefix (see SUBCOMMAND_PREFIX).

OPTIONS = {
    # flat + config
    "A": [
        ("cfg", "config", "ok.yaml"),
        ("i", "int", "2"),
        ("s", "str", "hello"),
        ("f", "float", "0.5"),
        ("b", "bool", "true"),
        ("oi", "optional-int", "3"),
        ("e", "enum", "blue"),
        ("l", "list-int", "[1, 2]"),
        ("dec", "registered-decimal", "0.5"),
        ("pf", "restricted-float", "0.5"),
    ],
    # dotted groups + dataclass + class group
    "B": [
        ("cfg", "config", "ok.yaml"),
        ("g.a", "group-int", "2"),
        ("g.h.c", "group-str", "v"),
        ("dc", "dataclass", '{"x": 2}'),
        ("dc.x", "dataclass-field", "3"),
        ("dc.inner.w", "dataclass-field", "w"),
        ("cg.a", "class-group-field", "4"),
    ],
    # class-typed arguments and untyped containers
    "C": [
        ("c", "class", f"{LIB}.Sub1"),
        ("lc", "list-class", f'[{{"class_path": "{LIB}.Sub1"}}]'),
        ("t", "type", f"{LIB}.Sub1"),
        ("fn", "callable", f"{LIB}.func"),
        ("d", "dict-str-int", '{"k": 1}'),
        ("ud", "untyped-dict", '{"k": 1}'),
        ("ul", "untyped-list", "[1]"),
        ("any", "any", "x"),
    ],
    # two-level subcommands, config option on every level
    "D": [
        ("cfg", "config", "ok.yaml"),
        ("t", "int", "2"),
    ],
    # links: src->dst and n->m (parse-time, compute_fn), src->c.init_args.a (parse-time), c.a->c3.a (instantiate-time)
    "E": [
        ("cfg", "config", "ok.yaml"),
        ("src", "link-source", "2"),
        ("n", "link-source-strict", "3"),
        ("c", "class-link-target", f"{LIB}.Sub1"),
        ("c3.b", "class-group-field", "w"),
        ("dst", "link-target", "4"),  # a link target cannot be given: every value is a fault
    ],
    # positionals / nargs / choices / ActionYesNo / ActionParser
    "F": [
        ("n2", "nargs-2-int", "1"),
        ("ns", "nargs-star-int", "1"),
        ("nq", "nargs-optional-int", "1"),
        ("ch", "choices", "x"),
        ("yn", "yesno", "true"),
        ("inner", "action-parser", "inner_ok.yaml"),
        ("inner.v", "action-parser-field", "2"),
    ],
    # list kinds whose items stay strings / are structured, nargs="+" with choices and no type, and every registered
    # type of jsonargparse.typing that needs no extra package (Decimal is in shape A)
    "G": [
        ("cfg", "config", "ok.yaml"),
        ("la", "list-any", "[1, a]"),
        ("ols", "optional-list-str", '["a"]'),
        ("ldc", "list-dataclass", '[{"x": 2}]'),
        ("np", "nargs-plus-choices", "x"),
        ("uid", "registered-uuid", "12345678-1234-5678-1234-567812345678"),
        ("rng", "registered-range", "range(1, 4)"),
        ("td", "registered-timedelta", "1 day, 1:02:03"),
        ("cx", "registered-complex", "(1+2j)"),
        ("by", "registered-bytes", "aGk="),
        ("pth", "registered-path", "adir/x"),
    ],
}

# options that live below subcommands of shape D: (subcommand argv prefix, dest, kind, valid)
SUB_OPTIONS = {
    "D": [
        (["s1"], "cfg", "config@sub", "sub_ok.yaml"),
        (["s1"], "a", "int@sub", "2"),
        (["s2", "x"], "cfg", "config@subsub", "subsub_ok.yaml"),
        (["s2", "x"], "v", "int@subsub", "2"),
    ],
}

# well-formed values outside the command line where they differ from the one-item argv text
DOC_VALID = {"n2": "[1, 2]", "ns": "[1]", "np": "[\"x\"]"}

# a minimal argv that every shape accepts (used as the neutral context: the faulty item is inserted before it)
BASE_ARGV = {"A": [], "B": [], "C": [], "D": ["s1"], "E": [], "F": ["7"], "G": []}

ENV_PREFIX = "APP"  # environment variables are APP_<DEST> / APP_<SUB>__<DEST> (c03.env_cases; guarded by the
# "every option accepts its well-formed value through every channel" requirement)

# ------------------------------------------------------------------------------------------------
# scratch files: one read-only directory per (worker process, shape), see fixture_dir()

FILES = {
    "missing.yaml": None,  # never created
    "adir": "<dir>",
    "empty.yaml": "",
    "self.yaml": "cfg: self.yaml\n",
    "setcfg.yaml": "cfg: 'i: 2'\n",
    "binary.yaml": b"\xff\xfe\x00\x01",
    "nul.yaml": b"i: \x00\n",
    "list.yaml": "[1, 2]\n",
    "scalar.yaml": "7\n",
    "broken.yaml": "{a: [1,\n",
    "cyclist.yaml": "&x [*x]\n",
    "cycmap.yaml": "&x {k: *x}\n",
    "unknown.yaml": "zz: 1\n",
}

OK_FILES = {
    "A": {"ok.yaml": "i: 5\n"},
    "B": {"ok.yaml": "g:\n  a: 5\n"},
    "C": {"ok.yaml": "any: 5\n"},
    "D": {"ok.yaml": "t: 5\nsubcommand: s1\n", "sub_ok.yaml": "a: 5\n", "subsub_ok.yaml": "v: 5\n"},
    "E": {"ok.yaml": "src: 5\n"},
    "F": {"ok.yaml": "ch: y\npos: 7\n", "inner_ok.yaml": "v: 5\n"},
    "G": {"ok.yaml": "la: [5]\n"},
}


def materialise(shape):
    """Create every scratch file of the shape in the current directory."""
    table = dict(FILES)
    table.update(OK_FILES[shape])
    for name, content in table.items():
        if content is None:
            continue
        if content == "<dir>":
            os.mkdir(name)
            continue
        with open(name, "wb") as f:
            f.write(content if isinstance(content, bytes) else content.encode("utf-8"))


_fixture_dirs = {}


def fixture_dir(shape):
    """Per-process, per-shape directory holding the (read-only) scratch files; returns (path, listing).

    The parse methods never write, so the directory is shared by the cases of one worker; `check_fixture_dir`
    verifies after every case that it is unchanged (per-case mkdtemp/rmtree costs 4 ms on this file system)."""
    from mc.util import scratch_root

    entry = _fixture_dirs.get(shape)
    if entry is None or not os.path.isdir(entry[0]):
        d = os.path.join(scratch_root(), f"c03_{shape}")
        os.makedirs(d)
        cwd = os.getcwd()
        os.chdir(d)
        try:
            materialise(shape)
        finally:
            os.chdir(cwd)
        entry = _fixture_dirs[shape] = (d, sorted(os.listdir(d)))
    return entry


# ------------------------------------------------------------------------------------------------
# builders


AUX_SHAPES = ("D", "F")  # shapes with auxiliary parsers (sub-parsers of D, the ActionParser's inner parser of F)


def build(shape, eoe, default_config_files=None, subs="same"):
    """A fresh parser of the given shape.  eoe = exit_on_error.

    subs: how the auxiliary parsers of the shape are constructed: "same" = explicitly with the exit_on_error value
    of the main parser, "default" = with default settings (`ArgumentParser()`), relying on the documented
    inheritance of the parent's settings when they are attached."""
    from typing import Any, Callable, Dict, List, Optional, Type

    from decimal import Decimal

    from jsonargparse import ActionConfigFile, ActionParser, ActionYesNo, ArgumentParser
    from jsonargparse.typing import PositiveFloat

    from mc.fixtures.c03 import lib

    kw = dict(exit_on_error=eoe, env_prefix=ENV_PREFIX, prog="app")
    if default_config_files is not None:
        kw["default_config_files"] = default_config_files
    p = ArgumentParser(**kw)
    if subs not in ("same", "default"):
        raise AssertionError(subs)
    sub_kw = {} if subs == "default" else dict(exit_on_error=eoe)
    if shape == "A":
        p.add_argument("--cfg", action=ActionConfigFile)
        p.add_argument("--i", type=int, default=1)
        p.add_argument("--s", type=str, default="x")
        p.add_argument("--f", type=float, default=0.0)
        p.add_argument("--b", type=bool, default=False)
        p.add_argument("--oi", type=Optional[int])
        p.add_argument("--e", type=lib.Color, default=lib.Color.red)
        p.add_argument("--l", type=List[int], default=[0])
        p.add_argument("--dec", type=Decimal)
        p.add_argument("--pf", type=PositiveFloat)
    elif shape == "B":
        p.add_argument("--cfg", action=ActionConfigFile)
        p.add_argument("--g.a", type=int, default=1)
        p.add_argument("--g.h.c", type=str, default="c")
        p.add_argument("--dc", type=lib.DC, default=lib.DC())
        p.add_class_arguments(lib.Sub1, "cg")
    elif shape == "C":
        p.add_argument("--c", type=lib.Base)
        p.add_argument("--lc", type=List[lib.Base])
        p.add_argument("--t", type=Type[lib.Base])
        p.add_argument("--fn", type=Callable[[int], int])
        p.add_argument("--d", type=Dict[str, int])
        p.add_argument("--ud", type=dict)
        p.add_argument("--ul", type=list)
        p.add_argument("--any", type=Any)
    elif shape == "D":
        p.add_argument("--cfg", action=ActionConfigFile)
        p.add_argument("--t", type=int, default=1)
        s1 = ArgumentParser(**sub_kw)
        s1.add_argument("--cfg", action=ActionConfigFile)
        s1.add_argument("--a", type=int, default=1)
        x = ArgumentParser(**sub_kw)
        x.add_argument("--cfg", action=ActionConfigFile)
        x.add_argument("--v", type=int, default=1)
        y = ArgumentParser(**sub_kw)
        y.add_argument("--w", type=str, default="w")
        s2 = ArgumentParser(**sub_kw)
        s2.add_argument("--cfg", action=ActionConfigFile)
        sc = p.add_subcommands()  # level order is mandatory
        sc.add_subcommand("s1", s1)
        sc.add_subcommand("s2", s2)
        sc2 = s2.add_subcommands()
        sc2.add_subcommand("x", x)
        sc2.add_subcommand("y", y)
    elif shape == "E":
        p.add_argument("--cfg", action=ActionConfigFile)
        p.add_argument("--src", type=int, default=1)
        p.add_argument("--dst", type=int, default=0)
        p.add_argument("--n", type=Any, default=1)
        p.add_argument("--m", type=int, default=0)
        p.add_argument("--c", type=lib.Base, default={"class_path": f"{LIB}.Sub1"})
        p.add_class_arguments(lib.Sub1, "c3")  # a class group is much cheaper than a second subclass argument
        p.link_arguments("src", "dst", compute_fn=lib.double)
        p.link_arguments("n", "m", compute_fn=lib.strict_int)
        p.link_arguments("src", "c.init_args.a")
        p.link_arguments("c.a", "c3.a", apply_on="instantiate")
    elif shape == "F":
        p.add_argument("pos", type=int)
        p.add_argument("--n2", type=int, nargs=2)
        p.add_argument("--ns", type=int, nargs="*")
        p.add_argument("--nq", type=int, nargs="?", const=9, default=0)
        p.add_argument("--ch", choices=["x", "y"], default="x")
        p.add_argument("--yn", action=ActionYesNo, default=False)
        inner = ArgumentParser(**sub_kw)
        inner.add_argument("--v", type=int, default=1)
        inner.add_argument("--u", type=str, default="u")
        p.add_argument("--inner", action=ActionParser(parser=inner))
    elif shape == "G":
        import datetime
        import pathlib
        import uuid
        from typing import Union  # noqa: F401

        p.add_argument("--cfg", action=ActionConfigFile)
        p.add_argument("--la", type=List[Any], default=["d"])
        p.add_argument("--ols", type=Optional[List[str]])
        p.add_argument("--ldc", type=List[lib.DC])
        p.add_argument("--np", nargs="+", choices=["x", "y"])
        p.add_argument("--uid", type=uuid.UUID)
        p.add_argument("--rng", type=range, default=range(3))
        p.add_argument("--td", type=datetime.timedelta)
        p.add_argument("--cx", type=complex)
        p.add_argument("--by", type=bytes)
        p.add_argument("--pth", type=pathlib.Path)
    else:
        raise AssertionError(shape)
    return p
