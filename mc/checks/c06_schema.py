"""C06 helper: parser shapes, the expected-key schema, base configurations and the mutation enumerator.

The *schema* of a parser shape is a tree of plain dicts that says, for every node of a configuration, which keys
are defined there and which of them are required.  It is derived from two independent sources only:

  * the declarative shape (the list of add_argument / add_class_arguments / add_subclass_arguments /
    add_subcommands calls this module itself issues), and
  * the signatures of the fixture classes (mc/fixtures/c06/lib.py) read with `inspect` / `dataclasses` / `typing`.

Nothing here asks jsonargparse what it thinks the keys are.

Schema nodes
    {"k": "leaf", "t": "int" | "str"}
    {"k": "rec",  "label": str, "fields": {name: [node, required]}, "subs": None | {...}}   a mapping with fixed keys
    {"k": "spec", "base": ClassName}                 {"class_path": ..., "init_args": rec of that class}
    {"k": "list", "of": node} / {"k": "dict", "of": node} / {"k": "opt", "of": node}
"rec" labels name the code path that validates the node: top, subcommand, dotted-group, parser-group (the arguments
of a parser added with ActionParser), dataclass-group (a
dataclass-typed argument or field expanded into a group of a parser), class-group (add_class_arguments),
dataclass-value (a dataclass handled by the type-hint machinery: below Optional / List / Dict / init_args),
init_args, typed-dict (a TypedDict value, validated by the type-hint code without a per-class parser).
"""
from __future__ import annotations

import copy
import dataclasses
import inspect
import typing

FIX = "mc.fixtures.c06.lib"
FOREIGN = "zzq"


def lib():
    import importlib

    return importlib.import_module(FIX)


# ------------------------------------------------------------------------------------------------
# reading the fixture classes (typing / inspect only)


def type_node(ann, ctx):
    """Annotation -> schema node.  `ctx` is "group" where a dataclass is expanded into parser arguments
    (directly an argument/field of a parser or of another group dataclass) and "value" elsewhere."""
    if ann is int:
        return {"k": "leaf", "t": "int"}
    if ann is str:
        return {"k": "leaf", "t": "str"}
    origin = typing.get_origin(ann)
    args = typing.get_args(ann)
    if origin is typing.Union and len(args) == 2 and type(None) in args:
        inner = [a for a in args if a is not type(None)][0]
        return {"k": "opt", "of": type_node(inner, "value"), "ctx": "optional"}
    if origin is typing.Union and len(args) == 2 and args[1] is int:
        # Union[X, int]: a mapping value can only be an X
        return {"k": "opt", "of": type_node(args[0], "value"), "ctx": "union"}
    if origin in (list, typing.List):
        return {"k": "list", "of": type_node(args[0], "value")}
    if origin in (dict, typing.Dict):
        assert args[0] is str
        return {"k": "dict", "of": type_node(args[1], "value")}
    if typing.is_typeddict(ann):
        hints = typing.get_type_hints(ann)
        fields = {n: [type_node(t, "value"), n in ann.__required_keys__] for n, t in hints.items()}
        return {"k": "rec", "label": "typed-dict", "cls": ann.__name__, "fields": fields, "subs": None}
    if inspect.isclass(ann) and dataclasses.is_dataclass(ann):
        label = "dataclass-group" if ctx == "group" else "dataclass-value"
        return {"k": "rec", "label": label, "cls": ann.__name__, "fields": class_fields(ann, ctx), "subs": None}
    if inspect.isclass(ann):
        return {"k": "spec", "base": ann.__name__}
    raise AssertionError(f"fixture annotation not covered by the C06 schema reader: {ann!r}")


def class_fields(cls, ctx):
    """{name: [node, required]} from the constructor signature (required = no default).  A parameter whose name
    begins with an underscore and that HAS a default is no key (documented: "considered internal and ignored"); one
    without a default is an ordinary required key (the class cannot be instantiated without it)."""
    out = {}
    if dataclasses.is_dataclass(cls):
        hints = typing.get_type_hints(cls)
        for f in dataclasses.fields(cls):
            req = f.default is dataclasses.MISSING and f.default_factory is dataclasses.MISSING
            if req or not f.name.startswith("_"):
                out[f.name] = [type_node(hints[f.name], ctx), req]
        return out
    sig = inspect.signature(cls.__init__)
    hints = typing.get_type_hints(cls.__init__)
    for name, p in list(sig.parameters.items())[1:]:
        assert p.kind is p.POSITIONAL_OR_KEYWORD, "fixture classes take no *args / **kwargs (dict_kwargs not judged)"
        if p.default is p.empty or not name.startswith("_"):
            out[name] = [type_node(hints[name], ctx), p.default is p.empty]
    return out


def hidden_keys(cls):
    """Optional underscore-named parameters of a fixture class (not keys, see class_fields)."""
    if dataclasses.is_dataclass(cls):
        return [f.name for f in dataclasses.fields(cls) if f.name.startswith("_") and f.name not in class_fields(cls, "value")]
    return [n for n in list(inspect.signature(cls.__init__).parameters)[1:] if n.startswith("_") and n not in class_fields(cls, "value")]


def subclasses(base_name):
    """Concrete classes acceptable for a class-typed node: the base first, then its subclasses (by name)."""
    base = getattr(lib(), base_name)
    found, todo = [base], [base]
    while todo:
        for s in sorted(todo.pop().__subclasses__(), key=lambda c: c.__name__):
            if s.__module__ == FIX and s not in found:
                found.append(s)
                todo.append(s)
    return [c.__name__ for c in found]


def init_args_rec(cls_name, linked=()):
    """rec of the init_args of a class.  `linked`: parameters that are the target of an argument link of the enclosing
    class-typed argument - derived by the parser, neither required nor to be given (reserved names)."""
    cls = getattr(lib(), cls_name)
    fields = {n: f for n, f in class_fields(cls, "value").items() if n not in linked}
    rec = {"k": "rec", "label": "init_args", "cls": cls_name, "fields": fields, "subs": None}
    if linked:
        rec["reserved"] = [n for n in linked if n in class_fields(cls, "value")]
    return rec


def class_path(cls_name):
    return f"{FIX}.{cls_name}"


# ------------------------------------------------------------------------------------------------
# parser shapes (declarative).  An argument declaration is a list:
#   ["arg", dotted_name, type_expr, required]      add_argument("--name", type=T, required=..)  (default None / [] / {})
#   ["classgroup", key, ClassName]                 add_class_arguments(Class, key)
#   ["subclass", key, ClassName, required]         add_subclass_arguments(Class, key, required=..)
#   ["parser", key, parser]                        add_argument("--key", action=ActionParser(parser=<parser>))
#   ["link", source_key, target_key]               link_arguments(source, target)  (applied on parse; issued after the
#                                                  arguments of the level).  The target is derived: no longer required,
#                                                  not to be given; everything else stays as declared
# "arg" / "classgroup" / "subclass" take an optional last element {options}: {"as_group": False} (class group / subclass
# argument added directly to the parser instead of into an argument group of its own), {"group": title} ("arg": added
# through parser.add_argument_group(title).add_argument) - presentation options that must not change which keys are
# defined or required
# type_expr: "int" | "str" | ClassName or alias name in the fixture module | ["List", t] | ["Dict", t] | ["Optional", t]
# A parser is {"args": [...], "sub": None | {"dest": str, "required": bool, "choices": {name: parser}}}


def P(args, sub=None):
    return {"args": args, "sub": sub}


def SUB(choices, dest="subcommand", required=True):
    return {"dest": dest, "required": required, "choices": choices}


FLAT = [["arg", "a", "int", True], ["arg", "b", "int", False]]
GROUP = [["arg", "g.uno", "int", True], ["arg", "g.vol", "str", False], ["arg", "g.h.wid", "int", True]]
DCARG = [["arg", "pt", "Pt", False], ["arg", "out", "Outer", False]]
OPTDC = [["arg", "opt", ["Optional", "Pt"], False]]
CLASSGROUP = [["classgroup", "cg", "Grp"]]
CLSARG = [["arg", "obj", "Base", True]]
LISTS = [["arg", "lc", ["List", "Leaf"], False], ["arg", "ld", ["List", "Pt"], False]]
DICT = [["arg", "dd", ["Dict", "Pt"], False]]
SUBCLASS = [["subclass", "model", "Base", True]]
BOX = [["arg", "box", "Box", False]]
TYPEDDICT = [["arg", "td", "TD", True], ["arg", "ltd", ["List", "TD"], False]]
UNIONS = [["arg", "oc", ["Optional", "Leaf"], False], ["arg", "un", "PtOrInt", False]]
NESTED = [
    ["arg", "dl", ["Dict", "Leaf"], False],
    ["arg", "ll", ["List", ["List", "Pt"]], False],
    ["arg", "dlp", ["Dict", ["List", "Pt"]], False],
    ["arg", "olp", ["Optional", ["List", "Pt"]], False],
    ["arg", "lo", ["List", "Outer"], False],
]

SHAPES = {
    # one node kind (or a small family) per shape: cheap parsers, every position explored through every channel
    "flat-group": P(FLAT + GROUP),
    "dataclass": P(DCARG + OPTDC),
    "class-group": P(CLASSGROUP),
    "class-arg": P(CLSARG),
    "containers": P(LISTS + DICT),
    "subclass-required": P(SUBCLASS + [["arg", "b", "int", False]]),
    "box": P(BOX),
    "typed-dict": P(TYPEDDICT),
    "unions": P(UNIONS),
    "nested-containers": P(NESTED),
    # a parser used as an argument (ActionParser): its arguments become a group of the outer parser
    "parser-group": P([["parser", "inner", P(FLAT + [["arg", "g.uno", "int", True], ["arg", "pt", "Pt", False]])], ["arg", "b", "int", False]]),
    # required subcommands two levels deep; required arguments inside subcommands; group / dataclass / class nodes
    # below a subcommand section
    "subcommands": P(
        [["arg", "top", "int", False]],
        SUB(
            {
                "fit": P(
                    [["arg", "f", "int", True], ["arg", "fo", "int", False]],
                    SUB(
                        {
                            "run": P([["arg", "r", "int", True], ["arg", "g.uno", "int", True], ["arg", "pt", "Pt", False]]),
                            "dry": P([["arg", "d", "int", False], ["arg", "obj", "Leaf", True]]),
                        },
                        dest="mode",
                    ),
                ),
                "test": P([["arg", "t", "int", True], ["arg", "ld", ["List", "Pt"], False]]),
            }
        ),
    ),
    # every node kind in one parser, below a two-level required subcommand
    "all-in-one": P(
        FLAT,
        SUB(
            {
                "go": P(
                    [["arg", "lvl", "int", True]],
                    SUB(
                        {
                            "all": P(GROUP + DCARG + OPTDC + CLASSGROUP + CLSARG + LISTS + DICT + SUBCLASS),
                            "none": P([["arg", "z", "int", False]]),
                        }
                    ),
                ),
                "stop": P([["arg", "s", "int", True]]),
            }
        ),
    ),
}

# construction axes: HOW the arguments are declared (the keys and their being required must not depend on it)
SHAPES.update(
    {
        # argument links: targets are an init arg of a required add_subclass_arguments argument, an init arg of a
        # required class-typed argument, a required leaf, a required field of a dataclass group; sources a class-group
        # parameter and a required leaf
        "links": P(
            [
                ["classgroup", "src", "Src"],
                ["arg", "a", "int", True],
                ["subclass", "model", "Base", True],
                ["arg", "obj", "Leaf", True],
                ["arg", "lim", "int", True],
                ["arg", "pt", "Pt", False],
                ["link", "src.size", "model.init_args.r"],
                ["link", "src.size", "obj.init_args.n"],
                ["link", "a", "lim"],
                ["link", "a", "pt.x"],
            ]
        ),
        # key names that begin with an underscore, in every node kind that takes its keys from a signature
        "underscore": P(
            [
                ["arg", "up", "UPt", False],
                ["arg", "uo", ["Optional", "UPt"], False],
                ["classgroup", "ug", "UGrp"],
                ["arg", "uc", "UCl", True],
                ["arg", "lu", ["List", "UPt"], False],
            ]
        ),
        # presentation options: as_group=False, arguments added through an explicit argument group
        "ungrouped": P(
            [
                ["subclass", "model", "Leaf", True, {"as_group": False}],
                ["classgroup", "cg", "Grp", {"as_group": False}],
                ["arg", "a", "int", True, {"group": "Explicit group"}],
                ["arg", "g.uno", "int", True, {"group": "Explicit group"}],
                ["arg", "obj", "Leaf", True, {"group": "Explicit group"}],
                ["arg", "b", "int", False],
            ]
        ),
    }
)
CONSTRUCTION_SHAPES = ("links", "underscore", "ungrouped")

QUICK_SHAPES = list(SHAPES)


def decl_options(decl):
    return decl[-1] if isinstance(decl[-1], dict) else {}


def resolve_type(expr):
    """type_expr -> real typing object (for add_argument)."""
    if expr == "int":
        return int
    if expr == "str":
        return str
    if isinstance(expr, str):
        return getattr(lib(), expr)
    kind, inner = expr
    t = resolve_type(inner)
    return {"List": typing.List[t], "Dict": typing.Dict[str, t], "Optional": typing.Optional[t]}[kind]


def build_parser(
    shape, *, default_env=False, exit_on_error=False, parser_mode="yaml", default_config_files=None, _top=True, _config=True
):
    """Fresh real parser for a shape (sub-parsers are added level by level)."""
    import jsonargparse

    kw = {"exit_on_error": exit_on_error, "parser_mode": parser_mode}
    if _top:
        kw.update(prog="app", env_prefix="APP", default_env=default_env)
        if default_config_files:
            kw["default_config_files"] = default_config_files
    parser = jsonargparse.ArgumentParser(**kw)
    if _config:
        parser.add_argument("--config", action=jsonargparse.ActionConfigFile)
    groups = {}
    for decl in shape["args"]:
        opts = decl_options(decl)
        extra = {"as_group": opts["as_group"]} if "as_group" in opts else {}
        if decl[0] == "arg":
            _, name, texpr, required = decl[:4]
            t = resolve_type(texpr)
            kwargs = {"type": t}
            if required:
                kwargs["required"] = True
            elif not (inspect.isclass(t) and dataclasses.is_dataclass(t)):
                kwargs["default"] = None
            container = parser
            if "group" in opts:
                if opts["group"] not in groups:
                    groups[opts["group"]] = parser.add_argument_group(opts["group"])
                container = groups[opts["group"]]
            container.add_argument("--" + name, **kwargs)
        elif decl[0] == "classgroup":
            parser.add_class_arguments(getattr(lib(), decl[2]), decl[1], **extra)
        elif decl[0] == "subclass":
            parser.add_subclass_arguments(getattr(lib(), decl[2]), decl[1], required=decl[3], **extra)
        elif decl[0] == "link":
            continue  # after all arguments of the level
        elif decl[0] == "parser":
            inner = build_parser(decl[2], exit_on_error=exit_on_error, parser_mode=parser_mode, _top=False, _config=False)
            parser.add_argument("--" + decl[1], action=jsonargparse.ActionParser(parser=inner))
        else:
            raise AssertionError(decl)
    for decl in shape["args"]:
        if decl[0] == "link":
            parser.link_arguments(decl[1], decl[2])
    if shape["sub"]:
        sub = shape["sub"]
        action = parser.add_subcommands(required=sub["required"], dest=sub["dest"])
        children = {}
        for name, child in sub["choices"].items():
            children[name] = _shallow_parser(child, exit_on_error, parser_mode)
            action.add_subcommand(name, children[name])
        for name, child in sub["choices"].items():
            _add_sublevels(children[name], child, exit_on_error, parser_mode)
    return parser


def _shallow_parser(shape, exit_on_error, parser_mode):
    shallow = {"args": shape["args"], "sub": None}
    return build_parser(shallow, exit_on_error=exit_on_error, parser_mode=parser_mode, _top=False)


def _add_sublevels(parser, shape, exit_on_error, parser_mode):
    if not shape["sub"]:
        return
    sub = shape["sub"]
    action = parser.add_subcommands(required=sub["required"], dest=sub["dest"])
    children = {}
    for name, child in sub["choices"].items():
        children[name] = _shallow_parser(child, exit_on_error, parser_mode)
        action.add_subcommand(name, children[name])
    for name, child in sub["choices"].items():
        _add_sublevels(children[name], child, exit_on_error, parser_mode)


# ------------------------------------------------------------------------------------------------
# schema of a shape


def type_expr_node(expr, ctx):
    return type_node(resolve_type(expr), ctx)


def parser_schema(shape, label="top"):
    """rec node of a parser: its arguments (dotted names nested as dotted-group recs) and its subcommands."""
    rec = {"k": "rec", "label": label, "fields": {}, "subs": None}
    for decl in shape["args"]:
        opts = decl_options(decl)
        if decl[0] == "arg":
            _, name, texpr, required = decl[:4]
            node = type_expr_node(texpr, "group")
            parts = name.split(".")
            cur = rec
            for part in parts[:-1]:
                if part not in cur["fields"]:
                    cur["fields"][part] = [{"k": "rec", "label": "dotted-group", "fields": {}, "subs": None}, False]
                cur = cur["fields"][part][0]
            cur["fields"][parts[-1]] = [node, required]
        elif decl[0] == "classgroup":
            cls = getattr(lib(), decl[2])
            # as_group=False: the parameters are plain dotted arguments of the parser, no option for the whole group
            label = "class-group" if opts.get("as_group", True) else "class-args-ungrouped"
            rec["fields"][decl[1]] = [
                {"k": "rec", "label": label, "cls": decl[2], "fields": class_fields(cls, "group"), "subs": None},
                False,
            ]
        elif decl[0] == "subclass":
            node = {"k": "spec", "base": decl[2], "how": "add_subclass_arguments"}
            if not opts.get("as_group", True):
                node["tag"] = "ungrouped"
            rec["fields"][decl[1]] = [node, decl[3]]
        elif decl[0] == "parser":
            rec["fields"][decl[1]] = [parser_schema(decl[2], "parser-group"), False]
    for decl in shape["args"]:
        if decl[0] == "link":
            _apply_link(rec, decl[2])
    if shape["sub"]:
        sub = shape["sub"]
        rec["subs"] = {
            "dest": sub["dest"],
            "required": sub["required"],
            "choices": {n: parser_schema(c, "subcommand") for n, c in sub["choices"].items()},
        }
    return rec


def _apply_link(rec, target):
    """Schema effect of link_arguments(.., target): the target key is derived - removed from the keys a configuration
    gives (so no longer required), its name stays reserved (not usable as a foreign key).  A target below the
    init_args of a class-typed argument is recorded at that argument's spec node (`linked`), which is tagged: the
    argument itself and all its other parameters stay exactly as declared."""
    parts = target.split(".")
    cur = rec
    for i, part in enumerate(parts):
        node = cur["fields"][part][0]
        if i == len(parts) - 1:
            del cur["fields"][part]
            cur.setdefault("reserved", []).append(part)
            return
        if node["k"] == "spec":
            assert parts[i + 1] == "init_args" and len(parts) == i + 3, target
            node.setdefault("linked", []).append(parts[i + 2])
            node["tag"] = "linked-init-arg"
            return
        assert node["k"] == "rec", target
        cur = node
    raise AssertionError(target)


GROUP_LIKE = ("dotted-group", "dataclass-group", "class-group", "parser-group", "class-args-ungrouped")
NO_OWN_OPTION = ("dotted-group", "class-args-ungrouped")  # group-like nodes that exist only through their members


def has_required(node):
    """True iff a value of this node cannot be left out: the node is a group-like rec with a required key below."""
    if node["k"] != "rec":
        return False
    if node["label"] not in GROUP_LIKE:
        return False
    return any(req or has_required(child) for child, req in node["fields"].values())


# ------------------------------------------------------------------------------------------------
# base configurations


def gen_value(node, mode, variant):
    """A valid value for `node`.  mode "min": only required keys, one list/dict item; "full": every key, two
    items.  `variant` selects the concrete class at every class-typed node (index modulo the number of classes)."""
    k = node["k"]
    if k == "leaf":
        return 7 if node["t"] == "int" else "w"
    if k == "rec":
        return gen_rec(node, mode, variant)
    if k == "spec":
        classes = subclasses(node["base"])
        cls = classes[variant % len(classes)]
        return {"class_path": class_path(cls), "init_args": gen_rec(init_args_rec(cls, node.get("linked", ())), mode, variant)}
    if k == "list":
        n = 1 if mode == "min" else 2
        # items differ in the selected class so that every list position sees every class over the variants
        return [gen_value(node["of"], mode, variant + i) for i in range(n)]
    if k == "dict":
        names = ["k"] if mode == "min" else ["k", "j"]
        return {name: gen_value(node["of"], mode, variant + i) for i, name in enumerate(names)}
    if k == "opt":
        return gen_value(node["of"], mode, variant)
    raise AssertionError(node)


def gen_rec(rec, mode, variant):
    out = {}
    for name, (child, req) in rec["fields"].items():
        if mode == "full" or req or has_required(child):
            out[name] = gen_value(child, mode, variant)
    return out


def subcommand_paths(shape):
    """All root-to-leaf subcommand selections of a shape: lists of names."""
    if not shape["sub"]:
        return [[]]
    out = []
    for name, child in shape["sub"]["choices"].items():
        out += [[name] + rest for rest in subcommand_paths(child)]
    return out


def gen_config(schema, mode, variant, subpath):
    """Valid configuration of a parser schema selecting the subcommands in `subpath`."""
    cfg = gen_rec(schema, mode, variant)
    if schema["subs"]:
        name = subpath[0]
        cfg[schema["subs"]["dest"]] = name
        cfg[name] = gen_config(schema["subs"]["choices"][name], mode, variant, subpath[1:])
    return cfg


def n_variants(schema):
    """Largest number of concrete classes at any class-typed node reachable in the schema."""
    best = 1

    def visit(node, depth=0):
        nonlocal best
        k = node["k"]
        if k == "rec":
            for child, _ in node["fields"].values():
                visit(child, depth)
            if node.get("subs"):
                for c in node["subs"]["choices"].values():
                    visit(c, depth)
        elif k == "spec":
            classes = subclasses(node["base"])
            best = max(best, len(classes))
            if depth < 3:
                for cls in classes:
                    visit(init_args_rec(cls), depth + 1)
        elif k in ("list", "dict", "opt"):
            visit(node["of"], depth)

    visit(schema)
    return best


def base_configs(shape_name):
    """[(mode, variant, subpath, cfg)] - the valid base configurations of one shape."""
    shape = SHAPES[shape_name]
    schema = parser_schema(shape)
    out = []
    for subpath in subcommand_paths(shape):
        for mode in ("min", "full"):
            for variant in range(n_variants(schema)):
                cfg = gen_config(schema, mode, variant, subpath)
                if not any(cfg == c for _, _, _, c in out):
                    out.append((mode, variant, subpath, cfg))
    return out


# ------------------------------------------------------------------------------------------------
# walking a configuration along the schema; mutations


def walk(node, value, path=(), ctx="root", alts=()):
    """Yield (path, node, value, label, ctx, alts) for every mapping node of a configuration (rec and spec nodes).
    `label` names the node kind and `ctx` how it is reached; together they name the code path that validates the
    node.  `alts` (init_args nodes only): the other classes the enclosing class-typed node accepts."""
    k = node["k"]
    if k == "rec":
        yield path, node, value, node["label"], ctx, alts
        for name, (child, _req) in node["fields"].items():
            if name in value and value[name] is not None:
                yield from walk(child, value[name], path + (name,), node["label"])
        if node.get("subs"):
            dest = node["subs"]["dest"]
            name = value.get(dest)
            if name in node["subs"]["choices"] and isinstance(value.get(name), dict):
                yield from walk(node["subs"]["choices"][name], value[name], path + (name,), node["label"])
    elif k == "spec":
        how = "subclass-arg" if node.get("how") else "class"
        yield path, node, value, how + "-spec", ctx, ()
        cls = value["class_path"].rsplit(".", 1)[1]
        if isinstance(value.get("init_args"), dict):
            others = tuple(c for c in subclasses(node["base"]) if c != cls)
            yield from walk(init_args_rec(cls, node.get("linked", ())), value["init_args"], path + ("init_args",), how, others)
    elif k == "list":
        for i, item in enumerate(value):
            yield from walk(node["of"], item, path + (i,), "list-item-first" if i == 0 else "list-item-later")
    elif k == "dict":
        for name, item in value.items():
            yield from walk(node["of"], item, path + (name,), "dict-value")
    elif k == "opt":
        if value is not None:
            yield from walk(node["of"], value, path, node["ctx"])


def defined_keys(node, value):
    """Keys the schema defines at a mapping node."""
    if node["k"] == "spec":
        return {"class_path", "init_args", "dict_kwargs"}
    keys = set(node["fields"]) | set(node.get("reserved", ()))
    if node.get("subs"):
        keys |= {node["subs"]["dest"], *node["subs"]["choices"]}
    return keys


def foreign_names(path, node, value, alts):
    """[(tag, name)] - the foreign key names tried at one node.  "never": a name no parser level defines; the others
    are names that ARE defined elsewhere (own key of the node, a key of a child node, a parameter of a sibling
    class, the reserved word init_args) but not at this node."""
    defined = defined_keys(node, value) | NOT_FOREIGN
    out = [("never", FOREIGN)]
    own = [p for p in path if isinstance(p, str)]
    if own and own[-1] not in defined:
        out.append(("own-name", own[-1]))
    if node["k"] == "rec":
        for child, _ in node["fields"].values():
            inner = child["of"] if child["k"] in ("opt", "list", "dict") else child
            if inner["k"] == "rec":
                cand = [n for n in inner["fields"] if n not in defined]
                if cand:
                    out.append(("child-key", cand[0]))
                    break
        for other in alts:
            cand = [n for n in init_args_rec(other)["fields"] if n not in defined]
            if cand:
                out.append(("sibling-class-key", cand[0]))
                break
        if "init_args" not in defined:
            out.append(("reserved-word", "init_args"))
    return out


NOT_FOREIGN = {"dict_kwargs", "__path__", "config"}  # escape hatch / metadata keys: never used as foreign keys


def related_names(node, value, every=False):
    """[(tag, name)] - foreign key names that are *spelling neighbours* of a key the node defines:

      "truncated"  a defined key without its last letter  (`yaw` -> `ya`, `class_path` -> `class_pat`): a proper
                   textual prefix of a defined key that is not itself defined at the node
      "extended"   a defined key plus one letter          (`yaw` -> `yawq`): a defined key is a proper prefix of it

    every=False: one name per class - derived from the first defined key of >= 3 letters that yields an undefined
    name (else the first of 2 letters); every=True: one name per class and defined key."""
    defined = defined_keys(node, value)
    keys = [k for k in _ordered_keys(node) if k not in NOT_FOREIGN]
    ok = lambda name: name and name not in defined and name not in NOT_FOREIGN  # noqa: E731
    trunc, ext = [], []
    for k in sorted(keys, key=lambda k: 0 if len(k) >= 3 else 1):
        if ok(k[:-1]) and k[:-1] not in trunc:
            trunc.append(k[:-1])
        if ok(k + "q") and k + "q" not in ext:
            ext.append(k + "q")
    if not every:
        trunc, ext = trunc[:1], ext[:1]
    return [("truncated", n) for n in trunc] + [("extended", n) for n in ext]


APPEND_SUFFIX = "+"  # the one character of the key grammar with a meaning of its own: `name+` = append to the list `name`


def appendable(node):
    """`key+` is a defined spelling (append) only for list-typed keys, also below Optional / Union."""
    if node["k"] == "list":
        return True
    return node["k"] == "opt" and appendable(node["of"])


def suffixed_names(node, value, every=False):
    """[(tag, name)] - foreign key names that carry the append suffix `+` although no list-typed key of the node has
    that base name:

      "plus-suffixed"          a name no parser level defines, plus `+`         (`zzq+`)
      "plus-suffixed-defined"  a key the node defines that is NOT list-typed, plus `+`   (`yaw+` next to `yaw: int`)

    `key+` for a list-typed key is the library's append spelling, i.e. a defined key - never used here.
    every=False: one defined base key per node (an int leaf if there is one, then a key with a default, then a name of
    >= 3 letters, then declaration order); every=True: one per KIND of non-list key the node defines (int leaf, str leaf, each group /
    dataclass / class-typed / dict kind, subcommand selector, subcommand name; class_path and init_args) - whether
    `key+` means "append" is decided by the type of `key`."""
    defined = defined_keys(node, value)
    out = [("plus-suffixed", FOREIGN + APPEND_SUFFIX)]
    if node["k"] == "spec":
        cand, kind_of = ["class_path", "init_args"], (lambda k: k)
    else:
        fields = node["fields"]
        cand = [k for k in _ordered_keys(node) if k not in fields or not appendable(fields[k][0])]

        def kind_of(k):
            if k not in fields:
                return "selector" if k == node["subs"]["dest"] else "subcommand-name"
            child = fields[k][0]
            while child["k"] == "opt":
                child = child["of"]
            return (child["k"], child.get("t") or child.get("label") or "")

        def rank(k):
            optional = k in fields and not fields[k][1]  # absent from a required-only base, present in a full one
            return (0 if kind_of(k) == ("leaf", "int") else 1, 0 if optional else 1, 0 if len(k) >= 3 else 1)

        cand.sort(key=rank)
    names, kinds = [], set()
    for k in cand:
        name = k + APPEND_SUFFIX
        if k in NOT_FOREIGN or name in defined or kind_of(k) in kinds:
            continue
        kinds.add(kind_of(k))
        names.append(name)
    return out + [("plus-suffixed-defined", n) for n in (names if every else names[:1])]


def _ordered_keys(node):
    if node["k"] == "spec":
        return ["class_path", "init_args"]
    keys = list(node["fields"])
    if node.get("subs"):
        keys += [node["subs"]["dest"], *node["subs"]["choices"]]
    return keys


def mutations(schema, cfg, subpath=(), rich=False, values=(1,), related=True, related_every=False, suffixed=None, suffixed_every=False):
    """Every single-position mutation of a valid configuration:
    ["foreign", path, kind, name, value(, name class)]  insert a foreign key into the mapping at `path`; the name
                                            class is given for the spelling neighbours of related_names()
    ["remove" | "null", path + [key], kind] remove / null one required key
    ["leftover", [depth], kind, form]       (argv only) tokens no parser defines, at one subcommand depth
    Required keys: keys flagged required, group-like keys with a required key below them, a required subcommand
    (its selector key; the settings sections go with it, otherwise the library legitimately infers the selection
    from the section that is present - that rule is C17's).
    rich=False: foreign key "zzq" with every value in `values`.  rich=True: every name of foreign_names() x values {1, None, {"x": 1}}.
    related=True: additionally the spelling neighbours of related_names() (one per class; related_every: per defined key), value 1.
    suffixed (default: like related): additionally the `+`-suffixed names of suffixed_names() (suffixed_every: one per
    kind of non-list defined key), value 1."""
    if suffixed is None:
        suffixed = related
    out = []
    for path, node, value, label, ctx, alts in walk(schema, cfg):
        kind = label if label == "top" else f"{label}@{ctx}"
        if rich:
            for tag, name in foreign_names(path, node, value, alts):
                for fvalue in [1, None, {"x": 1}] if tag == "never" else [1]:
                    out.append(["foreign", list(path), kind, name, fvalue])
        else:
            for fvalue in values:
                out.append(["foreign", list(path), kind, FOREIGN, fvalue])
        if related:
            for tag, name in related_names(node, value, every=related_every):
                out.append(["foreign", list(path), kind, name, 1, tag])
        if suffixed:
            for tag, name in suffixed_names(node, value, every=suffixed_every):
                out.append(["foreign", list(path), kind, name, 1, tag])
        if node["k"] != "rec":
            continue
        for name, (child, req) in node["fields"].items():
            if name not in value:
                continue
            if req or has_required(child):
                sub_kind = _req_kind(child, req) + "@" + label + (":underscore-name" if name.startswith("_") else "")
                out.append(["remove", list(path) + [name], sub_kind])
                out.append(["null", list(path) + [name], sub_kind])
        if node.get("subs") and node["subs"]["required"]:
            dest = node["subs"]["dest"]
            out.append(["remove", list(path) + [dest], "subcommand-selector@" + label])
            out.append(["null", list(path) + [dest], "subcommand-selector@" + label])
        if node.get("subs"):
            # the whole settings section of the SELECTED subcommand, when that subcommand has required keys
            name = value.get(node["subs"]["dest"])
            if name in value and section_has_required(node["subs"]["choices"][name]):
                out.append(["remove", list(path) + [name], "has-required-subcommand-section@" + label])
                out.append(["null", list(path) + [name], "has-required-subcommand-section@" + label])
    for depth in range(len(subpath) + 1):
        where = "leaf-parser" if depth == len(subpath) else "parser-with-subcommands"
        for form in ("positional", "flag", "option-value"):
            out.append(["leftover", [depth], f"{form}@{where}", form])
    return out


def section_has_required(rec):
    """A subcommand parser that cannot be satisfied by an empty section."""
    if any(req or has_required(child) for child, req in rec["fields"].values()):
        return True
    return bool(rec.get("subs") and rec["subs"]["required"])


def _req_kind(child, req):
    """Kind of a required key; a construction tag of the node (`linked-init-arg`: one of its init args is the target of a
    link; `ungrouped`: declared with as_group=False) is part of the kind - a root cause of its own."""
    if child["k"] == "rec":
        return ("required-" if req else "has-required-") + child["label"]
    return "required-" + child["k"] + ("-" + child["tag"] if child.get("tag") else "")


def link_sources(shape):
    """Source keys of the argument links declared at the root level of a shape."""
    return sorted({decl[1] for decl in shape["args"] if decl[0] == "link"})


def has_key(cfg, dotted):
    cur = cfg
    for part in dotted.split("."):
        if not isinstance(cur, dict) or cur.get(part) is None:
            return False
        cur = cur[part]
    return True


def schema_at(schema, cfg, path):
    """(node, value) at a path of a configuration."""
    for p, node, value, *_ in walk(schema, cfg):
        if list(p) == list(path):
            return node, value
    raise KeyError(path)


def apply_mutation(schema, cfg, mut):
    """New configuration = deep copy of cfg with one mutation applied (base / leftover: unchanged copy)."""
    cfg = copy.deepcopy(cfg)
    kind, path = mut[0], mut[1]
    if kind in ("base", "leftover"):
        return cfg
    if kind == "foreign":
        target = cfg
        for p in path:
            target = target[p]
        assert mut[3] not in target
        target[mut[3]] = copy.deepcopy(mut[4])
        return cfg
    target = cfg
    for p in path[:-1]:
        target = target[p]
    key = path[-1]
    node, _ = schema_at(schema, cfg, path[:-1])
    is_selector = node["k"] == "rec" and node.get("subs") and node["subs"]["dest"] == key
    if is_selector:
        for name in node["subs"]["choices"]:
            target.pop(name, None)
    if kind == "remove":
        del target[key]
    else:
        target[key] = None
    return cfg
