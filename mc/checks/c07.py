"""C07 - equivalent ways of declaring a nested group behave identically.

Bounded exhaustive product, executed on the real library: every field list (1-2 fields quick, 1-3 thorough) over
15 field variants x the four declaration styles (dotted `--g.f` arguments, `--g` typed with a generated dataclass,
`add_class_arguments(C, "g")`, `ActionParser` of an inner parser) x every per-field input option of the chosen
parse method (argv, config string, environment, object, append `+`, dict item, null, invalid ...) x a group-level
option (whole-group JSON on `--g`, whole-group environment variable, dotted-in-config spelling, unknown sub-key).
Four side spaces use the same machinery: a second, two-level group key (`t.g`); a top-level option linked
into the group (the linked field then refuses direct input - in every style); boolean flags declared with
`ActionYesNo` (only the dotted and inner styles can declare them); and "nested groups / source of the defaults":
field lists in which a field is itself a group (a dataclass-typed field of the dataclass / class, dotted leaves
`--g.f.s0`, an inner parser of the inner parser) x the place where the defaults are given (in the signature; at the
declaration with `default=` overriding the signature; afterwards with `set_defaults`; by the default instance of
the enclosing signature).  The same side space carries the fields whose intended default is None or another falsy
value (0, '', [], {}) while the signature says something else.  A fifth side space, "type wrappers", declares the
Optional wrapper over every base type (without default: implicit None; with default None) and a Union.  Whole-group
inputs include the *empty subset* of the fields: an empty mapping for the group (or a sub-group) in the config string
/ object, before or after the per-field inputs, `--g={}` and `APP_G={}`; and the *non-mapping* values: a number, a
list or a boolean in the place of the group (config string before / after the per-field inputs, object, string).
Two further side spaces vary the declaration itself: "spelling of the annotations" (every spelling of a generic
annotation with forward references - quoted arguments - inside it, signature styles only; the dotted / inner styles
get the evaluated types) and "declaration history" (the group is first declared under a key where the host parser
already owns the option of the first leaf - refused by every style - and then, with the same class / dataclass /
inner parser objects, under the free key).

Differential oracle, no hand-written expectation: for one case the observations of the styles that declare every
addressed option must be identical - accept/reject, typed value of `as_dict()`, key order, and the text of the
`dump()` variants.  Once per field list the *declared interface* (option strings and environment variable names
listed by `format_help()`, and which options it marks as required) is compared as well; an accept/reject divergence
whose styles split exactly like the required-marks of the declaration is named after the declaration.

The declarations are made equivalent by the library's documented rules (DESIGN.md section 5 C07, interpretation):
`f: Optional[T]` without default  <=>  `--g.f type=Optional[T] default=None` (not required);
`f: T = None`                      <=>  `--g.f type=Optional[T] default=None` ("automatic Optional");
fields are declared in the same order in every style, parameters without default first (Python demands it).
"""
from __future__ import annotations

import copy
import dataclasses
import enum
import itertools
import json
import os
import re
from typing import Dict, List, Optional, Union  # noqa: F401  (names used by generated sources)

META = {
    "id": "C07",
    "level": "exploration",
    "engine": "bounded exhaustive product on the real parsers (mc/checks/c07.py)",
    "technique": "exhaustive enumeration of field lists x 4 declaration styles x per-field input options; "
    "differential oracle across the styles (value, accept/reject, key order, dump texts, declared interface)",
    "level_text": "Every field list up to the stated length over the field-variant alphabet is declared in all four "
    "styles with real generated classes / dataclasses / inner parsers, and every combination of per-field input "
    "options of every parse method (parse_args with config string and environment, parse_object, parse_string, "
    "parse_env, get_defaults) is executed on each style; the observations must coincide. A side space repeats this "
    "for groups that contain a sub-group and for every place the defaults can be given (signature, default= at the "
    "declaration, set_defaults afterwards, default instance of the enclosing signature; including intended defaults "
    "that are None / falsy), another one for the Optional wrapper over every base type and a Union; whole-group "
    "inputs include the empty subset of the fields (empty mapping in config / object, --g={}, APP_G={}) and "
    "non-mapping values in the place of the group (number, list, boolean). Two side spaces vary the declaration: "
    "every forward-reference spelling of the generic annotations, and a refused first declaration followed by the "
    "declaration of the same objects under a free key. "
    "The space is finite and is "
    "enumerated completely, so within the bounds the verdict is exhaustive; it is a differential verdict (a defect "
    "common to all styles is invisible here and belongs to C02/C05/C06).",
    "level_note": "Trusted: the translation of one field list into four declarations by the two documented "
    "equivalence rules (Optional[T] without default = default None; T with default None = Optional[T]); typed "
    "canonical form mc.util.tcanon; one value alphabet per field type (3 valid values, 1 invalid per channel); the "
    "same defaults are spelled per style (instance / dict at the declaration, nested value under the group key for "
    "set_defaults, leaf by leaf in the dotted style, which has no group key). "
    "Inputs addressed to an option a style does not declare (--g / APP_G in the dotted style, ActionYesNo flags in "
    "the signature styles) are compared only across the styles that declare it. Error texts are not compared.",
    "design_ref": "DESIGN.md §5 C07",
}


class E(enum.Enum):
    A = 1
    B = 2


STYLES = ["dotted", "dataclass", "class", "inner"]
WITH_GROUP_OPTION = ["dataclass", "class", "inner"]  # styles that declare --g / APP_G
FLAG_STYLES = ["dotted", "inner"]  # styles that can declare an ActionYesNo flag
METHODS = ["interface", "defaults", "args", "object", "string", "env"]

# ---------------------------------------------------------------------------------------------------
# field variants: id -> (base, annotation source, default source or None)

VARIANTS = {
    "int!": ("int", "int", None),
    "ostr!": ("ostr", "Optional[str]", None),  # documented: Optional without default -> default None, not required
    "list!": ("list", "List[int]", None),
    "bool!": ("bool", "bool", None),
    "enum!": ("enum", "E", None),
    "dict!": ("dict", "Dict[str, int]", None),
    "float!": ("float", "float", None),
    "int": ("int", "int", "7"),
    "ostr": ("ostr", "Optional[str]", "'d'"),
    "list": ("list", "List[int]", "[1, 2]"),
    "bool": ("bool", "bool", "False"),
    "enum": ("enum", "E", "E.A"),
    "dict": ("dict", "Dict[str, int]", "{'k': 1}"),
    "float": ("float", "float", "0.5"),
    "intN": ("int", "int", "None"),  # documented: default None widens the annotation to Optional[int]
    # only in the flag side space (dotted and inner styles): booleans declared with ActionYesNo
    "yesno": ("yesno", "bool", "False"),  # nargs=0: --g.f / --no_g.f
    "yesno?": ("yesno", "bool", "True"),  # nargs="?": additionally --g.f=true / --no_g.f=true
}
FLAGS = ["yesno", "yesno?"]
# only in the side space "type wrappers": the Optional wrapper over every base type of the alphabet, without default
# (documented: implicit default None, not required) and with default None, and a Union; plus - for the side space
# "source of the defaults" - fields whose intended default is None or another falsy value (0, '', [], {})
TYPE_SIDE = []
for _b, _ann in [("int", "int"), ("list", "List[int]"), ("bool", "bool"), ("enum", "E"), ("dict", "Dict[str, int]"), ("float", "float")]:
    VARIANTS[f"o{_b}!"] = (_b, f"Optional[{_ann}]", None)
    VARIANTS[f"o{_b}N"] = (_b, f"Optional[{_ann}]", "None")
    TYPE_SIDE += [f"o{_b}!", f"o{_b}N"]
VARIANTS["ostrN"] = ("ostr", "Optional[str]", "None")
VARIANTS["olist"] = ("list", "Optional[List[int]]", "[1, 2]")
VARIANTS["union!"] = ("union", "Union[int, List[int]]", None)
VARIANTS["union"] = ("union", "Union[int, List[int]]", "7")
VARIANTS["ounion!"] = ("union", "Optional[Union[int, List[int]]]", None)
TYPE_SIDE += ["ostrN", "olist", "union!", "union", "ounion!"]
FALSY = {"int0": ("int", "int", "0"), "ostrE": ("ostr", "Optional[str]", "''"), "listE": ("list", "List[int]", "[]"), "dictE": ("dict", "Dict[str, int]", "{}")}
VARIANTS.update(FALSY)
SIDE_ONLY = set(TYPE_SIDE) | set(FALSY)
# only in the side space "nested groups / source of the defaults": a field that is itself a group.  The variant names
# the field list of the sub-group (positional names s0, s1 ... one level down, t0 ... two levels down); in the two
# signature styles its type is a generated dataclass, in the dotted style its leaves are declared as `--g.f.s0`,
# in the inner style it is an inner parser of the inner parser.
SUB_SHAPES = {"sub": ["int", "ostr"], "sub2": ["int", "sub", "ostr"], "subN": ["int", "ostrN"]}
for _v in SUB_SHAPES:
    VARIANTS[_v] = ("sub", None, "<group>")
SUBS = list(SUB_SHAPES)
NO_DEFAULT = [v for v, (_, _, d) in VARIANTS.items() if d is None and v not in SIDE_ONLY]
WITH_DEFAULT = [
    v for v, (_, _, d) in VARIANTS.items() if d is not None and v not in FLAGS and v not in SUBS and v not in SIDE_ONLY
]
# fields that accept null: the annotation is Optional, or the default None widens it
NULLABLE = {v for v, (_, a, d) in VARIANTS.items() if a is not None and (a.startswith("Optional[") or d == "None")}
# the *other* default a signature carries when the intended default is given somewhere else (DFLT_MODES below)
ALT_DEFAULT = {
    "int": "70",
    "ostr": "'e'",
    "list": "[8]",
    "bool": "True",
    "enum": "E.B",
    "dict": "{'j': 2}",
    "float": "1.25",
    # intended default None / falsy, the signature carries a value
    "ostrN": "'e'",
    "olistN": "[8]",
    "ointN": "70",
    "int0": "70",
    "ostrE": "'e'",
    "listE": "[8]",
    "dictE": "{'j': 2}",
}
# where the intended defaults of the group are given:
#   sig   in the signature / in every add_argument (the main space)
#   decl  at the declaration, overriding a signature that carries ALT_DEFAULT:
#         add_argument("--g", type=GD, default=GD(...)); add_class_arguments(G, "g", default={...})
#   post  after the declaration, every style having declared ALT_DEFAULT: parser.set_defaults({"g": {...}}) where
#         the key g is declared, parser.set_defaults({"g.f0": ..., "g.f1.s0": ...}) in the dotted style
#   fact  (lists with a sub-group) the sub-group's own class carries ALT_DEFAULT, the enclosing signature's default
#         (default_factory / default instance) carries the intended values
DFLT_MODES = ["sig", "decl", "post", "fact"]

VALUES = {
    "int": {"argv": "3", "json": 4, "env": "5", "bad_argv": "x", "bad_json": "x"},
    "ostr": {"argv": "s1", "json": "s2", "env": "s3", "bad_argv": None, "bad_json": [1]},
    "list": {"argv": "[3, 4]", "json": [5], "env": "[6]", "bad_argv": "[3, x]", "bad_json": [3, "x"]},
    "bool": {"argv": "true", "json": True, "env": "true", "bad_argv": "maybe", "bad_json": "maybe"},
    "enum": {"argv": "B", "json": "B", "env": "B", "bad_argv": "C", "bad_json": "C"},
    "dict": {"argv": '{"m": 2}', "json": {"n": 3}, "env": '{"p": 4}', "bad_argv": '{"m": "x"}', "bad_json": {"m": "x"}},
    "float": {"argv": "1.5", "json": 2.5, "env": "3.5", "bad_argv": "x", "bad_json": "x"},
    "yesno": {"argv": "true", "json": True, "env": "true", "bad_argv": "maybe", "bad_json": "maybe"},
    "union": {"argv": "3", "json": [5], "env": "[6]", "bad_argv": "x", "bad_json": "x"},
}
APPEND_ITEM = 9  # `--g.f+=9`, {"f+": [9]}
DICT_ITEM = ("q", 8)  # `--g.f.q=8`
TWO_SOURCES = {"CP": "C P", "CK": "C K", "CA": "C A", "EA": "E A", "AP": "A P", "EP": "E P", "AK": "A K", "EK": "E K"}
# whole-group inputs that are not a mapping (invalid shapes): the config string / the object carries a number, a
# list or a boolean in the place of the group
NON_MAPPING = {"gX3": 3, "gXL": [1, 2], "gXB": True, "gXz": 3}
# declaration history (side space "declaration history"): `retry` = the host parser already owns an option with the
# name of the group's first leaf under another key `h`; the group is first declared under `h` - which every style
# must refuse - and then, with the very same class / dataclass / inner parser objects, under the free key
HIST_KEY = "h"


def spellings(ann):
    """Every spelling of an annotation in which arguments of its generics are written as forward references
    (quoted): for each argument of each subscript, either one of its own spellings or the whole argument quoted.
    The first entry is the fully evaluated spelling (the text itself); a plain name has no other spelling."""
    import ast

    def render(node):
        if not isinstance(node, ast.Subscript):
            return [ast.unparse(node)]
        sl = node.slice
        args = list(sl.elts) if isinstance(sl, ast.Tuple) else [sl]
        per_arg = [render(a) + [repr(ast.unparse(a))] for a in args]
        head = ast.unparse(node.value)
        return [f"{head}[{', '.join(combo)}]" for combo in itertools.product(*per_arg)]

    return render(ast.parse(ann, mode="eval").body)



def field_specs(vids, depth=0):
    """[(name, variant id, base, annotation source, default source)] - names are positional (f0.. in the group,
    s0.. in a sub-group, t0.. in a sub-group of a sub-group)."""
    return [(f"{'fst'[depth]}{i}", v) + VARIANTS[v] for i, v in enumerate(vids)]


def sub_specs(vid, depth):
    """The field list of a sub-group variant that sits at nesting depth `depth`."""
    return field_specs(SUB_SHAPES[vid], depth + 1)


def leaf_paths(fields, depth=0, prefix=""):
    """[(dotted path below the group key, variant id, base)] of every leaf, in declaration order."""
    out = []
    for n, vid, base, _, _ in fields:
        if base == "sub":
            out += leaf_paths(sub_specs(vid, depth), depth + 1, f"{prefix}{n}.")
        else:
            out.append((prefix + n, vid, base))
    return out


def group_paths(fields, depth=0, prefix=""):
    """Dotted paths (below the group key) of the sub-groups."""
    out = []
    for n, vid, base, _, _ in fields:
        if base == "sub":
            out.append(prefix + n)
            out += group_paths(sub_specs(vid, depth), depth + 1, f"{prefix}{n}.")
    return out


def json_value(vid, depth=0):
    """The config-channel value of a field (nested for a sub-group: every leaf)."""
    if VARIANTS[vid][0] == "sub":
        return {n: json_value(v, depth + 1) for n, v, *_ in sub_specs(vid, depth)}
    return VALUES[VARIANTS[vid][0]]["json"]


def intended_defaults(fields, depth=0):
    """The intended defaults of a list of with-default fields as a nested dict of real values."""
    ns = _gen_namespace()
    return {
        n: intended_defaults(sub_specs(vid, depth), depth + 1) if base == "sub" else eval(dflt, ns)
        for n, vid, base, _, dflt in fields
    }


def flat_defaults(fields, key):
    """The intended defaults leaf by leaf: {"g.f0": ..., "g.f1.s0": ...}."""
    ns = _gen_namespace()
    return {f"{key}.{path}": eval(VARIANTS[vid][2], ns) for path, vid, _ in leaf_paths(fields)}


# ---------------------------------------------------------------------------------------------------
# the four declarations of one field list


def _gen_namespace():
    return {
        "__name__": __name__,
        "Optional": Optional,
        "Union": Union,
        "List": List,
        "Dict": Dict,
        "E": E,
        "dataclasses": dataclasses,
    }


def _compile(src, name, has_sub_groups):  # has_sub_groups: also set for the forward-reference spellings
    """Generated sources inherit this module's `from __future__ import annotations`: their annotations are strings,
    resolved by the library in this module's globals (Optional, List, Dict, E).  The generated classes of sub-groups
    are not module globals, so sources that refer to them are compiled with real annotation objects instead."""
    return compile(src, name, "exec", dont_inherit=True) if has_sub_groups else compile(src, name, "exec")


def _sig_default(vid, dflt, alt):
    """The default text a signature / add_argument carries: the intended one, or the other one."""
    return ALT_DEFAULT[vid] if alt else dflt


def _instance_src(name, fields, depth=0):
    """Source of an instance of the generated dataclass `name` that carries the intended defaults."""
    args = []
    for n, vid, base, _, dflt in fields:
        if base == "sub":
            args.append(f"{n}={_instance_src(f'{name}_{n}', sub_specs(vid, depth), depth + 1)}")
        else:
            args.append(f"{n}={dflt}")
    return f"{name}({', '.join(args)})"


def _gen_dataclass(name, fields, lines, alt, sub_alt, fact, depth=0):
    """Append the source of the dataclass `name` to `lines`, the classes of its sub-groups first.

    alt: this class carries ALT_DEFAULT; sub_alt: the classes of the sub-groups do; fact: the defaults of the
    sub-group fields are instances carrying the intended values (otherwise the sub-group class itself)."""
    body = []
    for n, vid, base, ann, dflt in fields:
        if base == "sub":
            sub = f"{name}_{n}"
            inner = sub_specs(vid, depth)
            _gen_dataclass(sub, inner, lines, sub_alt, sub_alt, False, depth + 1)
            factory = f"lambda: {_instance_src(sub, inner, depth + 1)}" if fact else sub
            body.append(f"    {n}: {sub} = dataclasses.field(default_factory={factory})\n")
        elif dflt is None:
            body.append(f"    {n}: {ann}\n")
        elif base in ("list", "dict") and _sig_default(vid, dflt, alt) != "None":
            body.append(f"    {n}: {ann} = dataclasses.field(default_factory=lambda: {_sig_default(vid, dflt, alt)})\n")
        else:
            body.append(f"    {n}: {ann} = {_sig_default(vid, dflt, alt)}\n")
    lines.append(f"@dataclasses.dataclass\nclass {name}:\n" + "".join(body) + "\n")


def respell(fields, spell):
    """The field list with the annotation of field i replaced by its spelling number spell[i] (see `spellings`)."""
    if not spell:
        return fields
    return [(n, vid, base, spellings(ann)[k] if ann else ann, dflt) for (n, vid, base, ann, dflt), k in zip(fields, spell)]


def make_class(fields, dflt_mode="sig", evaluated=False):
    """A real class whose __init__ carries the annotations and defaults (sub-groups: generated dataclasses)."""
    alt, sub_alt, fact = dflt_mode in ("decl", "post"), dflt_mode != "sig", dflt_mode == "fact"
    lines, params = [], []
    for n, vid, base, ann, dflt in fields:
        if base == "sub":
            sub = f"G_{n}"
            inner = sub_specs(vid, 0)
            _gen_dataclass(sub, inner, lines, sub_alt, sub_alt, False, 1)
            params.append(f"{n}: {sub} = " + (_instance_src(sub, inner, 1) if fact else f"{sub}()"))
        else:
            params.append(f"{n}: {ann}" + (f" = {_sig_default(vid, dflt, alt)}" if dflt is not None else ""))
    body = "".join(f"        self.{n} = {n}\n" for n, *_ in fields)
    src = "".join(lines) + f"class G:\n    def __init__(self, {', '.join(params)}):\n{body}"
    ns = _gen_namespace()
    exec(_compile(src, "<c07 generated class>", bool(lines) or evaluated), ns)
    return ns["G"]


def make_dataclass(fields, dflt_mode="sig", with_instance=False, evaluated=False):
    alt, sub_alt, fact = dflt_mode in ("decl", "post"), dflt_mode != "sig", dflt_mode == "fact"
    lines = []
    _gen_dataclass("GD", fields, lines, alt, sub_alt, fact)
    ns = _gen_namespace()
    exec(_compile("".join(lines), "<c07 generated dataclass>", len(lines) > 1 or evaluated), ns)
    if with_instance:  # an instance that carries the intended defaults
        return ns["GD"], eval(_instance_src("GD", fields), ns)
    return ns["GD"]


def _add_plain(parser, prefix, fields, J, alt=False, inner_parsers=False, depth=0):
    """The argument-by-argument declaration (dotted style with prefix 'g.', inner parser with prefix '').
    A sub-group is declared leaf by leaf under a longer prefix, or (inner style) as an inner parser of its own."""
    ns = _gen_namespace()
    for n, vid, base, ann, dflt in fields:
        opt = f"--{prefix}{n}"
        if base == "sub":
            if inner_parsers:
                sub = J.ArgumentParser(exit_on_error=False)
                _add_plain(sub, "", sub_specs(vid, depth), J, alt, True, depth + 1)
                parser.add_argument(opt, action=J.ActionParser(parser=sub))
            else:
                _add_plain(parser, f"{prefix}{n}.", sub_specs(vid, depth), J, alt, False, depth + 1)
            continue
        if base == "yesno":
            kw = {"nargs": "?"} if vid == "yesno?" else {}
            parser.add_argument(opt, action=J.ActionYesNo, default=eval(dflt, ns), **kw)
            continue
        typ = eval(ann, ns)
        if dflt is None:
            if ann.startswith("Optional["):
                parser.add_argument(opt, type=typ, default=None)
            else:
                parser.add_argument(opt, type=typ, required=True)
        else:
            value = eval(_sig_default(vid, dflt, alt), ns)
            if value is None and not ann.startswith("Optional["):
                typ = Optional[typ]
            parser.add_argument(opt, type=typ, default=value)


class NotRefused(Exception):
    """The first declaration of the history `retry` (over an option the host parser owns) was not refused."""


def build_parser(style, fields, key, J, link=False, dflt_mode="sig", spell=None, hist=None):
    parser = J.ArgumentParser(prog="app", exit_on_error=False, default_env=True, env_prefix="APP")
    parser.add_argument("--cfg", action=J.ActionConfigFile)
    post = dflt_mode == "post"
    # the signature styles see the annotations in the requested spelling (forward references inside generics ...);
    # the dotted / inner styles are given the evaluated types - they are the reference
    sig_fields, evaluated = respell(fields, spell), bool(spell)
    # the objects a declaration is made of are created once: a repeated declaration (history `retry`) uses the same
    # class / dataclass / inner parser again
    kw, cls, inner = {}, None, None
    if style == "dataclass":
        if dflt_mode == "decl":
            cls, instance = make_dataclass(sig_fields, dflt_mode, with_instance=True, evaluated=evaluated)
            kw = {"default": instance}
        else:
            cls = make_dataclass(sig_fields, dflt_mode, evaluated=evaluated)
    elif style == "class":
        kw = {"default": intended_defaults(fields)} if dflt_mode == "decl" else {}
        cls = make_class(sig_fields, dflt_mode, evaluated=evaluated)
    elif style == "inner":
        inner = J.ArgumentParser(exit_on_error=False)
        _add_plain(inner, "", fields, J, alt=post, inner_parsers=True)
    elif style != "dotted":
        raise AssertionError(style)

    def declare(k):
        if style == "dotted":
            _add_plain(parser, k + ".", fields, J, alt=post)
        elif style == "dataclass":
            parser.add_argument("--" + k, type=cls, **kw)
        elif style == "class":
            parser.add_class_arguments(cls, k, **kw)
        else:
            parser.add_argument("--" + k, action=J.ActionParser(parser=inner))

    if hist == "retry":
        # the host application owns the option named like the first leaf of the group under the key `h`: declaring
        # the group there must be refused (by every style), the group then goes under the free key
        parser.add_argument(f"--{HIST_KEY}.{leaf_paths(fields)[0][0]}", type=str, default="host")
        try:
            declare(HIST_KEY)
        except Exception:
            pass
        else:
            raise NotRefused(f"declaring the group over the existing option --{HIST_KEY}.{leaf_paths(fields)[0][0]} was not refused")
    declare(key)
    if post:
        # the same defaults, given after the declaration: as one nested value under the group key where the style
        # declares that key, leaf by leaf in the dotted style (which has no key `g`)
        parser.set_defaults(flat_defaults(fields, key) if style == "dotted" else _nest(key, intended_defaults(fields)))
    if link:
        # a top-level option of the last field's type, linked into the group
        n, _, base, ann, _ = fields[-1]
        ns = _gen_namespace()
        default = VALUES[base]["json"]
        parser.add_argument("--src", type=eval(ann, ns), default=E[default] if base == "enum" else copy.deepcopy(default))
        parser.link_arguments("src", f"{key}.{n}")
    return parser


# ---------------------------------------------------------------------------------------------------
# input options

# whole-group value first (gJ0 / gE0: the empty subset of the fields, `--g={}` / `APP_G={}`; gM: the config string
# mentions the group with an empty mapping, `--cfg '{"g": {}}'`), then per-field options U A P K
ARGS_GROUP_AFTER = ["gJ", "gJ1", "gJ0", "gE", "gE0", "gUj", "gUa", "gM", "gX3", "gXL", "gXB"]
ARGS_GROUP_CFG = ["gD", "gUc"]  # per-field options U C CP CK, all spelled inside the config string
# gMz: per-field options U A C E first (C in a config string of its own), then a second config string that mentions
# the group with an empty mapping
EMPTY_SUBSET = ["gJ0", "gE0", "gM", "gMz"]  # whole-group inputs that name none of the fields
# gX3 gXL gXB: the config string (first, then per-field U A P K) / the object carries a number / a list / a boolean
# in the place of the group; gXz: a second config string with the number, after the per-field inputs U A C
AFTER_FIELDS = ["gMz", "gXz"]
OBJECT_ALONE = ["gM", "gX3", "gXL", "gXB"]  # objects that carry nothing but the whole-group value


def field_options(vid, method, level, group="g0", role=None):
    """Per-field input options of one variant.

    level: single (everything) | pair | pair+ (pair + invalid-by-config + two-source options) | triple (core).
    role: None, or "target" / "other" in the link side space."""
    base = VARIANTS[vid][0]
    v = VALUES.get(base)
    lst, dct = base == "list", base == "dict"
    if method in ("defaults", "interface"):
        return ["U"]
    if role == "other":
        return ["U"] if VARIANTS[vid][2] is not None or vid == "ostr!" else ["A"]
    if role == "target":
        return ["U", "S", "A", "C"] + (["P"] if lst else []) + (["K"] if dct else []) + (["N"] if vid in NULLABLE else [])
    if base == "sub":
        # inputs of a sub-group field: A / E / X / O address its first leaf, C / XC its last leaf, J gives the
        # whole sub-group as JSON on its own option `--g.f` (declared by every style except the dotted one)
        # M mentions the sub-group with an empty mapping inside the config string / the object
        if method == "args":
            if group in ARGS_GROUP_AFTER:
                return ["U", "A"]
            if group in ARGS_GROUP_CFG:
                return ["U", "C"]
            if group in AFTER_FIELDS:
                return ["U", "A", "C"]
            return ["U", "A", "C", "J", "M"] + (["E", "X"] if level != "triple" else []) + (["XC"] if level == "single" else [])
        if method in ("object", "string"):
            if group in OBJECT_ALONE:
                return ["U"]
            return ["U", "O", "M"] if group != "g0" or level == "triple" else ["U", "O", "X", "M"]
        return ["U", "E"]
    if base == "yesno":
        if method == "args":
            if group in ARGS_GROUP_AFTER:
                return ["U", "F", "NF"]
            if group in ARGS_GROUP_CFG:
                return ["U", "C"]
            return ["U", "F", "NF", "A", "NA", "C", "E", "X", "XC"]
        if method in ("object", "string"):
            return ["U", "O"] if group != "g0" else ["U", "O", "X"]
        return ["U", "E"] if group != "g0" else ["U", "E", "X"]
    if method == "args":
        if group in ARGS_GROUP_AFTER:
            return ["U", "A"] + (["P"] if lst else []) + (["K"] if dct else [])
        if group in ARGS_GROUP_CFG:
            return ["U", "C"] + (["CP"] if lst else []) + (["CK"] if dct else [])
        if group in AFTER_FIELDS:
            return ["U", "A", "C"] + (["E"] if level == "single" else [])
        o = ["U", "A", "C"]
        if level != "triple":
            o.append("E")
        if v["bad_argv"] is not None and level != "triple":
            o.append("X")
        if level in ("single", "pair+"):
            o.append("XC")
        if vid in NULLABLE:
            o.append("N")
        if lst:
            o += ["P"] + (["CP"] if level != "triple" else [])
        if dct:
            o += ["K"] + (["CK"] if level != "triple" else [])
        if level in ("single", "pair+"):
            o += ["CA", "EA"] + (["AP", "EP"] if lst else []) + (["AK", "EK"] if dct else [])
        return o
    if method in ("object", "string"):
        if group in OBJECT_ALONE:
            return ["U", "E"] if level == "single" else ["U"]  # nothing but the whole-group value (and the environment)
        if group != "g0":
            return ["U", "O"]
        if level == "triple":
            return ["U", "O"]
        o = ["U", "O", "X"]
        if level != "triple":
            if vid in NULLABLE:
                o.append("N")
            if lst:
                o.append("P")
            if level in ("single", "pair+"):
                o.append("E")
        return o
    if method == "env":
        return ["U", "E"] if group != "g0" or level in ("pair", "triple") else ["U", "E", "X"]
    raise AssertionError(method)


def group_options(method, n_fields, level):
    if method == "args":
        if level == "triple":
            return ["g0", "gJ", "gD"]
        unknown = ["gUa", "gUc", "gUj"] if level != "pair" else []  # unknown sub-keys: not on quick-tier pairs
        # the empty subset of the fields: in the config string before the per-field inputs (every level); after
        # them, and as whole-group JSON / environment value: not on quick-tier pairs
        empty = ["gM"] + (["gMz", "gJ0", "gE0"] if level != "pair" else [])
        # something that is not a mapping in the place of the group: not on quick-tier pairs
        nonmap = ["gX3", "gXL", "gXB", "gXz"] if level != "pair" else []
        return ["g0", "gJ"] + (["gJ1"] if n_fields > 1 else []) + ["gE", "gD"] + empty + unknown + nonmap
    if method in ("object", "string"):
        if level == "triple":
            return ["g0"]
        # the dotted-in-config spelling of an object (also enumerated for `args`) and the unknown key: not on
        # quick-tier pairs; non-mapping values: parse_object only (parse_string is parse_object after loading)
        deeper = ["gD", "gU"] + (["gX3", "gXL", "gXB"] if method == "object" else []) if level != "pair" else []
        return ["g0", "gM"] + deeper
    if method == "env":
        return ["g0"] if level == "triple" else ["g0", "gE"] + (["gE0"] if level != "pair" else [])
    return ["g0"]


def applicable_styles(case):
    styles = FLAG_STYLES if any(v in FLAGS for v in case["fields"]) else STYLES
    if case.get("group") in ("gJ", "gJ1", "gJ0", "gE", "gE0", "gUj") or "J" in case["opts"]:
        styles = [s for s in styles if s in WITH_GROUP_OPTION]
    return styles


def render(case):
    """The concrete inputs of a case: argv, environment, object, text."""
    fields = field_specs(case["fields"])
    key = case.get("key", "g")
    group = case.get("group", "g0")
    method = case["method"]
    envkey = "APP_" + key.replace(".", "__").upper()
    argv, env, cfgd, obj = [], {}, {}, {}
    all_json = {n: json_value(vid) for n, vid, _, _, _ in fields}
    for (n, vid, base, _, _), opt in zip(fields, case["opts"]):
        if base == "sub":
            # the addressed leaf: the first one (argv, environment, object), the last one (config string)
            leaves = leaf_paths(sub_specs(vid, 0), 1)
            (p1, _, b1), (p2, _, b2) = leaves[0], leaves[-1]
            if opt == "J":
                argv.append(f"--{key}.{n}=" + json.dumps(json_value(vid)))
            elif opt == "A":
                argv.append(f"--{key}.{n}.{p1}={VALUES[b1]['argv']}")
            elif opt == "X" and method == "args":
                argv.append(f"--{key}.{n}.{p1}={VALUES[b1]['bad_argv']}")
            elif opt == "E":
                env[f"{envkey}__{n.upper()}__{p1.replace('.', '__').upper()}"] = VALUES[b1]["env"]
            elif opt == "C":
                cfgd[n] = _nest(p2, VALUES[b2]["json"])
            elif opt == "XC":
                cfgd[n] = _nest(p2, VALUES[b2]["bad_json"])
            elif opt == "M":
                (cfgd if method == "args" else obj)[n] = {}
            elif opt == "O":
                obj[n] = _nest(p1, VALUES[b1]["json"])
            elif opt == "X":
                obj[n] = _nest(p1, VALUES[b1]["bad_json"])
            continue
        v = VALUES[base]
        o = f"--{key}.{n}"
        no = f"--no_{key}.{n}"
        ev = f"{envkey}__{n.upper()}"
        if method in ("object", "string"):
            if opt == "O":
                obj[n] = v["json"]
            elif opt == "X":
                obj[n] = v["bad_json"]
            elif opt == "N":
                obj[n] = None
            elif opt == "P":
                obj[n + "+"] = [APPEND_ITEM]
            elif opt == "E":
                env[ev] = v["env"]
            continue
        if method == "env":
            if opt == "E":
                env[ev] = v["env"]
            elif opt == "X":
                env[ev] = v["bad_argv"] if v["bad_argv"] is not None else "[1]"
            continue
        for part in TWO_SOURCES.get(opt, opt).split():
            if part == "A":
                argv.append(f"{o}={v['argv']}")
            elif part == "C":
                cfgd[n] = v["json"]
            elif part == "E":
                env[ev] = v["env"]
            elif part == "X":
                argv.append(f"{o}={v['bad_argv']}")
            elif part == "XC":
                cfgd[n] = v["bad_json"]
            elif part == "N":
                argv.append(f"{o}=null")
            elif part == "P":
                argv.append(f"{o}+={APPEND_ITEM}")
            elif part == "K":
                argv.append(f"{o}.{DICT_ITEM[0]}={DICT_ITEM[1]}")
            elif part == "F":
                argv.append(o)
            elif part == "NF":
                argv.append(no)
            elif part == "NA":
                argv.append(f"{no}=true")
            elif part == "S":
                argv.append(f"--src={v['argv']}")
    out = {"argv": None, "env": env, "obj": None, "text": None}
    if method == "args":
        head = []
        if group == "gUc":
            cfgd["zz"] = 1
        if group in ("gX3", "gXL", "gXB"):
            head += ["--cfg", json.dumps(_nest(key, NON_MAPPING[group]))]
        elif cfgd or group == "gM":
            doc = {f"{key}.{n}": x for n, x in cfgd.items()} if group == "gD" else _nest(key, cfgd)
            head += ["--cfg", json.dumps(doc)]
        if group == "gMz":
            argv += ["--cfg", json.dumps(_nest(key, {}))]
        elif group == "gXz":
            argv += ["--cfg", json.dumps(_nest(key, NON_MAPPING[group]))]
        if group == "gJ":
            head.append(f"--{key}=" + json.dumps(all_json))
        elif group == "gJ1":
            head.append(f"--{key}=" + json.dumps({fields[0][0]: all_json[fields[0][0]]}))
        elif group == "gUj":
            head.append(f"--{key}=" + json.dumps({**all_json, "zz": 1}))
        elif group == "gJ0":
            head.append(f"--{key}={{}}")
        elif group == "gE":
            env[envkey] = json.dumps(all_json)
        elif group == "gE0":
            env[envkey] = "{}"
        if group == "gUa":
            argv.append(f"--{key}.zz=1")
        out["argv"] = head + argv
    elif method in ("object", "string"):
        if group == "gU":
            obj["zz"] = 1
        if group in NON_MAPPING:
            doc = _nest(key, NON_MAPPING[group])
        else:
            doc = {f"{key}.{n}": x for n, x in obj.items()} if group == "gD" else (_nest(key, obj) if obj or group == "gM" else {})
        out["obj"] = doc
        out["text"] = json.dumps(doc)
    elif method == "env":
        if group == "gE":
            env[envkey] = json.dumps(all_json)
        elif group == "gE0":
            env[envkey] = "{}"
    return out


def _nest(key, value):
    for part in reversed(key.split(".")):
        value = {part: value}
    return value


# ---------------------------------------------------------------------------------------------------
# observation of one style on one case

DUMPS = [
    ("dump", {}),
    ("dump-keep-none", {"skip_none": False}),
    # the next two on single-field lists only: fields are serialised independently of each other, skip_default
    # compares field by field with the declared default, and the format changes the final writer only
    ("dump-skip-default", {"skip_default": True}),
    ("dump-json", {"format": "json"}),
]
ASPECTS = ["accept", "value", "order"] + [d[0] for d in DUMPS] + ["options", "envvars", "group_option", "required"]


def observe_style(style, case):
    import jsonargparse as J

    from mc.util import outcome, restored_process_state, tcanon

    fields = field_specs(case["fields"])
    key = case.get("key", "g")
    method = case["method"]
    inp = render(case)
    obs = {}
    with restored_process_state():
        try:
            parser = build_parser(
                style, fields, key, J, link=bool(case.get("link")), dflt_mode=case.get("dflt", "sig"),
                spell=case.get("spell"), hist=case.get("hist"),
            )
        except Exception as ex:  # a style that cannot even be declared is a divergence of its own
            return {"accept": f"declaration-raises:{type(ex).__name__}", "detail": str(ex)[:300]}
        if method == "interface":
            text = parser.format_help()
            k = re.escape(key)
            obs["accept"] = "ok"
            options = set(re.findall(r"(?<![\w-])--(?:no_)?" + k + r"\.[^\s,=\]\[]+", text))
            envvars = set(re.findall(r"APP_" + key.replace(".", "__").upper() + r"__\w+", text))
            # the whole-group option --g, and the option --g.f of every sub-group, with their environment
            # variables: declared by every style except the dotted one
            sub_opts = {f"--{key}.{g}" for g in group_paths(fields)}
            sub_envs = {"APP_" + f"{key}.{g}".replace(".", "__").upper() for g in group_paths(fields)}
            obs["options"] = sorted(options - sub_opts)
            obs["envvars"] = sorted(envvars - sub_envs)
            obs["has_group_option"] = bool(re.search(r"(?<![\w-])--" + k + r"(?![\w.])", text))
            present = [obs["has_group_option"]] + [o in options for o in sorted(sub_opts)] + [e in envvars for e in sorted(sub_envs)]
            obs["group_option"] = "as-expected" if all(x == (style != "dotted") for x in present) else "unexpected"
            # the options the help marks as required (one entry per option: "ARG: --g.f0 F0 ... (required, type: ...)")
            required = set()
            for entry in re.split(r"\n(?=\s*ARG: )|\n\s*\n", text):
                m = re.match(r"\s*ARG:\s+(--(?:no_)?" + k + r"\.[^\s,=\]\[]+)", entry)
                if m and "(required" in entry:
                    required.add(m.group(1))
            obs["required"] = sorted(required)
            return obs
        dump_kw = {}
        if method == "args":
            os.environ.update(inp["env"])
            o = outcome(parser.parse_args, list(inp["argv"]))
        elif method == "object":
            os.environ.update(inp["env"])
            o = outcome(parser.parse_object, copy.deepcopy(inp["obj"]))
        elif method == "string":
            os.environ.update(inp["env"])
            o = outcome(parser.parse_string, inp["text"])
        elif method == "env":
            o = outcome(parser.parse_env, dict(inp["env"]))
        elif method == "defaults":
            o = outcome(parser.get_defaults)
            dump_kw = {"skip_validation": True}
        else:
            raise AssertionError(method)
        if o["kind"] == "ArgumentError":
            obs["accept"] = "reject"
            obs["detail"] = o["message"][:300]
            return obs
        if o["kind"] != "ok":
            obs["accept"] = ":".join(str(x) for x in [o["kind"], o.get("type", o.get("code", ""))] if x != "")
            obs["detail"] = str(o.get("message", o.get("stderr", "")))[:300]
            return obs
        cfg = o["value"]
        obs["accept"] = "ok"
        obs["value"] = tcanon(cfg.as_dict())
        obs["order"] = list(cfg.keys())
        # every dump variant on single-field lists and in the side space where the source of the defaults varies
        for name, kw in DUMPS if len(fields) == 1 or "dflt" in case else DUMPS[:2]:
            d = outcome(parser.dump, cfg, **kw, **dump_kw)
            obs[name] = d["value"] if d["kind"] == "ok" else "raises:" + d.get("type", d["kind"])
    return obs


def observe_case(case):
    return {style: observe_style(style, case) for style in applicable_styles(case)}


def raw_judgement(case, obs=None, only=None):
    """None, or (aspect, partition, detail): the first aspect (or the aspect `only`) on which the applicable styles
    do not agree."""
    from mc.core import canon_json

    obs = obs if obs is not None else observe_case(case)
    styles = list(obs)
    for aspect in ASPECTS if only is None else [only]:
        groups = {}
        for s in styles:
            groups.setdefault(canon_json(obs[s].get(aspect)), []).append(s)
        if len(groups) > 1:
            partition = "|".join(sorted(",".join(sorted(g)) for g in groups.values()))
            shown = {",".join(g): _short(obs[g[0]], aspect) for g in groups.values()}
            return aspect, partition, f"{aspect} differs: {shown}; inputs: {_inputs_text(case)}"
    return None


def _short(o, aspect):
    v = o.get(aspect)
    if aspect == "accept" and v != "ok":
        return f"{v} ({o.get('detail', '')[:160]})"
    return v


def _inputs_text(case):
    r = render(case)
    return json.dumps({k: v for k, v in r.items() if v not in (None, {}, [])})


def subcases(case):
    """Simpler relatives of a case, simplest first - used to localise a divergence: every sub-list of the field list
    (with the options of the kept fields), without the link / with the default group key / with the defaults given
    in the signature where the case has them."""
    n = len(case["fields"])
    linked, key, dflt = bool(case.get("link")), case.get("key"), case.get("dflt")
    hist, spell = case.get("hist"), case.get("spell")
    out = []
    for size in range(1, n + 1):
        for idx in itertools.combinations(range(n), size):
            opts = [case["opts"][i] for i in idx]
            for link in [False, True] if linked else [False]:
                if link and idx[-1] != n - 1:
                    continue  # a linked sub-case keeps the link target (the last field)
                if not link and "S" in opts:
                    continue  # the link source exists only with the link
                variants = itertools.product(
                    [None, key] if key else [None],
                    dict.fromkeys(["sig", dflt]) if dflt else [None],
                    [None, hist] if hist else [None],  # without / with the declaration history
                    [False, True] if spell else [False],  # annotations as in the main space / in the case's spelling
                )
                for k, mode, h, sp in variants:
                    same = size == n and link == linked and k == key and mode == dflt and h == hist and sp == bool(spell)
                    if same and not mode:
                        continue  # the case itself
                    sub = {"fields": [case["fields"][i] for i in idx], "method": case["method"], "opts": opts}
                    sub["group"] = "gJ" if case.get("group") == "gJ1" and size == 1 else case.get("group", "g0")
                    if k:
                        sub["key"] = k
                    if link:
                        sub["link"] = True
                    if mode:
                        if mode == "fact" and not any(v in SUBS for v in sub["fields"]):
                            continue  # without a sub-group this is the signature mode
                        sub["dflt"] = mode
                    if h:
                        sub["hist"] = h
                    if sp:
                        sub["spell"] = [spell[i] for i in idx]
                        if not any(sub["spell"]) and any(spell):
                            continue  # none of the kept fields is spelled with a forward reference
                    if len(applicable_styles(sub)) != len(applicable_styles(case)):
                        continue
                    rank = (size, link, k is not None, mode not in (None, "sig"), h is not None, sp)
                    if mode and (any(o != "U" for o in opts) or sub["group"] != "g0"):
                        # where the source of the defaults varies the declaration itself is a suspect: the
                        # same group without any input comes first
                        out.append((rank + (0,), len(out), {**sub, "opts": ["U"] * size, "group": "g0"}))
                    if not same:
                        out.append((rank + (1,), len(out), sub))
    return [sub for _, _, sub in sorted(out, key=lambda t: t[:2])]


def _token(vid, opt):
    """Signature token of one field input.  Both flag variants and both spellings of the negated flag are one
    input class (the `no_` option string of an ActionYesNo)."""
    if vid in FLAGS:
        return "yesno/" + {"NF": "no-option", "NA": "no-option"}.get(opt, opt)
    return f"{vid}/{opt}"


def spell_class(case):
    """Shape of the annotation spelling of a case: `eval` (real type objects throughout), `fwd-mixed` (some generic
    has a forward reference next to an evaluated argument, None included), `fwd-all` (forward references only where
    every argument of the generic is one)."""
    import ast

    shape = "eval"
    for vid, k in zip(case["fields"], case["spell"]):
        if not k:
            continue
        for node in ast.walk(ast.parse(spellings(VARIANTS[vid][1])[k], mode="eval")):
            if isinstance(node, ast.Subscript):
                args = list(node.slice.elts) if isinstance(node.slice, ast.Tuple) else [node.slice]
                quoted = [isinstance(a, ast.Constant) for a in args]
                if any(quoted):
                    optional = ast.unparse(node.value) == "Optional"
                    shape = "fwd-mixed" if not all(quoted) or optional or shape == "fwd-mixed" else "fwd-all"
    return shape


def signature(aspect, partition, case):
    where = "+".join(sorted(_token(v, o) for v, o in zip(case["fields"], case["opts"])))  # the witness is minimal
    group = case.get("group", "g0")
    tags = ("" if case.get("key", "g") == "g" else ":key=" + case["key"]) + (":link" if case.get("link") else "")
    tags += "" if case.get("dflt", "sig") == "sig" else ":dflt=" + case["dflt"]
    tags += (":hist=" + case["hist"] if case.get("hist") else "") + (":ann=" + spell_class(case) if case.get("spell") else "")
    return f"{aspect}:{partition}:{case['method']}:{group}:{where}{tags}"


def judge(case, obs=None):
    """Deviations of one case.  The signature is taken from the smallest sub-list of fields that still shows the
    same divergence (same aspect, same partition of the styles), so one root cause gives one signature."""
    first = raw_judgement(case, obs)
    if first is None:
        return []
    aspect, partition, detail = first
    witness, only = case, None
    if aspect == "accept" and case["method"] != "interface":
        # root cause at the declaration: the styles do not agree on which options are required, and the styles of
        # this case split the same way - the divergence is named after the declaration, whatever input met it
        icase = {**case, "method": "interface", "opts": ["U"] * len(case["fields"]), "group": "g0"}
        j = raw_judgement(icase, only="required")
        if j is not None:
            cells = [sorted(set(cell.split(",")) & set(obs or applicable_styles(case))) for cell in j[1].split("|")]
            if "|".join(sorted(",".join(c) for c in cells if c)) == partition:
                case, aspect, partition = icase, "required", j[1]
                detail += f" [declaration: {j[2]}]"
                witness, only = case, "required"
    for sub in subcases(case):
        j = raw_judgement(sub, only=only)
        if j is not None and j[0] == aspect and j[1] == partition:
            witness = sub
            break
    return [{"signature": signature(aspect, partition, witness), "detail": detail, "fold": fold_signature(aspect, partition)}]


def fold_signature(aspect, partition):
    """Bucket for the signatures beyond REPORT_CAP of one (aspect, partition) on a badly broken tree."""
    return f"{aspect}:{partition}:further-input-classes"


REPORT_CAP = 6


def run_case(case):
    """Replay: the precise signature of the case and, because `explore` may have folded it, its fold signature."""
    out = []
    for d in judge(case):
        out.append({"signature": d["signature"], "detail": d["detail"]})
        out.append({"signature": d["fold"], "detail": d["detail"] + f" [precise signature: {d['signature']}]"})
    return out


# ---------------------------------------------------------------------------------------------------
# the space


def field_lists(max_n):
    """All declarable field lists: parameters without default first (Python demands it), repetition allowed."""
    out = []
    for n in range(1, max_n + 1):
        for combo in itertools.product(NO_DEFAULT + WITH_DEFAULT, repeat=n):
            defaults = [VARIANTS[v][2] is not None for v in combo]
            if defaults == sorted(defaults):
                out.append(list(combo))
    return out


def flag_lists():
    """Field lists of the flag side space: at least one ActionYesNo field (declarable in dotted and inner only)."""
    out = [[f] for f in FLAGS]
    for f in FLAGS:
        out += [["int!", f], ["list", f], [f, "bool"], [f, "list"]]
    out += [["yesno", "yesno?"], ["yesno?", "yesno"]]
    return out


DFLT_ALPHABET = [v for v in WITH_DEFAULT if v in ALT_DEFAULT]  # intN has no second default to override
# fields whose *intended* default is None or another falsy value while the signature carries a real value
DFLT_FALSY = ["ostrN", "ointN", "olistN"] + list(FALSY)


def type_lists(quick):
    """Side space "type wrappers": every single field of TYPE_SIDE; thorough: pairs with a plain partner (int!, int,
    list) on either side, as far as declarable (parameters without default first)."""
    out = [[v] for v in TYPE_SIDE]
    for v in TYPE_SIDE if not quick else []:
        for partner in ["int!", "int", "list"]:
            for fl in ([v, partner], [partner, v]):
                defaults = [VARIANTS[x][2] is not None for x in fl]
                if defaults == sorted(defaults):
                    out.append(fl)
    return out


def dflt_lists(quick):
    """Side space "nested groups / source of the defaults": [(field list, defaults mode, level)].

    Every list of with-default fields (and sub-groups) up to the stated length x every way of giving the defaults:
    lists with a sub-group in all four modes (`sig` is new for them), lists without one in the modes `decl` and
    `post` (their `sig` mode is the main space, `fact` needs a sub-group)."""
    out = []
    alphabet = DFLT_ALPHABET + ["sub"]
    small = ["int", "ostr", "list"]
    for n in (1, 2):
        for fl in itertools.product(alphabet, repeat=n):
            nested = "sub" in fl
            if quick and n == 2 and not set(fl) <= set(small + ["sub"]):
                continue  # quick tier: every single field; pairs over the small alphabet and the sub-group
            for mode in DFLT_MODES if nested else ["decl", "post"]:
                if quick and n == 2 and mode == "fact":
                    continue  # quick tier: the default instance of the enclosing signature on single fields only
                out.append((list(fl), mode, "pair" if n == 1 else "triple"))
    # a sub-group that contains a sub-group followed by a field (three levels): alone; in pairs (thorough)
    for fl in [["sub2"]] + ([[v, "sub2"] for v in small] + [["sub2", v] for v in small] if not quick else []):
        for mode in DFLT_MODES:
            out.append((fl, mode, "pair" if len(fl) == 1 else "triple"))
    # intended default None / falsy (0, '', [], {}) where the signature carries a real value: every such field alone
    # (the signature mode of the Optional ones is in the side space "type wrappers"), in pairs with an int on either
    # side (quick: the first of them, Optional[str] = None; thorough: all, partners int ostr list), and as the leaf
    # of a sub-group
    for v in DFLT_FALSY:
        for mode in ["decl", "post"] + (["sig"] if v in FALSY else []):
            out.append(([v], mode, "pair"))
        for partner in ["int"] if quick else small:
            for fl in ([partner, v], [v, partner]):
                if not quick or v == DFLT_FALSY[0]:
                    out += [(fl, mode, "triple") for mode in ("decl", "post")]
    out += [(["subN"], mode, "pair") for mode in DFLT_MODES]
    if not quick:
        # triples with one sub-group over the small alphabet
        for fl in itertools.product(small + ["sub"], repeat=3):
            if fl.count("sub") == 1:
                for mode in DFLT_MODES:
                    out.append((list(fl), mode, "triple"))
    return out


def spell_lists(quick):
    """Side space "spelling of the annotations": [(field list, spelling number per field)].  Every variant whose
    annotation is a generic, alone, in every spelling that contains a forward reference (quick); thorough: also the
    fully evaluated spelling, and every pair with a plain partner (int!, int, list - spelled as evaluated types)."""
    out = []
    for v in NO_DEFAULT + WITH_DEFAULT + TYPE_SIDE:
        n = len(spellings(VARIANTS[v][1]))
        for k in range(1 if quick else 0, n) if n > 1 else []:
            out.append(([v], [k]))
            for partner in ["int!", "int", "list"] if not quick else []:
                for fl, sp in (([v, partner], [k, 0]), ([partner, v], [0, k])):
                    defaults = [VARIANTS[x][2] is not None for x in fl]
                    if defaults == sorted(defaults):
                        out.append((fl, sp))
    return out


def hist_lists(quick):
    """Side space "declaration history": every single-field list and the sub-group (quick); all lists <= 2 (thorough)."""
    return field_lists(1 if quick else 2) + [["sub"]] + ([] if quick else [["int", "sub"], ["sub", "int"]])


def plan(quick):
    """Blocks; each block is the full product of per-field options and group options of one (field list, method)."""
    blocks = []
    for fl in field_lists(2 if quick else 3):
        level = {1: "single", 2: "pair" if quick else "pair+", 3: "triple"}[len(fl)]
        for m in METHODS:
            if m == "string" and level in ("pair", "triple"):
                continue  # parse_string is parse_object after loading: single fields, and pairs in the thorough tier
            blocks.append({"fields": fl, "method": m, "level": level, "key": "g"})
    for fl in flag_lists():
        for m in METHODS:
            blocks.append({"fields": fl, "method": m, "level": "single" if len(fl) == 1 else "pair", "key": "g"})
    # side space: a second group key, two levels deep (prefixing of dests, option strings, env names)
    for fl in field_lists(1 if quick else 2):
        for m in METHODS:
            blocks.append({"fields": fl, "method": m, "level": "pair", "key": "t.g"})
    # side space: type wrappers (Optional over every base type without default / with default None, Union)
    for fl in type_lists(quick):
        level = "single" if len(fl) == 1 else "pair" if quick else "pair+"
        for m in METHODS:
            if not (m == "string" and level == "pair"):
                blocks.append({"fields": fl, "method": m, "level": level, "key": "g"})
    # side space: spelling of the annotations (forward references inside generics); the main space has every
    # annotation as one string (`from __future__ import annotations`), the nested groups have evaluated ones
    for fl, spell in spell_lists(quick):
        for m in METHODS:
            if m not in ("string", "env"):  # the spelling concerns the declaration: one parse method per input channel
                blocks.append({"fields": fl, "method": m, "level": "triple", "key": "g", "spell": spell})
    # side space: declaration history (a refused declaration, then the same objects declared under the free key)
    for fl in hist_lists(quick):
        for m in METHODS:
            if m != "string":
                blocks.append({"fields": fl, "method": m, "level": "triple", "key": "g", "hist": "retry"})
    # side space: a top-level option linked to the last field of the group
    for fl in field_lists(2):
        for m in ("interface", "args"):
            blocks.append({"fields": fl, "method": m, "level": "pair", "key": "g", "link": True})
    # side space: nested groups / source of the defaults
    for fl, mode, level in dflt_lists(quick):
        for m in METHODS:
            if m != "string":
                blocks.append({"fields": fl, "method": m, "level": level, "key": "g", "dflt": mode})
    return blocks


def block_cases(block):
    fl, method, level, key = block["fields"], block["method"], block["level"], block["key"]
    link = bool(block.get("link"))
    groups = ["g0"] if link else group_options(method, len(fl), level)
    for group in groups:
        roles = [("target" if i == len(fl) - 1 else "other") if link else None for i in range(len(fl))]
        per_field = [field_options(v, method, level, group, role) for v, role in zip(fl, roles)]
        for opts in itertools.product(*per_field):
            case = {"fields": fl, "method": method, "opts": list(opts), "group": group}
            if key != "g":
                case["key"] = key
            if link:
                case["link"] = True
            if block.get("dflt"):
                case["dflt"] = block["dflt"]
            if block.get("spell"):
                case["spell"] = block["spell"]
            if block.get("hist"):
                case["hist"] = block["hist"]
            if group == "gD" and all(o == "U" for o in opts):
                continue  # nothing to spell: identical to the g0 case
            if len(applicable_styles(case)) >= 2:
                yield case


def work(block):
    """Worker: run every case of one block; return counters, deviations and observation hashes."""
    import hashlib

    from mc.core import canon_json

    res = {"n": 0, "style_runs": 0, "devs": [], "obs": set(), "counters": {}, "sample": None, "nontrivial": 0}
    cnt = res["counters"]

    def count(k, n=1):
        cnt[k] = cnt.get(k, 0) + n

    for case in block_cases(block):
        obs = observe_case(case)
        res["n"] += 1
        res["style_runs"] += len(obs)
        count(f"method:{case['method']}")
        count(f"group:{case['group']}")
        count(f"styles-compared:{len(obs)}")
        count(f"fields:{len(case['fields'])}")
        if case.get("link"):
            count("side:link")
        if case.get("key"):
            count("side:key=" + case["key"])
        if case.get("dflt"):
            count("side:dflt=" + case["dflt"])
            if any(v in SUBS for v in case["fields"]):
                count("side:nested-group")
        for o in case["opts"]:
            count(f"opt:{o}")
        first = next(iter(obs.values()))
        acc = first["accept"]
        if case.get("hist"):
            count("side:hist=" + case["hist"])
            if not any(str(o.get("accept", "")).startswith("declaration-raises") for o in obs.values()):
                count("hist:first-declaration-refused-then-declared")
        if case.get("spell"):
            count("side:ann=" + spell_class(case))
        if case["group"] in NON_MAPPING:
            count("non-mapping:" + ("accepted" if acc == "ok" else "rejected" if acc == "reject" else "other"))
        count("outcome:" + ("accept" if acc == "ok" else "reject" if acc == "reject" else "other"))
        if any(o != "U" for o in case["opts"]) or case["group"] != "g0":
            res["nontrivial"] += 1
        if acc == "ok" and case["method"] != "interface":
            text = canon_json(first.get("value"))
            for o in case["opts"]:
                if "P" in o and f'"int","{APPEND_ITEM}"' in text:
                    count("append-effective")
                if "K" in o and f'"{DICT_ITEM[0]}"' in text:
                    count("dict-item-effective")
                if o == "N":
                    count("null-accepted")
                if o in ("F", "NF", "NA"):
                    count("flag-accepted")
                if o == "S":
                    count("link-source-accepted")
                if o == "J":
                    count("sub-group-json-accepted")
            if case["group"] in EMPTY_SUBSET and "key" not in case:
                # premise of the empty-subset inputs: naming the group without any field is accepted and leaves
                # the values of the group alone (the group is not replaced by an empty value)
                got = [x for k, x in (first.get("value") or [None, []])[1] if k == "g"]
                count("empty-subset:accepted")
                if got and isinstance(got[0], list) and len(got[0]) == 2 and got[0][1]:
                    count("empty-subset:values-kept")
            if case["method"] == "defaults" and case.get("dflt", "sig") != "sig":
                # premise of the side space: the defaults given outside the signature are the ones in force
                from mc.util import tcanon

                want_value = tcanon(intended_defaults(field_specs(case["fields"])))
                got = [x for k, x in (first.get("value") or [None, []])[1] if k == case.get("key", "g")]
                count("defaults-source:cases")
                if got == [want_value]:
                    count("defaults-source:effective")
        if case["method"] == "interface":
            listed = field_specs(case["fields"])[: -1 if case.get("link") else None]  # a link target is not listed
            want = {f"--{case.get('key', 'g')}.{path}" for path, *_ in leaf_paths(listed)}
            for s, o in obs.items():
                count("interface-style-runs")
                if o.get("accept") == "ok" and want <= set(o.get("options", [])):
                    count("interface-lists-every-field")
                if o.get("accept") == "ok" and any(x.endswith("+") for x in o.get("options", [])):
                    count("interface-lists-append-option")
                if o.get("accept") == "ok" and o.get("required"):
                    count("interface-marks-required-option")
                if o.get("accept") == "ok":
                    count(f"interface-group-option:{'dotted' if s == 'dotted' else 'others'}:{o['has_group_option']}")
        res["obs"].add(hashlib.sha1(canon_json(first).encode()).hexdigest()[:12])
        for d in judge(case, obs):
            res["devs"].append((d["signature"], case, d["detail"], d["fold"]))
        if res["sample"] is None and any(o != "U" for o in case["opts"]) and acc == "ok":
            res["sample"] = {"case": case, "inputs": {k: v for k, v in render(case).items() if v}, "styles": list(obs)}
    return res


def report(ctx, devs):
    """Hand the deviations to the driver.  Precise signatures are kept for the REPORT_CAP smallest witnesses of each
    (aspect, partition) and for every signature listed as an open known finding; the remaining ones of that
    (aspect, partition) are folded into one bucket signature, so a badly broken tree gives a readable report."""
    from mc.core import canon_json, load_known

    known = {e.get("signature") for e in load_known(META["id"]) if e.get("status") == "open"}
    smallest = {}
    for sig, case, detail, fold in devs:
        size = (len(canon_json(case)), canon_json(case))
        if sig not in smallest or size < smallest[sig][0]:
            smallest[sig] = (size, fold)
    per_fold = {}
    for sig, (size, fold) in smallest.items():
        if sig not in known:
            per_fold.setdefault(fold, []).append((size, sig))
    keep = set(known)
    for fold, sigs in per_fold.items():
        keep.update(sig for _, sig in sorted(sigs)[:REPORT_CAP])
    for sig, case, detail, fold in devs:
        if sig in keep:
            ctx.deviation(sig, case, detail)
        else:
            ctx.deviation(fold, case, detail + f" [precise signature: {sig}]")
    ctx.count("precise-signatures", len(smallest))


def explore(ctx):
    blocks = plan(ctx.quick)
    total = {"n": 0, "style_runs": 0, "nontrivial": 0}
    obs = set()
    devs = []
    n_lists = len({(tuple(b["fields"]), b["key"], bool(b.get("link")), b.get("dflt"), tuple(b.get("spell") or ()), b.get("hist")) for b in blocks})
    for res in ctx.pmap(work, blocks, chunk=4):
        for k in total:
            total[k] += res[k]
        obs |= res["obs"]
        for k, v in res["counters"].items():
            ctx.count(k, v)
        devs += res["devs"]
        if res["sample"] is not None and (len(ctx.samples) < 3 or res["n"] % 5 == 0):
            ctx.sample(res["sample"])
    report(ctx, devs)
    c = ctx.counters
    ctx.cover(
        evaluations=total["n"],
        distinct_nontrivial=total["nontrivial"],
        rule="a case = (field list, group key, link yes/no, parse method, one input option per field, one "
        "group-level option), executed on every declaration style that declares all addressed options (4; 3 for "
        "whole-group inputs; 2 for ActionYesNo flags) and compared; cases are distinct by construction (product "
        "enumeration); non-trivial = at least one field or the group receives an input (not the all-unset case)",
        exhaustive=True,
        states=n_lists,
        transitions=total["style_runs"],
        traces_validated_against_impl=total["style_runs"],
        distinct_observations=len(obs),
        caps_hit=[],
        bounds={
            "field_variants": list(VARIANTS),
            "max_fields": 2 if ctx.quick else 3,
            "declared_groups (field list x key x link x source of the defaults)": n_lists,
            "sub_group_shapes": SUB_SHAPES,
            "type_wrapper_variants": {v: VARIANTS[v][1] + ("" if VARIANTS[v][2] is None else " = " + VARIANTS[v][2]) for v in TYPE_SIDE},
            "none_or_falsy_intended_defaults": {v: f"{VARIANTS[v][2]} (signature: {ALT_DEFAULT[v]})" for v in DFLT_FALSY},
            "empty_subset_group_options": EMPTY_SUBSET + ["M (sub-group)"],
            "defaults_modes": DFLT_MODES,
            "non_mapping_group_values": NON_MAPPING,
            "annotation_spellings": {v: spellings(VARIANTS[v][1])[1:] for v, _ in {(fl[0], 0) for fl, _ in spell_lists(True)}},
            "declaration_histories": ["none", "retry (refused under a key the host owns, then declared under the free key)"],
            "styles": STYLES,
            "methods": METHODS,
            "blocks": len(blocks),
            "values_per_type": "argv / config / environment value, one invalid per channel, append item, dict item",
        },
    )
    ctx.assume("Optional[T] without default is declared as default=None (not required) in the dotted / inner styles")
    ctx.assume("T with default None is declared as Optional[T] default None in the dotted / inner styles")
    ctx.assume("fields are declared in the same order in all styles, parameters without default first")
    ctx.require(
        c.get("outcome:accept", 0) > 500 and c.get("outcome:reject", 0) > 500, "> 500 accepted and > 500 rejected cases"
    )
    ctx.require(c.get("styles-compared:4", 0) > 1000, "> 1000 cases compared across all four styles")
    ctx.require(c.get("styles-compared:3", 0) > 100, "> 100 whole-group cases compared across three styles")
    ctx.require(c.get("styles-compared:2", 0) > 20, "> 20 flag cases compared across two styles")
    ctx.require(len(obs) > 300, "> 300 distinct observations")
    ctx.require(c.get("append-effective", 0) > 50, "'+' appends really extend the list in > 50 accepted cases")
    ctx.require(c.get("dict-item-effective", 0) > 20, "dict item assignments take effect in > 20 accepted cases")
    ctx.require(c.get("null-accepted", 0) > 20, "null is accepted for nullable fields in > 20 cases")
    ctx.require(c.get("flag-accepted", 0) > 5, "ActionYesNo flags are accepted in > 5 cases")
    ctx.require(c.get("link-source-accepted", 0) > 20, "the link source is accepted in > 20 cases")
    ctx.require(c.get("side:nested-group", 0) > 500, "> 500 cases on groups that contain a sub-group")
    ctx.require(c.get("sub-group-json-accepted", 0) > 20, "whole-sub-group JSON on --g.f is accepted in > 20 cases")
    hist_deviates = any(":hist=" in sig for sig in ctx.deviations)
    ctx.require(
        c.get("side:hist=retry", 0) > 100
        and (hist_deviates or c.get("hist:first-declaration-refused-then-declared", 0) == c.get("side:hist=retry", -1)),
        "> 100 cases whose group was first declared over an option of the host (refused in every style) and then "
        "under the free key",
    )
    ctx.require(
        c.get("side:ann=fwd-mixed", 0) > 200 and c.get("side:ann=fwd-all", 0) > 50,
        "> 200 cases with a forward reference next to an evaluated argument of a generic, > 50 with all arguments quoted",
    )
    ctx.require(
        c.get("non-mapping:accepted", 0) + c.get("non-mapping:rejected", 0) > 300,
        "> 300 cases with a non-mapping value in the place of the group",
    )
    for mode in DFLT_MODES:
        ctx.require(c.get("side:dflt=" + mode, 0) > 30, f"> 30 cases with the defaults given by mode '{mode}'")
    empty_deviates = any(sig.split(":")[3] in EMPTY_SUBSET for sig in ctx.deviations if sig.count(":") > 3)
    ctx.require(
        c.get("empty-subset:accepted", 0) > 200
        and (empty_deviates or c.get("empty-subset:values-kept", 0) == c.get("empty-subset:accepted", -1)),
        "> 200 accepted cases that name the group with the empty subset of its fields, all of which keep the values of "
        "the group (first style; a style that does not is reported as a deviation)",
    )
    defaults_deviate = any(":defaults:" in sig and ":dflt=" in sig for sig in ctx.deviations)
    ctx.require(
        c.get("defaults-source:cases", 0) > 40
        and (defaults_deviate or c.get("defaults-source:effective", 0) == c.get("defaults-source:cases", -1)),
        "defaults given at / after the declaration or by the enclosing signature are the ones in force (first style; "
        "a style where they are not is reported as a deviation)",
    )
    # interface guards: when a style fails to expose an option, that is reported as a deviation (aspects options /
    # envvars / group_option / accept) and must not be pre-empted by a vacuity error
    interface_deviates = any(sig.split(":")[2] == "interface" for sig in ctx.deviations)
    ctx.require(
        interface_deviates or c.get("interface-lists-every-field", 0) == c.get("interface-style-runs", -1),
        "every style's help lists an option for every declared field (the declarations really expose the options)",
    )
    ctx.require(c.get("interface-lists-append-option", 0) > 20, "list fields expose a '+' option")
    ctx.require(c.get("interface-marks-required-option", 0) > 100, "the help marks required options in > 100 style runs")
    ctx.require(
        c.get("interface-group-option:dotted:True", 0) == 0 and c.get("interface-group-option:others:True", 0) > 100,
        "the dotted style never declares --g; the other styles do (premise of the 3-style rule; a style that lacks "
        "it is reported through the group_option aspect)",
    )
    for m in METHODS:
        ctx.require(c.get(f"method:{m}", 0) > 0, f"method {m} exercised")
    for o in ("A", "C", "E", "X", "XC", "N", "P", "CP", "K", "CK", "CA", "EA", "AP", "EK", "O", "F", "NF", "NA", "S", "J", "M"):
        ctx.require(c.get(f"opt:{o}", 0) > 0, f"input option {o} exercised")
    for g in ("gJ", "gJ1", "gE", "gD", "gUa", "gUc", "gUj", "gU", "gM", "gMz", "gJ0", "gE0", "gX3", "gXL", "gXB", "gXz"):
        ctx.require(c.get(f"group:{g}", 0) > 0, f"group option {g} exercised")
