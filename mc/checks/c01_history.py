"""C01, history layer: the round trip on a USED parser whose defaults changed between two serialisations.

The other layers build a fresh parser for every case.  Here ONE parser object lives through a history

    parse v0 -> every skip_default / plain channel -> change of the parser's defaults -> (again, per change)
    re-dump of the configuration accepted before the change, and for EVERY value v1 of the pool: parse v1 -> channels

and every serialisation must re-parse, with that same parser in its state at that moment, to the configuration that
was serialised.  The changes of the defaults are the operations of a small state model (argument default, content of
the default config file, configured list of default config files):

    set_defaults(x=d) | action.default = d | file_write(d) (edit or create the default config file) | file_delete |
    setter_other_file(d) (parser.default_config_files = [a second file holding d])

enumerated exhaustively: all ordered pairs (old default, new default) of a three-value pool per type x the value the
first configuration holds x the six ways a default can change x every value of the pool after the change (thorough:
two changes in a row, every ordered pair of operations).  What the parser must believe its defaults are after the
change is computed from the model and compared with get_defaults() (vacuity guard: the change took effect).

Case: {"layer": "history", "shape", "type", "init": {"arg": d, "file": d | ABSENT | NODCF}, "ops": [[op, d], ...],
"v0": v, "mode"}.
"""
from __future__ import annotations

import copy
import itertools
import json
import os

from mc.checks.c01_common import JSON_FORMATS, YAML_FORMATS, judge_reparse, merge_formats, short, strip_cfg

ABSENT, NODCF = "__absent__", "__nodcf__"
FILE_A, FILE_B = "defaults_a.json", "defaults_b.json"

# three distinct accepted values per type: [0] and [1] and [2] take the roles old default / new default / other
POOLS = [
    ("int", [0, 1, 2]),
    (["Optional", "str"], [None, "a", "1e3"]),
    (["List", "int"], [[], [1], [1, 2]]),
    ("bool", [True, False, None]),  # thorough (None is rejected: the pool then has two usable values)
    ("str", ["", "null", "x"]),
    ("float", [0.5, 1.0, 1e22]),
    ("E", ["A", "B", "A"]),
]
QUICK_FLAT_TYPES = 3  # quick: the first three pools on the flat parser, the first one on the nested-group parser
OPS = ["set_defaults", "action_default", "file_write", "file_delete", "setter_other_file"]


def _file_obj(shape, d):
    return {"x": d} if shape == "flat" else {"g": {"x": d}}


def _write(path, shape, d):
    with open(path, "w") as f:
        f.write(json.dumps(_file_obj(shape, d)))


def build(shape, tspec, arg_default, dcf, mode):
    from jsonargparse import ArgumentParser

    from mc.checks.c01_typed import build_type

    kw = {"default_config_files": [FILE_A]} if dcf else {}
    p = ArgumentParser(exit_on_error=False, parser_mode=mode, **kw)
    p.add_argument("--cfg", action="config")
    dest = "x" if shape == "flat" else "g.x"
    p.add_argument("--" + dest, type=build_type(tspec), default=copy.deepcopy(arg_default))
    p.add_argument("--keep", type=str, default="keep")
    if shape == "group":
        p.add_argument("--g.n", type=int, default=1)
    return p, dest


def history_case(case):
    from mc.util import restored_process_state, scratch_dir

    with restored_process_state(), scratch_dir(chdir=True):
        return _history_case(case)


def _history_case(case):
    from mc.checks.c01_typed import _left_out, _new, argv_text, build_type
    from mc.util import outcome, teq

    shape, tspec, mode = case["shape"], case["type"], case.get("mode", "yaml")
    quick = case.get("quick", True)
    res = {"status": None, "rt": 0, "ops": 0, "devs": [], "effective": 0, "changes": 0, "stale_sensitive": 0, "dropped": 0, "channels": {}}
    formats = YAML_FORMATS if mode == "yaml" else JSON_FORMATS
    sd_formats = tuple(f for f in formats if f != "json_indented") if quick else formats
    f0 = formats[0]
    ext = "yaml" if mode == "yaml" else "json"
    drop = ("cfg",)

    # well-typed Python objects for the raw defaults (what a default-less helper parser makes of them)
    def typed(raw):
        hp = _new(mode, config=False)
        hp.add_argument("--x", type=build_type(tspec))
        o = outcome(hp.parse_object, {"x": copy.deepcopy(raw)})
        res["ops"] += 1
        return (True, o["value"].x) if o["kind"] == "ok" else (False, None)

    init = case["init"]
    ok, arg_default = typed(init["arg"])
    if not ok:
        res["status"] = "default-not-accepted"
        return res
    state = {"arg": init["arg"], "file": init["file"], "list": "A"}
    dcf = init["file"] != NODCF
    if dcf and init["file"] != ABSENT:
        _write(FILE_A, shape, init["file"])
    try:
        p, dest = build(shape, tspec, arg_default, dcf, mode)
    except Exception as ex:
        res["status"] = "parser-not-buildable:" + type(ex).__name__
        return res
    action = next(a for a in p._actions if a.dest == dest)

    def model_default():
        if dcf and state["file"] not in (ABSENT, NODCF):
            return state["file"]
        return state["arg"]

    def chan(name):
        res["channels"][name] = res["channels"].get(name, 0) + 1

    def get(cfg):
        node = cfg
        for k in dest.split("."):
            node = vars(node)[k]
        return node

    def channels(phase, c, v, with_print):
        """Every serialisation of configuration c by the used parser p, re-parsed by p."""
        variants = [("dump-skip_default", sd_formats, {"skip_none": False, "skip_default": True}, False),
                    ("dump", (f0,), {"skip_none": False}, False),
                    ("dump-skip_none+skip_default", (f0,), {"skip_default": True}, True)]
        seen_cls = set()
        for channel, fmts, kw, modulo_none in variants:
            results, details = {}, {}
            for fmt in fmts:
                od = outcome(p.dump, c, format=fmt, **kw)
                res["ops"] += 1
                if od["kind"] != "ok":
                    results[fmt] = "dump-raises:" + od.get("type", od["kind"]).rsplit(".", 1)[-1]
                    details[fmt] = f"config {short(c)}: {od.get('message', '')}"
                    continue
                text = od["value"]
                if "skip_default" in kw and not modulo_none and fmt == f0 and phase != "before-change":
                    res["dropped"] += dest.split(".")[-1] + ":" not in text and f'"{dest.split(".")[-1]}"' not in text
                cls, detail, c1 = judge_reparse(p.parse_string, text, c, drop, modulo_none)
                res["rt"] += 1
                res["ops"] += 1
                chan(channel)
                if cls and "skip_default" in kw and not cls.startswith("reparse-") and _left_out(p, c, c1, drop):
                    cls = "non-default-entry-left-out"
                if cls:
                    results[fmt] = cls
                    details[fmt] = f"config {short(c)} text {text!r}: {detail}"
            for label, cls, f in merge_formats(results, fmts):
                if cls in seen_cls:
                    continue  # the nulls-kept skip_default dump of the same configuration already deviated in this way
                seen_cls.add(cls)
                res["devs"].append((f"used-parser:{phase}:{channel}:{label}:{cls}", f"[{f}] history {hist()} - {details[f]}"))
        if with_print:
            argv = ["--" + dest + "=" + argv_text(v)]
            oa = outcome(p.parse_args, list(argv))
            res["ops"] += 1
            if oa["kind"] != "ok":
                return
            c_argv = strip_cfg(oa["value"], drop)
            op = outcome(p.parse_args, ["--print_config=skip_default"] + argv)
            res["ops"] += 1
            if op["kind"] != "exit" or op.get("code") not in (0, None):
                cls, detail = "print-fails:" + (op.get("type", "") or op["kind"]).rsplit(".", 1)[-1], f"args {argv!r}: {op.get('message') or op.get('stderr', '')[-300:]}"
            else:
                fname = f"printed_{res['rt']}.{ext}"
                with open(fname, "w") as fh:
                    fh.write(op["stdout"])
                cls, detail, c1 = judge_reparse(p.parse_args, ["--cfg", fname], c_argv, drop, False)
                res["rt"] += 1
                res["ops"] += 1
                chan("print_config=skip_default")
                if cls and not cls.startswith("reparse-") and _left_out(p, c_argv, c1, drop):
                    cls = "non-default-entry-left-out"
                detail = f"args {argv!r} printed {op['stdout']!r}: {detail}"
            if cls and not any(s.startswith(f"used-parser:{phase}:dump-skip_default:") for s, _ in res["devs"]):
                res["devs"].append((f"used-parser:{phase}:print_config=skip_default:{f0}:{cls}", f"history {hist()} - {detail}"))

    done = []

    def hist():
        return f"init {init!r}, first value {case['v0']!r}, changes {done!r}"

    def parse(v):
        o = outcome(p.parse_object, _file_obj(shape, copy.deepcopy(v)))
        res["ops"] += 1
        return strip_cfg(o["value"], drop) if o["kind"] == "ok" else None

    c_first = parse(case["v0"])
    if c_first is None:
        res["status"] = "rejected"
        return res
    res["status"] = "accepted"
    channels("before-change", c_first, case["v0"], True)

    pool = case["pool"]
    for op_name, d in case["ops"]:
        old_model = model_default()
        if op_name in ("set_defaults", "action_default"):
            ok, dobj = typed(d)
            if not ok:
                res["status"] = "default-not-accepted"
                return res
            if op_name == "set_defaults":
                p.set_defaults({dest: dobj})
            else:
                action.default = dobj
            state["arg"] = d
        elif op_name == "file_write":
            _write(FILE_A if state["list"] == "A" else FILE_B, shape, d)
            state["file"] = d
        elif op_name == "file_delete":
            os.remove(FILE_A if state["list"] == "A" else FILE_B)
            state["file"] = ABSENT
        elif op_name == "setter_other_file":
            _write(FILE_B, shape, d)
            p.default_config_files = [FILE_B]
            state["file"], state["list"] = d, "B"
        else:
            raise ValueError(op_name)
        res["ops"] += 1
        res["changes"] += 1
        done.append([op_name, d])
        # vacuity: the parser's defaults are what the model says
        ok, expect = typed(model_default())
        od = outcome(p.get_defaults)
        res["ops"] += 1
        if ok and od["kind"] == "ok" and teq(get(strip_cfg(od["value"], drop)), expect):
            res["effective"] += 1
        # the configuration accepted before the change is still one the parser accepts: serialise it again
        channels("after-default-change", c_first, case["v0"], False)
        for v1 in pool:
            c1 = parse(v1)
            if c1 is None:
                continue
            if json.dumps(v1) == json.dumps(old_model) != json.dumps(model_default()):
                res["stale_sensitive"] += 1  # equals the old default, not the new one
            channels("after-default-change", c1, v1, True)
    return res


def history_worker(case):
    import time

    t0 = time.process_time()
    r = history_case(case)
    r["case"] = case
    r["cpu"] = time.process_time() - t0
    return r


def history_cases(tier):
    quick = tier == "quick"
    cases = []

    def add(shape, t, pool, init, ops, v0, mode="yaml"):
        cases.append({"layer": "history", "shape": shape, "type": t, "pool": pool, "init": init, "ops": ops, "v0": v0, "mode": mode, "quick": quick})

    def single_changes(d0, d1, d2):
        """(initial state, operation) for every way the effective default can go from d0 to d1."""
        return [
            ({"arg": d0, "file": NODCF}, ["set_defaults", d1]),
            ({"arg": d0, "file": NODCF}, ["action_default", d1]),
            ({"arg": d2, "file": d0}, ["file_write", d1]),  # the default config file is edited
            ({"arg": d0, "file": ABSENT}, ["file_write", d1]),  # ... is created
            ({"arg": d1, "file": d0}, ["file_delete", None]),  # ... is removed: back to the argument's own default
            ({"arg": d2, "file": d0}, ["setter_other_file", d1]),
        ]

    plan = []
    for i, (t, pool) in enumerate(POOLS):
        if quick and i >= QUICK_FLAT_TYPES:
            break
        plan.append(("flat", t, pool))
        if i == 0 or not quick:
            plan.append(("group", t, pool))
    for shape, t, pool in plan:
        for a, b in itertools.permutations(range(3), 2):
            d0, d1, d2 = pool[a], pool[b], pool[3 - a - b]
            if json.dumps(d0) == json.dumps(d1):
                continue
            v0s = [d0] if quick else [d0, d1, d2]  # quick: the first configuration equals the old default
            for init, op in single_changes(d0, d1, d2):
                for v0 in v0s:
                    add(shape, t, pool, init, [op], v0)
                    if not quick or (shape == "flat" and t == "int" and v0 == d0):
                        add(shape, t, pool, init, [op], v0, "json")
            if not quick:
                # two changes in a row: every ordered pair of operations, d0 -> d1 -> d0 and d0 -> d1 -> d2
                for (init, op1) in single_changes(d0, d1, d2):
                    for name2 in OPS:
                        if name2.startswith("file_") and init["file"] == NODCF:
                            continue
                        if name2 == "setter_other_file" and init["file"] == NODCF:
                            continue
                        if name2 == "file_delete" and op1[0] == "file_delete":
                            continue
                        for d_next in (d0, d2):
                            add(shape, t, pool, init, [op1, [name2, None if name2 == "file_delete" else d_next]], d0)
    seen, out = set(), []
    for c in cases:
        k = json.dumps(c, sort_keys=True)
        if k not in seen:
            seen.add(k)
            out.append(c)
    out.sort(key=lambda c: len(json.dumps(c)))
    return out


def explore_history(ctx, nontrivial):
    cases = history_cases(ctx.tier)
    tot = {"rt": 0, "ops": 0, "effective": 0, "changes": 0, "stale_sensitive": 0, "dropped": 0, "cpu": 0.0}
    status, channels, per_op = {}, {}, {}
    for r in ctx.pmap(history_worker, cases):
        for k in tot:
            tot[k] += r.get(k, 0)
        st = r["status"].split(":")[0]
        status[st] = status.get(st, 0) + 1
        if r["status"] == "accepted":
            nontrivial.add(("h", json.dumps(r["case"], sort_keys=True)))
            for op in r["case"]["ops"]:
                per_op[op[0]] = per_op.get(op[0], 0) + 1
        for ch, n in r["channels"].items():
            channels[ch] = channels.get(ch, 0) + n
        for sig, detail in r["devs"]:
            ctx.deviation(sig, r["case"], detail)
    ctx.note(f"worker CPU seconds: history layer {tot['cpu']:.0f}")
    ctx.count("history.cases", len(cases))
    for k, v in sorted(status.items()):
        ctx.count("history.cases_" + k, v)
    ctx.count("history.roundtrips", tot["rt"])
    ctx.count("history.default_changes_executed", tot["changes"])
    ctx.count("history.default_changes_confirmed_by_get_defaults", tot["effective"])
    ctx.count("history.configs_equal_to_the_old_default_only", tot["stale_sensitive"])
    ctx.count("history.skip_default_dumps_that_left_the_entry_out", tot["dropped"])
    for k, v in sorted(per_op.items()):
        ctx.count("history.accepted_cases_with_" + k, v)
    for k, v in sorted(channels.items()):
        ctx.count("history.roundtrips." + k, v)
    if cases:
        ctx.sample(cases[len(cases) // 2])
    guards = [
        (f"history layer: every change of the defaults took effect as the state model says ({tot['effective']}/{tot['changes']})",
         tot["changes"] > 100 and tot["effective"] == tot["changes"]),
        (f"history layer: every operation that changes a default occurs in accepted cases ({sorted(per_op)})", set(per_op) == set(OPS)),
        ("history layer: configurations that equal the old default but not the new one were serialised after the change, and skip_default "
         f"dumps that leave the entry out occurred ({tot['stale_sensitive']}, {tot['dropped']})", tot["stale_sensitive"] > 80 and tot["dropped"] > 80),
        ("history layer: skip_default dumps and --print_config=skip_default ran on the used parser",
         channels.get("dump-skip_default", 0) > 400 and channels.get("print_config=skip_default", 0) > 150),
    ]
    bounds = {
        "pools": [[t, pool] for t, pool in POOLS[: QUICK_FLAT_TYPES if ctx.tier == "quick" else len(POOLS)]],
        "shapes": ["flat", "group (quick: first pool only)"],
        "operations_changing_a_default": OPS + ["file_write on a missing file (create)"],
        "changes_per_history": 1 if ctx.tier == "quick" else 2,
        "after_each_change": "re-dump of the configuration accepted before + parse and serialise every value of the pool",
        "channels": ["dump skip_default x formats (nulls kept)", "dump", "dump skip_default nulls dropped", "--print_config=skip_default -> --cfg"],
    }
    return {"rt": tot["rt"], "ops": tot["ops"], "states": status.get("accepted", 0), "guards": guards, "bounds": bounds}
