"""C19 - the reference side: mode language, admission rule, and the mode predicate.

Everything here is written from the documented flag meanings (docstring of `jsonargparse.Path`):

    f=file, d=directory, r=readable, w=writeable, x=executable, c=creatable; uppercase = not
    (F=not-file, D=not-directory, R=not-readable, W=not-writeable, X=not-executable).
    "c" once: the parent directory must exist and be writeable.
    "c" twice: the parent directory does not have to exist, but should be allowed to create.

and over *facts* about one path (stat result / errno class, the three os.access answers, and the same for the
directory chain above it).  The facts come either from the abstract state of the virtual file system or from
os.stat / os.access calls made by the harness on the real file system; this file never looks at jsonargparse.
"""
from __future__ import annotations

import itertools

# one flag = one unit of the mode language; "cc" is the doubled creatable flag
FLAGS = ["f", "d", "r", "w", "x", "c", "cc", "F", "D", "R", "W", "X"]
ALPHABET = "fdrwxcFDRWX"


def admissible(mode):
    """Independent statement of which strings over the local-path flag alphabet are modes (u, s excluded)."""
    if any(ch not in ALPHABET for ch in mode):
        return False
    for ch in set(mode):
        if mode.count(ch) > (2 if ch == "c" else 1):
            return False
    return not ("f" in mode and "d" in mode)


def flag_sets(max_flags):
    """All sets of at most `max_flags` flags (c / cc exclusive, f / d exclusive), simplest first."""
    out = []
    for k in range(max_flags + 1):
        for combo in itertools.combinations(FLAGS, k):
            if "c" in combo and "cc" in combo:
                continue
            if "f" in combo and "d" in combo:
                continue
            out.append(combo)
    return out


def mode_strings(flags, all_orders):
    """The mode strings that spell one flag set: the canonical order, or every distinct character order."""
    chars = "".join(flags)
    if not all_orders:
        return [chars]
    return sorted({"".join(p) for p in itertools.permutations(chars)}, key=lambda s: (s != chars, s))


def all_modes(max_flags, all_orders):
    """[(mode string, flag tuple)] for every admissible mode of at most max_flags flags."""
    out = []
    for flags in flag_sets(max_flags):
        for m in mode_strings(flags, all_orders):
            out.append((m, flags))
    return out


def flags_of(mode):
    """Flag units of a mode string in canonical order."""
    out = []
    for f in FLAGS:
        if f == "c":
            if mode.count("c") == 1:
                out.append("c")
        elif f == "cc":
            if mode.count("c") == 2:
                out.append("cc")
        elif f in mode:
            out.append(f)
    return out


def without_flag(mode, flag):
    """Mode string with one flag unit removed (order of the remaining characters kept)."""
    if flag == "cc":
        return mode.replace("c", "")
    return mode.replace(flag, "", 1)


# -----------------------------------------------------------------------------------------------------
# facts
#
# facts = {
#   "kind":   "file" | "dir" | "fifo" | "other"         when os.stat(path) succeeds (symlinks followed)
#             "missing" | "notdir" | "noaccess" | "loop" when it fails (ENOENT / ENOTDIR / EACCES / ELOOP)
#   "R", "W", "X":  the os.access(path, R_OK / W_OK / X_OK) answers
#   "parent": {"kind": ..., "W": bool}   the directory the entry lives in / would be created in
#             = dirname(realpath(path))
#   "nearest": {"kind": ..., "W": bool}  the first *existing* node on the way up from the parent (the parent
#             itself when it exists); a node whose stat fails (ENOENT, ENOTDIR, EACCES) counts as not existing
# }

EXISTING = ("file", "dir", "fifo", "other")


def violated(mode, facts):
    """Flags of `mode` that the facts do not satisfy (empty list = the path must be accepted).

    Returns (violated_flags, unjudged_reason).  unjudged_reason is a string when the documented meanings do not
    settle the case (it is then neither demanded accepted nor rejected)."""
    flags = flags_of(mode)
    kind = facts["kind"]
    exists = kind in EXISTING
    filelike = kind in ("file", "fifo")  # "f": an existing FIFO counts as a file (explicit in the documentation of f/F pairing)
    creat = "c" in flags or "cc" in flags
    bad = []
    unjudged = None
    for f in flags:
        if f == "f":
            if creat:
                # a file that can be created if it does not exist: nothing else may occupy the name
                if exists and kind == "fifo":
                    unjudged = "existing FIFO with f+c: 'creatable' is not defined for it"
                elif exists and kind != "file":
                    bad.append(f)
            elif not (exists and filelike):
                bad.append(f)
        elif f == "d":
            if creat:
                if exists and kind != "dir":
                    bad.append(f)
            elif not (exists and kind == "dir"):
                bad.append(f)
        elif f == "c":
            p = facts["parent"]
            if not (p["kind"] == "dir" and p["W"]):
                bad.append(f)
        elif f == "cc":
            n = facts["nearest"]
            if not (n["kind"] == "dir" and n["W"]):
                bad.append(f)
        elif f in "rwx":
            if not facts[f.upper()]:
                bad.append(f)
        elif f in "RWX":
            if facts[f]:
                bad.append(f)
        elif f == "D":
            if kind == "dir":
                bad.append(f)
        elif f == "F":
            if filelike:
                bad.append(f)
    return bad, unjudged


def path_class(flag, facts):
    """Coarse class of the failing input for signatures: what the flag looks at."""
    if flag == "c":
        return "parent=" + facts["parent"]["kind"]
    if flag == "cc":
        return "nearest-ancestor=" + facts["nearest"]["kind"]
    return facts["kind"]
