"""C16 - classes are instantiated in an order compatible with every link.

Bounded exhaustive enumeration of link graphs on the real code, two layers (four case families):

  graph      `DirectedGraph` driven directly on EVERY digraph on <= 5 labelled nodes (2^(n(n-1)) edge masks, plus
             every digraph with self-loops on <= 3 / <= 4 nodes) in several edge-insertion orders (canonical,
             reversed, rotated, target-major, every edge twice; all orders for graphs with few edges), judged by an
             independent bitmask Kahn check: the result is a permutation of the touched nodes that respects every
             edge, or ValueError iff the graph is cyclic.
  dag        end to end through real parsers: every DAG on <= 3 / <= 4 components (each a class group, a subclass
             argument, a class-typed argument or a class group with class-typed parameters), every declaration
             order of the components, several link-addition orders, link shapes whole object / attribute /
             compute_fn / multi-source, judged by the constructor log of the fixture classes; plus every single
             extra link that closes a cycle (must raise ValueError when it is added).
  hier       a three-level hierarchy (class group or subclass argument Root -> class-typed parameter child ->
             class-typed parameter grandchild) with two further components: every set of links from the components
             into the three levels (nested target prefixes, the shape repaired in 4.37), in every declaration
             order; then link sets in which a level is also a source.
  within     three sibling objects inside ONE class-typed argument, links between the siblings (these are handed
             to the argument's own parser, where the same ordering code runs again) combined with links from / to
             a separate component.
  faults     operation histories on a used parser: for planned acyclic link sets of the three families EVERY
             constructor call and EVERY compute_fn call of a first instantiate_classes is made to raise once (fault
             enumeration); the same parser must afterwards instantiate the same configuration (thorough: and a
             freshly parsed one) exactly as a fresh parser would (full constructor-log oracle).

Two alphabets cross the parser families: the NAMES of the components (unrelated names, and names of which one is a
proper string prefix of another: n / n2 / n2x, n / n_e / n_e_m, g.n / g.n2 under a dotted parent; roo / root / root2
around the hierarchy; h / h2 for the argument and the outside component) and the VALUE a link source carries (the
object, an attribute holding an object, and attributes holding None, 0, "", False, [], an object with truth value
False - fed into parameters whose default is not None, so that "not applied" and "delivered None" differ).

A third axis is the MODE of the instantiate call: instantiate_classes(cfg, instantiate_groups=False) (class groups stay
configuration, everything class-typed is instantiated) on parsers whose links run between class-typed components
(subclass arguments, class-typed arguments, the class-typed child / grandchild of a group that itself is left alone):
the ordering, delivery and exactly-once guarantees are the same, and a class group must not be constructed.

For hier / within the reference is the dependency graph "link edges + nesting edges" (an object is built before the
object whose constructor receives it): a link that makes this graph cyclic must be refused with ValueError when it
is added, every other link must be accepted, and instantiation is judged by the constructor log (each class exactly
once, sources before targets, fed parameter identical to the source object / its attribute / the compute_fn
result).
"""
from __future__ import annotations

import itertools

META = {
    "id": "C16",
    "level": "model_checking",
    "engine": "bounded exhaustive link-graph enumeration on the real DirectedGraph / ArgumentParser (mc/checks/c16.py)",
    "technique": "exhaustive enumeration of all small digraphs (DirectedGraph vs. independent Kahn check) and of all "
    "small link graphs x component kinds x declaration orders x link orders x component-name relations x source "
    "value kinds x mode of the instantiate call (with / without class groups) through real parsers, judged by a "
    "constructor log and a reference dependency graph",
    "level_text": "Every digraph on up to 5 labelled nodes is given to the real DirectedGraph in several insertion "
    "orders and its answer (order or ValueError) is validated by an independent acyclicity/order check; every DAG "
    "on up to 3 (quick) / 4 (thorough) components is realised as a real parser with instantiation links in every "
    "declaration order and instantiated, and a constructor log decides exactly-once construction, "
    "source-before-target order and identity of the fed value; every cycle-closing link must be refused when added; "
    "instantiation is repeated on the same parser, also after an instantiation aborted at each possible constructor / "
    "compute_fn call, and done with instantiate_groups=False on parsers whose links run between class-typed components. "
    "The verdict is exhaustive within these bounds; nothing is sampled.",
    "level_note": "Trusted: the 15-line bitmask Kahn check, the fixture classes' constructor log, the reference "
    "dependency graph of the hier / within families (link edges + nesting edges). Graphs on more than 5 nodes / 4 "
    "components, links into list-typed arguments and links inside subcommands are not enumerated; link sets of the "
    "nested families are bounded by the number of links, not closed.",
    "design_ref": "DESIGN.md §5 C16",
}

FIX = "mc.fixtures.c16.classes"

# =================================================================================================
# layer 1: DirectedGraph directly


def _pairs(n, loops):
    return [(s, t) for s in range(n) for t in range(n) if loops or s != t]


def acyclic(n, edges):
    """Independent reference: Kahn's algorithm on bitmasks.  True iff the digraph has no directed cycle."""
    pred = [0] * n
    for s, t in edges:
        pred[t] |= 1 << s
    remaining = (1 << n) - 1
    while remaining:
        free = [v for v in range(n) if remaining >> v & 1 and not pred[v] & remaining]
        if not free:
            return False
        for v in free:
            remaining &= ~(1 << v)
    return True


def insertion_orders(edges, all_perms_upto):
    """Edge insertion orders explored for one edge set (first = canonical)."""
    m = len(edges)
    if m <= all_perms_upto:
        return [list(p) for p in itertools.permutations(edges)] or [[]]
    orders = [list(edges), list(reversed(edges)), edges[m // 2 :] + edges[: m // 2], sorted(edges, key=lambda e: (e[1], e[0]))]
    orders.append([e for e in edges for _ in (0, 1)])  # every edge inserted twice (add_edge must de-duplicate)
    out = []
    for o in orders:
        if o not in out:
            out.append(o)
    return out


def judge_graph(n, order, cyc_free=None):
    """Run the real DirectedGraph on one insertion order.  Returns (signature or None, detail, calls)."""
    from jsonargparse._link_arguments import DirectedGraph

    labels = [f"n{i}" for i in range(n)]
    g = DirectedGraph()
    for s, t in order:
        g.add_edge(labels[s], labels[t])
    calls = len(order) + 1
    if cyc_free is None:
        cyc_free = acyclic(n, order)
    try:
        res = g.get_topological_order()
    except ValueError as ex:
        if cyc_free:
            return "graph:acyclic-graph-reported-cyclic", f"ValueError({ex})", calls
        return None, "", calls
    except Exception as ex:  # noqa: BLE001
        return f"graph:escape:{type(ex).__name__}", repr(ex), calls
    if not cyc_free:
        return "graph:cycle-not-detected", f"returned {res}", calls
    touched = sorted({labels[x] for e in order for x in e})
    if not isinstance(res, list) or sorted(res) != touched:
        return "graph:result-not-a-permutation-of-the-nodes", f"returned {res}, nodes {touched}", calls
    pos = {x: i for i, x in enumerate(res)}
    for s, t in order:
        if pos[labels[s]] >= pos[labels[t]]:
            return "graph:order-violates-an-edge", f"returned {res}, edge n{s}->n{t}", calls
    return None, "", calls


def graph_worker(item):
    """One shard of edge masks: (n, loops, lo, hi, all_perms_upto, canonical_only)."""
    n, loops, lo, hi, all_perms_upto, canonical_only = item
    pairs = _pairs(n, loops)
    out = {"graphs": 0, "acyclic": 0, "cyclic": 0, "runs": 0, "calls": 0, "nontrivial": 0, "devs": {}, "orders_max": 0}
    for mask in range(lo, hi):
        edges = [pairs[b] for b in range(len(pairs)) if mask >> b & 1]
        ok = acyclic(n, edges)
        out["graphs"] += 1
        out["acyclic" if ok else "cyclic"] += 1
        if len(edges) >= 2:
            out["nontrivial"] += 1
        orders = [edges] if canonical_only and len(edges) > all_perms_upto else insertion_orders(edges, all_perms_upto)
        out["orders_max"] = max(out["orders_max"], len(orders))
        for order in orders:
            sig, detail, calls = judge_graph(n, order, ok)
            out["runs"] += 1
            out["calls"] += calls
            if sig is not None:
                case = {"layer": "graph", "n": n, "edges": [list(e) for e in order]}
                old = out["devs"].get(sig)
                if old is None:
                    out["devs"][sig] = [case, detail, 1]
                else:
                    old[2] += 1
                    if (len(order), case["edges"]) < (len(old[0]["edges"]), old[0]["edges"]):
                        old[0], old[1] = case, detail
    return out


def graph_items(quick):
    items = []

    def shard(n, loops, all_perms_upto, canonical_only, size):
        total = 1 << len(_pairs(n, loops))
        for lo in range(0, total, size):
            items.append((n, loops, lo, min(total, lo + size), all_perms_upto, canonical_only))

    perms = 4 if quick else 5
    for n in (1, 2, 3):
        shard(n, True, perms, False, 128)  # all digraphs with self-loops on <= 3 nodes
    shard(4, False, perms, False, 256)
    if quick:
        shard(5, False, 4, True, 4096)  # every 5-node digraph, canonical order; all orders when <= 4 edges
    else:
        shard(4, True, 4, False, 1024)  # all 65 536 digraphs with self-loops on 4 nodes
        shard(5, False, 5, False, 2048)  # every 5-node digraph in 5 systematic orders; all orders when <= 5 edges
    return items


# =================================================================================================
# layer 2: end to end through real parsers
#
# A case is {"layer": family, <family axes>, "links": [link, ...]} with
#   link = {"s": [[node, "w" | "a"], ...], "t": node, "p": parameter, "fn": 0 | 1}
# ("w" = the whole source object, "a" = its attribute `attr`; fn = with compute_fn).  Links are added in the listed
# order.  The reference is the dependency graph  link edges + nesting edges (inner object before the object that
# receives it): a link whose addition makes it cyclic must raise ValueError, every other link must be accepted, and
# the instantiation of an accepted set is judged by the constructor log.


# Value alphabet of a link source: "w" the whole object, "a" its attribute `attr` (an object), and attributes whose
# value is None / falsy (the statement says the parameter receives the attribute, whatever it holds).
HOW_ATTR = {"a": "attr", "n": "attr_none", "z": "attr_zero", "e": "attr_empty", "f": "attr_false", "l": "attr_list", "o": "attr_fobj"}
FALSY_HOWS = "nzeflo"

# Name alphabet of the components.  "plain": unrelated names.  The others are PREFIX-RELATED names: every name is a
# proper string prefix of the next one - without a separator, with an underscore boundary (model / model_ema), and as
# leaves under a common dotted parent (class groups g.n, g.n2: the prefix relation sits behind a dot).  Because every
# labelled DAG is enumerated in every declaration order, every assignment of these names to the nodes is covered.
NAMES = {
    "plain": ["c0", "c1", "c2", "c3"],
    "prefix": ["n", "n2", "n2x", "n2xy"],
    "prefix_": ["n", "n_e", "n_e_m", "n_e_m_a"],
    "dotted": ["g.n", "g.n2", "g.n2x", "g.n2xy"],
}
# hier: the two components around `root`: one name is a proper prefix of "root", the other has "root" as a proper prefix
HIER_NAMES = {"plain": {"sa": "sa", "sb": "sb"}, "prefix": {"sa": "roo", "sb": "root2"}}
# within: holder argument / outside component; either name a proper prefix of the other
WITHIN_NAMES = {"plain": ("h", "sa"), "prefix": ("h", "h2"), "prefix-rev": ("h2", "h")}


def _src_key(base, how):
    return base if how == "w" else f"{base}.{HOW_ATTR[how]}"


def param_default(param):
    """Parameters d* have the non-None default "unset" (fixtures), every other link-fed parameter defaults to None."""
    return "unset" if param[0] == "d" else None


def _fx():
    import importlib

    return importlib.import_module(FIX)


def _spec(cls, **init):
    return {"class_path": f"{FIX}.{cls}", "init_args": init}


def _json_arg(key, spec):
    import json

    return f"--{key}={json.dumps(spec)}"


def _add_component(parser, args, kind, cls, name, v):
    """kind: G/T class group, S add_subclass_arguments, A add_argument(type=cls)."""
    if kind in "GT":
        parser.add_class_arguments(cls, name)
        args.append(f"--{name}.v={v}")
    else:
        if kind == "S":
            parser.add_subclass_arguments(cls, name)
        else:
            parser.add_argument(f"--{name}", type=cls)
        args.append(_json_arg(name, _spec(cls.__name__, v=v)))


def _component_target(kind, name, param):
    return f"{name}.{param}" if kind in "GT" else f"{name}.init_args.{param}"


# ---- family "dag": k independent components ------------------------------------------------------------

KIND_CLASS = {"G": "K", "S": "K", "A": "K", "T": "T"}


def setup_dag(case, F):
    from jsonargparse import ArgumentParser

    kinds = case["kinds"]
    k = len(kinds)
    nodes = [f"c{i}" for i in range(k)]  # abstract node labels used in the links
    names = NAMES[case.get("names", "plain")][:k]  # the names the components get in the parser
    real = dict(zip(nodes, names))

    def build():
        parser, args = ArgumentParser(exit_on_error=False), []
        for i in case["decl"]:
            _add_component(parser, args, kinds[i], getattr(F, KIND_CLASS[kinds[i]] + str(i)), names[i], 10 + i)
        return parser, args

    return {
        "build": build,
        "nodes": {nodes[i]: KIND_CLASS[kinds[i]] + str(i) for i in range(k)},
        "nesting": [],
        "source": lambda node, how: _src_key(real[node], how),
        "target": lambda node, param: _component_target(kinds[int(node[1:])], real[node], param),
        "own": {nodes[i]: 10 + i for i in range(k)},
        "result": dict(real),
        "parents": [],
        "params": {nodes[i]: ["p0", "p1", "p2", "p3"] + (["d0", "d1", "d2", "d3"] if kinds[i] != "T" else []) for i in range(k)},
        "tags": lambda links: [],
        "groups": {nodes[i] for i in range(k) if kinds[i] in "GT"},
    }


# ---- family "hier": Root -> child -> grandchild plus two components ----------------------------------
# nodes: "sa", "sb" (components), "L0" root, "L1" root.child, "L2" root.child.grandchild


def hier_groups(root_kind, src_kinds):
    """Nodes of a hier case that are class groups (root.child / grandchild are class-typed arguments in any case)."""
    return {n for n, kind in (("L0", root_kind), ("sa", src_kinds[0]), ("sb", src_kinds[1])) if kind == "G"}


def setup_hier(case, F):
    from jsonargparse import ArgumentParser

    rk, sk = case["root"], case["src"]
    pre = "root." if rk == "G" else "root.init_args."
    nm = HIER_NAMES[case.get("names", "plain")]

    def build():
        parser, args = ArgumentParser(exit_on_error=False), []
        child = _spec("Child", v=21, grandchild=_spec("Grandchild", v=22))
        for name in case["decl"]:
            if name == "root":
                if rk == "G":
                    parser.add_class_arguments(F.Root, "root")
                    args += ["--root.v=20", _json_arg("root.child", child)]
                else:
                    parser.add_subclass_arguments(F.Root, "root")
                    args.append(_json_arg("root", _spec("Root", v=20, child=child)))
            else:
                i = 0 if name == "sa" else 1
                _add_component(parser, args, sk[i], (F.SrcA, F.SrcB)[i], nm[name], 30 + i)
        return parser, args

    def source(node, how):
        base = {"sa": nm["sa"], "sb": nm["sb"], "L0": "root", "L1": "root.child"}[node]
        assert node != "L1" or rk == "G"
        return _src_key(base, how)

    def target(node, param):
        if node in ("sa", "sb"):
            return _component_target(sk[0 if node == "sa" else 1], nm[node], param)
        return pre + {"L0": "", "L1": "child.init_args.", "L2": "child.init_args.grandchild.init_args."}[node] + param

    def tags(links):
        level = {"L0": 0, "L1": 1, "L2": 2}
        src = {n for l in links for n, _ in l["s"] if n in level}
        tgt = {l["t"] for l in links if l["t"] in level}
        out = []
        if "L1" in src and "L0" in (src | tgt):
            out.append("nested-source-with-enclosing-component-linked")
        if any(level[t] > level[s] for s in src for t in tgt):
            out.append("target-nested-in-source-component")
        return out

    return {
        "build": build,
        "nodes": {"sa": "SrcA", "sb": "SrcB", "L0": "Root", "L1": "Child", "L2": "Grandchild"},
        "nesting": [("L2", "L1"), ("L1", "L0")],
        "source": source,
        "target": target,
        "own": {"sa": 30, "sb": 31, "L0": 20, "L1": 21, "L2": 22},
        "result": {"sa": nm["sa"], "sb": nm["sb"], "L0": "root"},
        "parents": [("L0", "child", "L1"), ("L1", "grandchild", "L2")],
        "params": {"sa": ["pr", "dr"], "sb": ["pr", "dr"], **{lv: ["pa", "pb", "da", "db"] for lv in ("L0", "L1", "L2")}},
        "tags": tags,
        "groups": hier_groups(rk, sk),
    }


# ---- family "within": three sibling objects inside one class-typed argument h, plus one component ----
# nodes: "a", "b", "c" (h.init_args.a ...), "H" (h itself), "X" (component sa)


def setup_within(case, F):
    from jsonargparse import ArgumentParser

    hk, xk = case["h"], case["x"]
    hn, xn = WITHIN_NAMES[case.get("names", "plain")]

    def build():
        parser, args = ArgumentParser(exit_on_error=False), []
        for name in case["decl"]:
            if name == "h":
                if hk == "S":
                    parser.add_subclass_arguments(F.Holder, hn)
                else:
                    parser.add_argument("--" + hn, type=F.Holder)
                args.append(_json_arg(hn, _spec("Holder", v=40, a=_spec("SibA", v=41), b=_spec("SibB", v=42), c=_spec("SibC", v=43))))
            else:
                _add_component(parser, args, xk, F.SrcA, xn, 30)
        return parser, args

    def source(node, how):
        base = {"a": hn + ".a", "b": hn + ".b", "c": hn + ".c", "H": hn, "X": xn}[node]
        return _src_key(base, how)

    def target(node, param):
        if node == "X":
            return _component_target(xk, xn, param)
        if node == "H":
            return f"{hn}.init_args.{param}"
        return f"{hn}.init_args.{node}.init_args.{param}"

    return {
        "build": build,
        "nodes": {"a": "SibA", "b": "SibB", "c": "SibC", "H": "Holder", "X": "SrcA"},
        "nesting": [("a", "H"), ("b", "H"), ("c", "H")],
        "source": source,
        "target": target,
        "own": {"a": 41, "b": 42, "c": 43, "H": 40, "X": 30},
        "result": {"H": hn, "X": xn},
        "parents": [("H", "a", "a"), ("H", "b", "b"), ("H", "c", "c")],
        "params": {**{x: ["qa", "qb", "qc", "qs", "da", "db", "dc", "ds"] for x in "abc"}, "H": ["qs", "ds"], "X": ["pr", "dr"]},
        "tags": _within_tags,
        "groups": {"X"} if xk == "G" else set(),
    }


def _within_tags(links):
    sib = [(n, l["t"]) for l in links for n, _ in l["s"] if n in "abc" and l["t"] in "abc"]
    out = []
    if sib and not acyclic(3, [("abc".index(s), "abc".index(t)) for s, t in sib]):
        out.append("cycle-among-links-within-one-class-argument")
    if sib and any(n == "X" and l["t"] == "H" for l in links for n, _ in l["s"]):
        out.append("link-into-argument-that-has-inner-links")
    if any(n == "X" for l in links for n, _ in l["s"] if l["t"] in "abc") and (
        sib or any(n == "H" for l in links for n, _ in l["s"])
    ):
        out.append("target-nested-in-source-component")
    return out


SETUP = {"dag": setup_dag, "hier": setup_hier, "within": setup_within}


# ---- the common runner and oracle ---------------------------------------------------------------------


def ref_acyclic(fam, links):
    names = sorted(fam["nodes"])
    idx = {n: i for i, n in enumerate(names)}
    edges = [(idx[a], idx[b]) for a, b in fam["nesting"]]
    for l in links:
        for n, _ in l["s"]:
            if n == l["t"]:
                return False
            edges.append((idx[n], idx[l["t"]]))
    return acyclic(len(names), edges)


def _how_shape(how):
    return {"w": "whole", "a": "attr", "n": "attr-none"}.get(how, "attr-falsy")


def link_shape(link):
    """Shape of a link for signatures: by the kind of value it carries (object / None / other falsy value), not the value."""
    hows = [how for _, how in link["s"]]
    if len(hows) == 1:
        base = _how_shape(hows[0])
    else:
        base = "multi" if all(h in "wa" for h in hows) else ("multi-none" if "n" in hows else "multi-falsy")
    return base + ("+fn" if link["fn"] else "")


def check_fed(F, Namespace, link, received, objs, devs):
    """What the constructor of the target received for one link, compared with the source objects by identity."""
    shape = link_shape(link)
    default = param_default(link["p"])
    missing = object()  # the source was never constructed: nothing can be the right value

    def want(node, how):
        obj = objs.get(node)
        return missing if obj is None else (obj if how == "w" else getattr(obj, HOW_ATTR[how]))

    def classify(got):
        if got is None if default is None else (isinstance(got, str) and got == default):
            return "link-not-applied"  # the constructor received the parameter's default
        if isinstance(got, (Namespace, dict)):
            return "fed-unconstructed-source-config"
        if isinstance(got, (F.Base, F.Attr)):
            return "fed-a-different-object"
        return "fed-wrong-value"

    where = f"{link['t']}.{link['p']}"
    if link["fn"]:
        if not isinstance(received, F.FnResult):
            devs.append((f"{classify(received)}:{shape}", f"{where} received {received!r}, expected the compute_fn result"))
            return
        if len(received.args) != len(link["s"]):
            devs.append((f"compute_fn-wrong-arity:{shape}", f"{where}: compute_fn called with {received.args!r}"))
            return
        pairs = list(zip(link["s"], received.args))
    else:
        pairs = [(link["s"][0], received)]
    for (node, how), got in pairs:
        # identity: the very object / attribute value of the constructed source (None, 0, "", False are singletons).
        # A list is a configuration container for the library: on its way into an init arg of a subclass-type
        # target the settings are cloned, so a list attribute may arrive as an equal copy - judged by type and value.
        if got is not want(node, how) and not (how == "l" and type(got) is list and got == want(node, how)):
            exp = "<source never constructed>" if want(node, how) is missing else repr(want(node, how))
            devs.append((f"{classify(got)}:{shape}", f"{where} got {got!r} for source {node} ({how}), expected {exp}"))
            return


def check_instantiation(F, Namespace, fam, links, init, log, absent=()):
    """Judge one instantiate_classes call by the constructor log.  Returns [(symptom, detail)].
    absent: nodes that must NOT be constructed (class groups under instantiate_groups=False; no link touches them)."""
    devs = []
    names = [e[0] for e in log]
    objs, index = {}, {}
    for node, cname in fam["nodes"].items():
        hits = [i for i, e in enumerate(log) if e[0] == cname]
        if node in absent:
            if hits:
                devs.append(("class-group-constructed", f"{cname} ({node}) constructed although instantiate_groups=False; log {names}"))
            continue
        if not hits:
            devs.append(("class-never-constructed", f"{cname} ({node}) not constructed; log {names}"))
        elif len(hits) > 1:
            devs.append(("class-constructed-more-than-once", f"{cname} ({node}) constructed {len(hits)} times; log {names}"))
        if hits:
            index[node], objs[node] = hits[0], log[hits[0]][1]
    extra = [n for n in names if n not in fam["nodes"].values()]
    if extra:
        devs.append(("unexpected-construction", f"{extra}"))
    fed = set()
    for link in links:
        t = link["t"]
        fed.add((t, link["p"]))
        if t not in objs:
            continue
        late = [n for n, _ in link["s"] if n in index and index[n] > index[t]]
        if late:
            devs.append(("source-constructed-after-target", f"{late[0]} constructed after {t}; log {names}"))
        check_fed(F, Namespace, link, objs[t].received.get(link["p"]), objs, devs)
    for outer, param, inner in fam["parents"]:
        if outer in objs and inner in objs and objs[outer].received.get(param) is not objs[inner]:
            devs.append(("parent-did-not-receive-the-constructed-child", f"{outer}.{param} = {objs[outer].received.get(param)!r}"))
    for node, key in fam["result"].items():
        if node in objs and init.get(key) is not objs[node]:
            devs.append(("result-is-not-the-constructed-object", f"init.{key} = {init.get(key)!r}"))
    for node, obj in objs.items():
        if obj.received.get("v") != fam["own"][node]:
            devs.append(("own-setting-lost", f"{node}.v = {obj.received.get('v')!r}, expected {fam['own'][node]}"))
        for p in fam["params"][node]:
            if (node, p) not in fed and obj.received.get(p) != param_default(p):
                devs.append(("unlinked-parameter-changed", f"{node}.{p} = {obj.received.get(p)!r}"))
    return devs


def run_e2e(case):
    """Execute one case from scratch.  Returns ([(signature, detail)], stats)."""
    import jsonargparse

    F = _fx()
    F.arm()  # no fault armed unless the case says so
    Namespace = jsonargparse.Namespace
    layer = case["layer"]
    fam = SETUP[layer](case, F)
    stats = {"calls": 0}
    # mode of the instantiate call: case["groups"] == 0 -> instantiate_classes(cfg, instantiate_groups=False): the class
    # groups stay configuration, everything class-typed (subclass arguments, class-typed arguments, class-typed
    # parameters nested in a group) is instantiated and owes the same guarantees.  The enumeration only pairs this
    # mode with link sets that do not touch a class group.
    no_groups = case.get("groups") == 0
    absent = fam["groups"] if no_groups else set()
    inst_kw = {"instantiate_groups": False} if no_groups else {}
    touched = {n for l in case["links"] for n in [l["t"]] + [x for x, _ in l["s"]]}
    assert not (touched & absent), "harness: instantiate_groups=False case with a link that touches a class group"
    mode = "instantiate_groups-false:" if no_groups else ""
    stats["no_groups"] = int(no_groups)
    parser, args = fam["build"]()
    stats["calls"] += len(case["decl"])

    def sig(tags, symptom, coarse):
        # Link-set shapes with a known structural weakness get ONE coarse signature per (shape, kind of failure),
        # named by the shape; everything else keeps a precise per-symptom signature.  Tags come in a fixed priority
        # order; a wrongly accepted cycle through nesting can only be due to the nested-target shape.
        if not tags:
            return f"{layer}:{symptom}"
        tag = tags[0]
        if coarse == "cyclic-link-set-accepted" and "target-nested-in-source-component" in tags and not tag.startswith("cycle-among"):
            tag = "target-nested-in-source-component"
        return f"nested-links:{tag}:{coarse}"

    stats["expect"] = "instantiate" if ref_acyclic(fam, case["links"]) else "refuse"
    added = []
    for link in case["links"]:
        stats["calls"] += 1
        ok_after = ref_acyclic(fam, added + [link])
        tags = fam["tags"](added + [link])
        sources = tuple(fam["source"](n, how) for n, how in link["s"])
        target = fam["target"](link["t"], link["p"])
        fn = F.make_fn(target.replace(".", "_")) if link["fn"] else None
        raised = None
        try:
            parser.link_arguments(sources if len(sources) > 1 else sources[0], target, compute_fn=fn, apply_on="instantiate")
        except ValueError as ex:
            raised = ex
        except Exception as ex:  # noqa: BLE001
            return [(sig(tags, f"link_arguments-escape:{type(ex).__name__}", "link_arguments-escape"), f"{sources} -> {target}: {ex!r}")], stats
        if ok_after and raised is not None:
            return [(sig(tags, "acyclic-link-rejected", "acyclic-link-rejected"), f"{sources} -> {target} after {added}: ValueError({raised})")], stats
        if not ok_after:
            if raised is not None:
                stats["rejected"] = 1
                return [], stats
            plain = ref_acyclic({**fam, "nesting": []}, added + [link])
            kind = "self-loop" if any(n == link["t"] for n, _ in link["s"]) else ("cycle-through-nesting" if plain else "cycle")
            return [(sig(tags, f"{kind}-closing-link-accepted", "cyclic-link-set-accepted"), f"{sources} -> {target} accepted after {added}")], stats
        added.append(link)
    tags = fam["tags"](added)
    try:
        cfg = parser.parse_args(list(args))
        stats["calls"] += 1
    except BaseException as ex:  # noqa: BLE001
        return [(sig(tags, f"parse-fails:{type(ex).__name__}", "instantiation-wrong"), str(ex)[:300])], stats
    devs = []
    fault = case.get("fault")
    if fault is None:
        # instantiating the same parsed configuration twice must behave the same
        rounds = [(mode, False), (mode + "second-instantiation:", False)]
    else:
        # operation history with an ABORTED instantiation on the same parser: one constructor / compute_fn call of
        # the first instantiate_classes raises (what happens in that call is not judged); afterwards the same
        # configuration and then a freshly parsed one are instantiated on the used parser and judged in full.
        F.reset()
        F.arm(*fault)
        stats["calls"] += 1
        try:
            parser.instantiate_classes(cfg, **inst_kw)
        except Exception:  # noqa: BLE001
            stats["aborted"] = 1
            stats["aborted_late"] = int(len(F.LOG) >= 1)
        finally:
            stats["fault_fired"] = F.FAULT["fired"]
            F.arm()
        rounds = [(mode + "after-aborted-instantiation:", False), (mode + "after-aborted-instantiation:", True)]
    for pre, reparse in rounds:
        if reparse:
            stats["calls"] += 1
            try:
                cfg = parser.parse_args(list(args))
            except BaseException as ex:  # noqa: BLE001
                devs.append((f"{pre}parse-fails:{type(ex).__name__}", str(ex)[:300]))
                break
        F.reset()
        stats["calls"] += 1
        try:
            init = parser.instantiate_classes(cfg, **inst_kw)
        except Exception as ex:  # noqa: BLE001
            devs.append((f"{pre}instantiate-raises:{type(ex).__name__}", str(ex)[:300]))
            break
        devs += [(pre + s, d) for s, d in check_instantiation(F, Namespace, fam, added, init, list(F.LOG), absent)]
        if devs:
            break
        stats["order"] = ">".join(e[0] for e in F.LOG)
    stats["instantiated"] = 1
    if not devs:
        stats["shapes"] = sorted({link_shape(l) for l in added})
    if devs and tags:
        return [(sig(tags, "", "instantiation-wrong"), "; ".join(f"{s}: {d}" for s, d in devs[:2]))], stats
    return [(sig(tags, s, ""), d) for s, d in devs], stats


# ---- enumeration ----------------------------------------------------------------------------------------


def all_digraphs(k):
    pairs = _pairs(k, False)
    for mask in range(1 << len(pairs)):
        yield [pairs[b] for b in range(len(pairs)) if mask >> b & 1]


VARIANTS = ["whole", "attr", "whole+fn", "attr+fn", "mixed", "multi"]


def parse_variant(variant):
    """'whole' | 'attr' | 'attr:<how>' [+ '+fn']  ->  (how letter, fn)."""
    fn = int(variant.endswith("+fn"))
    base = variant[:-3] if fn else variant
    return ("w" if base == "whole" else "a" if base == "attr" else base.split(":")[1]), fn


# the value alphabet as link variants: an attribute holding None / a falsy value, alone, through compute_fn, and as the
# first argument of a multi-source compute_fn
VALUE_VARIANTS = [f"{v}:{h}{fn}" for h in FALSY_HOWS for v, fn in (("attr", ""), ("attr", "+fn"), ("multi", ""))]


def links_for(edges, variant, par="p"):
    """Turn an edge list over component indices into links (one per edge; 'multi' merges all in-edges of a node into
    one multi-source link; 'multi:<how>': the same with the FIRST source an attribute of kind <how> (None / falsy),
    and a node with a single in-edge gets a second source from the same component, so the shape exists from k = 2).
    par: 'p' targets p0..p3 (default None), 'd' targets d0..d3 (default "unset")."""
    links = []
    if variant.startswith("multi"):
        first = variant.split(":")[1] if ":" in variant else None
        by_t = {}
        for s, t in edges:
            by_t.setdefault(t, []).append(s)
        for t in sorted(by_t):
            srcs = sorted(by_t[t])
            src = [[f"c{s}", "wa"[(s + t + n) % 2]] for n, s in enumerate(srcs)]
            if first:
                src[0][1] = first
                if len(src) == 1:
                    src.append([src[0][0], "a"])
            links.append({"s": src, "t": f"c{t}", "p": f"{par}{srcs[0]}", "fn": 1})
        return links
    for s, t in edges:
        how, fn = parse_variant(variant if variant != "mixed" else VARIANTS[(s + 2 * t) % 4])
        links.append({"s": [[f"c{s}", how]], "t": f"c{t}", "p": f"{par}{s}", "fn": fn})
    return links


def link_orders(links, level):
    """level 0: as listed + reversed; 1: + rotated + by target; 2: + every order when <= 3 links."""
    m = len(links)
    orders = [links, list(reversed(links))]
    if level >= 1:
        orders.append(links[m // 2 :] + links[: m // 2])
        orders.append(sorted(links, key=lambda l: (l["t"], l["s"])))
    if level >= 2 and m <= 3:
        orders += [list(p) for p in itertools.permutations(links)]
    out = []
    for o in orders:
        if o not in out:
            out.append(o)
    return out


PREFIX_NAMES = ("prefix", "prefix_", "dotted")


def _fill(row, n, defaults):
    """Plan rows may omit trailing optional fields: complete a row to n fields from the defaults of the optional ones."""
    return row + defaults[len(row) - (n - len(defaults)) :]


def dag_plan(k, quick):
    """Rows (kinds, variant, declaration orders: 'all' | 'few' | 'first', link-order level (-1: as listed only), also
    cycle-closing links [, name scheme, target parameters 'p' | 'd' [, 0 = instantiate_groups=False]])."""
    gs = ["".join(p) for p in itertools.product("GS", repeat=k)]
    gsa = ["".join(p) for p in itertools.product("GSA", repeat=k)]
    rows = []
    if k <= 2:
        for kinds in gsa:
            for v in VARIANTS:
                rows.append((kinds, v, "all", 0 if quick else 2, v in ("whole", "attr+fn")))
        # name alphabet: prefix-related component names x all kinds x the four single-source shapes
        for names in PREFIX_NAMES:
            for kinds in gsa:
                for v in ("whole", "attr+fn") if quick else VARIANTS[:4]:
                    rows.append((kinds, v, "all", 0, v == "whole" or not quick, names, "p"))
        # value alphabet: every None / falsy attribute value (alone, through compute_fn, first argument of a
        # multi-source compute_fn) and the ordinary values, all into parameters with a non-None default, x all kinds
        # (quick: first declaration order only - with both edge directions and all kind pairs enumerated, the other
        # order is the same parser up to the class / parameter names)
        for kinds in gsa:
            for v in VARIANTS[:4] + VALUE_VARIANTS:
                rows.append((kinds, v, "first" if quick else "all", 0, False, "plain", "d"))
        # mode of the call: instantiate_groups=False, all class-typed kind pairs x all shapes
        for kinds in ("".join(p) for p in itertools.product("SA", repeat=k)):
            for v in VARIANTS:
                rows.append((kinds, v, "all", 0, False, "plain", "p", 0))
    elif k == 3 and quick:
        for kinds in gs + ["AAA", "AGA"]:
            rows.append((kinds, "whole", "all", 0, True))
        for kinds in ("GGG", "GSG", "SGS"):
            for v in ("attr+fn", "mixed", "multi"):
                rows.append((kinds, v, "all", 0, v == "attr+fn"))
        for v in ("attr", "whole+fn"):
            rows.append(("GSG", v, "all", 0, False))
        # prefix-related names: every DAG x every declaration order (GGG also both link orders; dotted: every closing link)
        rows += [("GGG", "whole", "all", 0, False, "prefix", "p"), ("SGS", "attr+fn", "all", -1, False, "prefix", "p")]
        rows += [("GGG", "whole", "all", -1, False, "prefix_", "p"), ("GSG", "whole", "all", -1, True, "dotted", "p")]
        # None / falsy attribute values inside every DAG (first and last declaration order)
        rows += [("SGS", "attr:n", "few", -1, False, "plain", "d"), ("GSG", "attr:n+fn", "few", -1, False, "plain", "d")]
        rows += [("SSS", "multi:n", "few", -1, False, "plain", "d"), ("ASA", "attr:z", "few", -1, False, "plain", "d")]
        # instantiate_groups=False: every DAG x every declaration order over class-typed components; with a class group
        # among them (G: stays configuration, only link sets that do not touch it)
        rows += [(kinds, "whole", "all", -1, False, "plain", "p", 0) for kinds in ("SSS", "SAS", "SGS", "GSS", "SSG")]
        rows += [(kinds, "whole", "few", -1, False, "plain", "p", 0) for kinds in ("AAA", "ASA")]
        rows += [("SSS", "attr+fn", "all", -1, False, "plain", "p", 0), ("SAS", "multi", "all", -1, False, "plain", "p", 0)]
        rows += [("ASA", "mixed", "all", -1, False, "plain", "p", 0)]
    elif k == 3:
        for kinds in gsa:
            simple = kinds in gs
            for v in VARIANTS:
                rows.append((kinds, v, "all", 2 if simple and v in ("whole", "mixed") else 0, v in ("whole", "attr+fn")))
        for names in PREFIX_NAMES:
            rows += [(kinds, "whole", "all", -1, True, names, "p") for kinds in ("GGG", "GSG", "SGS", "AAA")]
            rows += [("GSG", "attr+fn", "all", -1, False, names, "p")]
        for kinds in ("SSS", "GSG", "SGS", "ASA"):
            rows += [(kinds, v, "few", -1, False, "plain", "d") for v in VALUE_VARIANTS]
        for kinds in ["".join(p) for p in itertools.product("SA", repeat=3)] + ["SGS", "GSS", "SSG", "AGA", "GAS"]:
            rows += [(kinds, v, "all", 0 if v == "whole" else -1, False, "plain", "p", 0) for v in ("whole", "attr+fn")]
        rows += [(kinds, v, "all", -1, False, "plain", "p", 0) for kinds in ("SSS", "SAS") for v in ("multi", "mixed")]
    else:  # k == 4, thorough only
        rows += [("GGGG", "whole", "all", 0, True), ("GGGG", "attr+fn", "all", -1, True), ("GGGG", "multi", "all", -1, False)]
        rows += [("GSGS", "whole", "all", -1, True), ("SGAG", "mixed", "few", -1, False), ("SSSS", "mixed", "few", -1, False)]
        rows += [("GGGG", "whole", "two", -1, False, "prefix", "p"), ("SGSG", "attr:n", "two", -1, False, "plain", "d")]
        rows += [("SSSS", "whole", "few", -1, False, "plain", "p", 0), ("SASG", "attr+fn", "few", -1, False, "plain", "p", 0)]
    return rows


def dag_cases(quick):
    """Family 'dag', simplest first."""
    for k in (1, 2, 3) if quick else (1, 2, 3, 4):
        decls = [list(p) for p in itertools.permutations(range(k))]
        few = [d for i, d in enumerate(decls) if i in (0, len(decls) - 1, 9, 14)]
        dags = [g for g in sorted(all_digraphs(k), key=len) if acyclic(k, g)]
        plan = dag_plan(k, quick)
        for edges in dags:
            closing_edges = [
                (s, t) for s in range(k) for t in range(k) if (s, t) not in edges and not acyclic(k, edges + [(s, t)])
            ]
            for row in plan:
                kinds, variant, decl_mode, level, with_closing, names, par, groups = _fill(row, 8, ("plain", "p", 1))
                more = {} if names == "plain" else {"names": names}
                if groups == 0:
                    more["groups"] = 0
                    if any(kinds[s] in "GT" or kinds[t] in "GT" for s, t in edges):
                        continue  # a class group that is not instantiated can neither feed nor be fed
                links = links_for(edges, variant, par)
                if variant == "multi" and all(len(l["s"]) == 1 for l in links):
                    continue  # no node with two in-edges: same shapes as "attr+fn" / "whole+fn"
                if variant == "mixed" and len(edges) < 2 and k < 4:
                    continue
                orders = (link_orders(links, max(level, 0)) if links else [[]])[: 1 if level < 0 else None]
                if links:
                    for decl in {"all": decls, "few": few, "two": few[:2], "first": decls[:1]}[decl_mode]:
                        for lo in orders:
                            yield {"layer": "dag", "kinds": kinds, "decl": decl, "links": lo, **more}
                # every single extra link that closes a cycle (self-loops included).  The declaration order cannot
                # matter for the link graph: first order only (thorough: also the last)
                if with_closing:
                    for s, t in closing_edges:
                        cl = links_for([(s, t)], variant, par)[0]
                        if any(l["t"] == cl["t"] and l["p"] == cl["p"] for l in links):
                            cl["p"] = "p3" if cl["p"] != "p3" else "p2"
                        for decl in (decls[0],) if (quick or k == 1 or k == 4) else (decls[0], decls[-1]):
                            for lo in orders[:2]:
                                yield {"layer": "dag", "kinds": kinds, "decl": decl, "links": lo + [cl], **more}
        # class groups whose link-fed parameters are class-typed (a whole-object link then replaces a subclass action)
        if k > 1:
            for edges in dags:
                if not edges:
                    continue
                links = links_for(edges, "whole")
                for kinds in ["T" * k, ("TS" * k)[:k], ("GT" * k)[:k]][: 1 if k == 4 else 3]:
                    for decl in decls if k < 4 else few[:2]:
                        for lo in link_orders(links, 0):
                            yield {"layer": "dag", "kinds": kinds, "decl": decl, "links": lo}


def _subsets(cands, sizes, need=None):
    for size in sizes:
        for combo in itertools.combinations(range(len(cands)), size):
            links = [cands[i] for i in combo]
            if len({(l["t"], l["p"]) for l in links}) < len(links):
                continue  # two links into one parameter: not this property's business
            if need is not None and not any(need(l) for l in links):
                continue
            yield links


def _touches(links, nodes):
    return any(l["t"] in nodes or any(n in nodes for n, _ in l["s"]) for l in links)


# reference graphs of the nested families without a parser (for filters of the enumeration)
REF = {
    "hier": {"nodes": dict.fromkeys(("sa", "sb", "L0", "L1", "L2")), "nesting": [("L2", "L1"), ("L1", "L0")]},
    "within": {"nodes": dict.fromkeys("abcHX"), "nesting": [("a", "H"), ("b", "H"), ("c", "H")]},
}


def hier_links(root_kind, variant, par="p"):
    how, fn = parse_variant(variant)
    down = [{"s": [[src, how]], "t": lvl, "p": p, "fn": fn} for src, p in (("sa", par + "a"), ("sb", par + "b")) for lvl in ("L0", "L1", "L2")]
    up = [
        {"s": [[lvl, how]], "t": tgt, "p": par + "r", "fn": fn}
        for lvl in (["L0", "L1"] if root_kind == "G" else ["L0"])
        for tgt in ("sa", "sb")
    ]
    return down, up


def hier_cases(quick):
    """Family 'hier': first the planned space (the two components feed the three levels: nested target prefixes, the
    shape repaired in 4.37), then link sets in which a level is also a source."""
    decls = [list(p) for p in itertools.permutations(["sa", "sb", "root"])]
    some = (decls[0], decls[3], decls[5])
    # rows (variant, sizes, kinds of sa/sb, link-order level (-1: as listed) [, name scheme, target parameters, declaration orders])
    if quick:
        plan = [("whole", (1, 2), ("GG", "SG"), 0), ("whole", (3,), ("GG",), 0), ("attr+fn", (1, 2), ("GG",), 0)]
        # prefix-related names around `root` (roo / root2); None-valued attribute of the components (S: subclass sources)
        plan += [("whole", (1, 2), ("GG",), -1, "prefix", "p", some), ("attr:n", (1,), ("SS",), -1, "plain", "d", some[:2])]
        # instantiate_groups=False: the components are subclass arguments; a class group root stays configuration
        # (only its class-typed child / grandchild are built and can be fed)
        plan += [("whole", (1, 2), ("SS",), -1, "plain", "p", some, 0), ("attr+fn", (1,), ("SS",), -1, "plain", "p", some[:2], 0)]
    else:
        plan = [("whole", (1, 2, 3), ("GG", "SG", "GS", "SS"), 1), ("whole", (4, 5, 6), ("GG", "SG"), 0)]
        plan += [("attr+fn", (1, 2, 3), ("GG", "SG"), 1), ("attr+fn", (4, 5, 6), ("GG",), 0), ("attr", (1, 2, 3), ("GG",), 0)]
        plan += [("whole", (1, 2, 3), ("GG",), -1, "prefix", "p", decls)]
        plan += [(v, (1, 2), ("SS",), -1, "plain", "d", decls) for v in ("attr:n", "attr:n+fn")]
        plan += [(v, (1, 2), ("SS", "SA"), 0, "plain", "p", decls, 0) for v in ("whole", "attr+fn")]
        plan += [("whole", (3,), ("SS",), -1, "plain", "p", decls, 0)]
    for row in plan:
        variant, sizes, src_list, level, names, par, decl_list, groups = _fill(row, 8, ("plain", "p", decls, 1))
        more = {} if names == "plain" else {"names": names}
        if groups == 0:
            more["groups"] = 0
        for root_kind in ("G", "S"):
            down, up = hier_links(root_kind, variant, par)
            for links in _subsets(down, sizes):
                for src_kinds in src_list:
                    if groups == 0 and _touches(links, hier_groups(root_kind, src_kinds)):
                        continue
                    for decl in decl_list:
                        for lo in link_orders(links, max(level, 0))[: 1 if level < 0 else None]:
                            yield {"layer": "hier", "root": root_kind, "src": src_kinds, "decl": decl, "links": lo, **more}
    # link sets in which a level is also a source
    up_plan = [("whole", "plain", "p"), ("attr+fn", "plain", "p")]
    # ... with prefix-related names, and with a None / falsy attribute of a level as the source value
    up_plan += [("attr:n", "plain", "d")] if quick else [("whole", "prefix", "p"), ("attr:n", "plain", "d"), ("attr:n+fn", "plain", "d")]
    # ... and with instantiate_groups=False (sources: a subclass-argument root, or the class-typed child of a group root)
    up_plan += [("whole", "plain", "p", 0)] if quick else [("whole", "plain", "p", 0), ("attr+fn", "plain", "p", 0)]
    for row in up_plan:
        variant, names, par, groups = _fill(row, 4, (1,))
        new = (names, par, groups) != ("plain", "p", 1)
        more = {} if names == "plain" else {"names": names}
        if groups == 0:
            more["groups"] = 0
        for root_kind in ("G", "S"):
            down, up = hier_links(root_kind, variant, par)
            for links in _subsets(down + up, (1, 2) if quick or new else (1, 2, 3), need=lambda l: l["t"] in ("sa", "sb")):
                if groups == 0 and (_touches(links, hier_groups(root_kind, "SS")) or not ref_acyclic(REF["hier"], links)):
                    continue  # the mode only matters at the instantiate call: refusals are judged in the default mode
                for src_kinds in ("SS",) if groups == 0 else ("GG",) if quick or new or variant != "whole" else ("GG", "SG"):
                    for decl in ((decls[0], decls[5]) if new else some) if quick else decls:
                        for lo in link_orders(links, 0 if quick else 2)[: 1 if new else None]:
                            yield {"layer": "hier", "root": root_kind, "src": src_kinds, "decl": decl, "links": lo, **more}


def within_links(variant, par="p"):
    how, fn = parse_variant(variant)
    q = "q" if par == "p" else "d"
    sib = [{"s": [[s, how]], "t": t, "p": q + s, "fn": fn} for s in "abc" for t in "abc" if s != t]
    outer = [{"s": [["X", how]], "t": t, "p": q + "s", "fn": fn} for t in ("a", "b", "c", "H")]
    outer.append({"s": [["H", how]], "t": "X", "p": par + "r", "fn": fn})
    return sib, outer


def within_cases(quick):
    """Family 'within': links between sibling objects inside one class-typed argument (delegated to the argument's
    own parser, where the same ordering code runs), combined with links from / to a separate component."""
    # rows (variant, sizes, kinds of h / sa, link-order level (-1: as listed) [, name scheme, target parameters])
    if quick:
        plan = [("whole", (1, 2, 3), (("S", "G"),), 0), ("attr+fn", (1, 2), (("S", "G"),), 0)]
        # prefix-related names of the argument and the outside component (h / h2, either way round); None-valued
        # attribute of a sibling / of the holder / of the component as the source value
        plan += [("whole", (1, 2), (("S", "G"),), -1, "prefix", "p"), ("whole", (1,), (("S", "S"),), -1, "prefix-rev", "p")]
        plan += [("attr:n", (1, 2), (("S", "G"),), -1, "plain", "d"), ("attr:n+fn", (1,), (("A", "S"),), -1, "plain", "d")]
        # instantiate_groups=False (argument and outside component class-typed)
        plan += [("whole", (1, 2), (("S", "S"),), -1, "plain", "p", 0), ("attr+fn", (1,), (("A", "S"),), -1, "plain", "p", 0)]
    else:
        plan = [("whole", (1, 2, 3), (("S", "G"), ("A", "G"), ("S", "S")), 2), ("whole", (4,), (("S", "G"),), 0)]
        plan += [("attr+fn", (1, 2, 3), (("S", "G"), ("A", "S")), 0), ("attr", (1, 2), (("S", "G"),), 0)]
        plan += [("whole", (1, 2), (("S", "G"), ("A", "S")), 0, names, "p") for names in ("prefix", "prefix-rev")]
        plan += [(v, (1, 2), (("S", "S"),), -1, "plain", "d") for v in ("attr:n", "attr:n+fn", "attr:z")]
        plan += [(v, (1, 2), (("S", "S"), ("A", "A")), 0, "plain", "p", 0) for v in ("whole", "attr+fn")]
        plan += [("whole", (3,), (("S", "S"),), -1, "plain", "p", 0)]
    for row in plan:
        variant, sizes, kind_list, level, names, par, groups = _fill(row, 7, ("plain", "p", 1))
        more = {} if names == "plain" else {"names": names}
        if groups == 0:
            more["groups"] = 0
        sib, outer = within_links(variant, par)
        for links in _subsets(sib + outer, sizes):
            if groups == 0 and not ref_acyclic(REF["within"], links):
                continue  # the mode only matters at the instantiate call: refusals are judged in the default mode
            only_sib = all(l["t"] in "abc" and l["s"][0][0] in "abc" for l in links)
            if only_sib and names != "plain" and len(links) > 1:
                continue  # the outside component takes no part: its name cannot matter beyond the single links
            for hk, xk in kind_list:
                for decl in (["h", "sa"], ["sa", "h"]):
                    if quick and only_sib and decl[0] == "sa":
                        continue
                    for lo in link_orders(links, max(level, 0))[: 1 if level < 0 else None]:
                        yield {"layer": "within", "h": hk, "x": xk, "decl": decl, "links": lo, **more}


# ---- operation histories with an aborted instantiation (fault points) ---------------------------------
# case["fault"] = [what, index, exc]: the index-th constructor call (what = "ctor") or compute_fn call ("fn") of the
# FIRST instantiate_classes raises (exc "R": a RuntimeError subclass, "V": a ValueError subclass); then the same
# parser instantiates the same configuration again and a freshly parsed one, both judged by the full oracle.
# Every fault point of a case is enumerated: one per constructor call of a clean run (= number of classes) and one
# per compute_fn call (= number of links with a compute_fn).

CTOR_CALLS = {"hier": 5, "within": 5}


def fault_points(case, excs):
    n_ctor = CTOR_CALLS.get(case["layer"]) or len(case["kinds"])
    n_fn = sum(l["fn"] for l in case["links"])
    for exc in excs:
        for what, n in (("ctor", n_ctor), ("fn", n_fn)):
            for index in range(n):
                yield [what, index, exc]


def fault_plan(k, quick):
    """Rows (kinds, variant, link-order level (-1: as listed only), declaration orders 'all' | 'few', exception kinds)."""
    gsa = ["".join(p) for p in itertools.product("GSA", repeat=k)]
    gs = ["".join(p) for p in itertools.product("GS", repeat=k)]
    rows = []
    if k == 2:
        rows += [(kinds, v, 0, "all", "RV" if v in ("whole", "attr+fn") or not quick else "R") for kinds in gsa for v in VARIANTS]
        rows += [(kinds, "whole", 0, "all", "R") for kinds in ("TT", "TS", "GT")]
    elif k == 3 and quick:
        rows += [("GGG", "whole", -1, "all", "R"), ("GGG", "attr+fn", -1, "all", "R"), ("GGG", "multi", -1, "few", "R")]
        rows += [("GSG", "whole", -1, "few", "R"), ("SGS", "attr+fn", -1, "few", "R")]
    elif k == 3:
        rows += [("GGG", v, 0, "all", "RV") for v in ("whole", "attr+fn", "multi", "mixed")]
        rows += [(kinds, v, -1, "all", "R") for kinds in ("GSG", "SGS", "SSS", "AAA") for v in ("whole", "attr+fn")]
        rows += [("TTT", "whole", -1, "all", "R")]  # class-typed parameters only accept whole objects
    else:
        rows += [("GGGG", "whole", -1, "two", "R")]
    return rows


def fault_cases(quick):
    """Every fault point of every planned acyclic link set (simplest first)."""
    more = {}
    for k in (2, 3) if quick else (2, 3, 4):
        decls = [list(p) for p in itertools.permutations(range(k))]
        few = [d for i, d in enumerate(decls) if i in (0, len(decls) - 1, 9, 14)]
        dags = [g for g in sorted(all_digraphs(k), key=len) if g and acyclic(k, g)]
        for edges in dags:
            for kinds, variant, level, decl_mode, excs in fault_plan(k, quick):
                links = links_for(edges, variant)
                if variant == "multi" and all(len(l["s"]) == 1 for l in links):
                    continue
                if variant == "mixed" and len(edges) < 2:
                    continue
                for decl in {"all": decls, "few": few, "two": few[:2]}[decl_mode]:
                    for lo in link_orders(links, max(level, 0))[: 1 if level < 0 else None]:
                        base = {"layer": "dag", "kinds": kinds, "decl": decl, "links": lo, **more}
                        for fault in fault_points(base, excs):
                            yield {**base, "fault": fault}
    # nested targets (hier, downward link sets) and links handled by the parser of a class-typed argument (within)
    for root_kind in ("G", "S"):
        down, _ = hier_links(root_kind, "whole")
        for links in _subsets(down, (1,) if quick else (1, 2)):
            for decl in (["sa", "sb", "root"],) if quick else (["sa", "sb", "root"], ["root", "sb", "sa"]):
                base = {"layer": "hier", "root": root_kind, "src": "GG", "decl": decl, "links": links, **more}
                for fault in fault_points(base, "R"):
                    yield {**base, "fault": fault}
    for variant in ("whole",):
        sib, outer = within_links(variant)
        if quick:  # one sibling link in each direction of the declaration order, and every link from / to outside
            sib = [l for l in sib if (l["s"][0][0], l["t"]) in (("a", "b"), ("c", "a"))]
            outer = [l for l in outer if l["t"] in ("b", "H", "X")]
        for links in _subsets(sib + outer, (1,) if quick else (1, 2)):
            base = {"layer": "within", "h": "S", "x": "G", "decl": ["h", "sa"], "links": links, **more}
            if not ref_acyclic(REF["within"], links) or _within_tags(links):
                continue  # refused / known-weak shapes are judged by the plain family
            for fault in fault_points(base, "R"):
                yield {**base, "fault": fault}


FAMILIES = [("dag", dag_cases), ("hier", hier_cases), ("within", within_cases), ("faults", fault_cases)]


# =================================================================================================
# driver glue


def run_case(case):
    if case["layer"] == "graph":
        sig, detail, _ = judge_graph(case["n"], [tuple(e) for e in case["edges"]])
        return [{"signature": sig, "detail": detail}] if sig else []
    devs, _ = run_history(case)
    return [{"signature": s, "detail": d} for s, d in devs]


_WARM = set()


def _plain(case):
    return {k: v for k, v in case.items() if k != "fault"}


def _isolated(cases):
    """[run_e2e(c) for c in cases] in a forked child of this worker: whatever an aborted call leaves behind in
    process-wide state (context variables, caches, class attributes) of the implementation dies with the child, so a
    fault history can never influence a case outside the child; the histories themselves are judged inside the
    child, where the leftovers are visible."""
    import os
    import pickle

    r, w = os.pipe()
    pid = os.fork()
    if pid == 0:
        try:
            os.close(r)
            with os.fdopen(w, "wb") as f:
                pickle.dump([run_e2e(c) for c in cases], f)
        finally:
            os._exit(0)
    os.close(w)
    with os.fdopen(r, "rb") as f:
        data = f.read()
    os.waitpid(pid, 0)
    return pickle.loads(data)


def run_histories(cases):
    """Fault histories of one shard -> [(deviations, stats)].  First all of them in ONE forked child (cheap); if
    any deviates, the whole shard is done again with one child PER history, so that every reported witness was
    observed in a process that had seen no other aborted call and reproduces from a fresh process.  A history is
    reported under "after-aborted-instantiation:" only when the same case WITHOUT the fault is clean on a fresh
    parser in the worker itself (which never executes a fault); otherwise the break is not history dependent and
    keeps its plain signature."""
    for case in cases:
        warm = repr((case["layer"], case.get("kinds"), case.get("root"), sorted({link_shape(l) for l in case["links"]})))
        if warm not in _WARM:  # fill the implementation's caches (signatures, docstrings) in the worker, not in every child
            _WARM.add(warm)
            run_e2e(_plain(case))
    results = _isolated(cases)
    if any(devs for devs, _ in results):
        results = [_isolated([case])[0] for case in cases]
    out = []
    for case, (devs, stats) in zip(cases, results):
        if devs:
            plain, _ = run_e2e(_plain(case))
            devs = plain or devs
        out.append((devs, stats))
    return out


def _default_mode(case):
    return {k: v for k, v in case.items() if k != "groups"}


def run_mode(case):
    """One case without a fault.  A case run with instantiate_groups=False that deviates is compared with the same
    case in the default mode (itself a valid case: the groups are then instantiated too): if that deviates as well,
    the break does not depend on the mode and keeps its plain signature, so that the prefix
    "instantiate_groups-false:" names only what the mode changes."""
    devs, stats = run_e2e(case)
    if devs and case.get("groups") == 0:
        plain, _ = run_e2e(_default_mode(case))
        devs = plain or devs
    return devs, stats


def run_history(case):
    """Replay of one case in a fresh process: for a fault history the plain comparison first, then the history -
    the same two observations as in run_histories, in an equally clean order."""
    if "fault" in case:
        plain, stats = run_e2e(_plain(case))
        if plain:
            return plain, stats
        return run_e2e(case)
    return run_mode(case)


def e2e_worker(cases):
    out = {"cases": 0, "calls": 0, "rejected": 0, "instantiated": 0, "nontrivial": 0, "flagged": 0, "devs": []}
    out["expect_refuse"] = out["expect_instantiate"] = 0
    out["orders"], out["shapes"] = set(), set()
    out["aborted"] = out["aborted_late"] = out["fault_fired"] = out["fault_histories"] = 0
    out["prefix_named"] = out["falsy_valued"] = out["no_groups"] = out["no_groups_with_group"] = 0
    F = _fx()
    faulty = [c for c in cases if "fault" in c]
    results = [(c, run_mode(c)) for c in cases if "fault" not in c] + (list(zip(faulty, run_histories(faulty))) if faulty else [])
    for case, (devs, stats) in results:
        out["fault_histories"] += "fault" in case
        out["no_groups"] += stats.get("no_groups", 0)
        out["no_groups_with_group"] += bool(stats.get("no_groups", 0) and SETUP[case["layer"]](case, F)["groups"])
        out["prefix_named"] += "names" in case
        out["falsy_valued"] += any(how in FALSY_HOWS for l in case["links"] for _, how in l["s"])
        for k in ("aborted", "aborted_late", "fault_fired"):
            out[k] += stats.get(k, 0)
        out["shapes"].update(stats.get("shapes", ()))
        if "order" in stats:
            out["orders"].add(stats["order"])
        out["cases"] += 1
        out["calls"] += stats.get("calls", 0)
        out["rejected"] += stats.get("rejected", 0)
        out["instantiated"] += stats.get("instantiated", 0)
        out["nontrivial"] += len(case["links"]) >= 2
        out["expect_" + stats["expect"]] += 1
        out["flagged"] += bool(SETUP[case["layer"]](case, F)["tags"](case["links"]))
        for sig, detail in devs:
            out["devs"].append((sig, case, detail))
    return out


def _chunks(it, size):
    buf = []
    for x in it:
        buf.append(x)
        if len(buf) == size:
            yield buf
            buf = []
    if buf:
        yield buf


def explore(ctx):
    quick = ctx.quick
    # ---- layer 1
    g = {"graphs": 0, "acyclic": 0, "cyclic": 0, "runs": 0, "calls": 0, "nontrivial": 0, "orders_max": 0}
    for out in ctx.pmap(graph_worker, graph_items(quick), chunk=1):
        for k in ("graphs", "acyclic", "cyclic", "runs", "calls", "nontrivial"):
            g[k] += out[k]
        g["orders_max"] = max(g["orders_max"], out["orders_max"])
        for sig, (case, detail, n) in out["devs"].items():
            for _ in range(n):
                ctx.deviation(sig, case, detail)
    for k, v in g.items():
        ctx.count("graph_" + k, v)
    ctx.sample({"layer": "graph", "n": 3, "edges": [[0, 1], [1, 2], [0, 2]]})
    ctx.sample({"layer": "graph", "n": 4, "edges": [[3, 0], [0, 1], [1, 3]]})

    # ---- layer 2
    keys = ("cases", "calls", "rejected", "instantiated", "nontrivial", "flagged", "expect_refuse", "expect_instantiate")
    keys += ("fault_histories", "aborted", "aborted_late", "fault_fired", "prefix_named", "falsy_valued", "no_groups", "no_groups_with_group")
    e = dict.fromkeys(keys, 0)
    fam = {}
    for name, gen in FAMILIES:
        f = dict.fromkeys(keys, 0)
        orders, shapes = set(), set()
        for out in ctx.pmap(e2e_worker, _chunks(gen(quick), 25), chunk=1):
            orders |= out["orders"]
            shapes |= out["shapes"]
            for k in keys:
                f[k] += out[k]
            for sig, case, detail in out["devs"]:
                ctx.deviation(sig, case, detail)
        for k in keys:
            e[k] += f[k]
            ctx.count(f"{name}_{k}", f[k])
        f["distinct_construction_orders"] = len(orders)
        f["all_orders_of_three_components_seen"] = all(
            ">".join(f"K{i}" for i in perm) in orders for perm in itertools.permutations(range(3))
        )
        f["link_shapes_judged"] = sorted(shapes)
        fam[name] = f
        shown = 0
        for c in gen(quick):
            if len(c["links"]) >= 2 + shown:
                ctx.sample(c)
                shown += 1
                if shown == 2:
                    break

    ctx.cover(
        states=g["graphs"] + e["cases"],
        transitions=g["calls"] + e["calls"],
        traces_validated_against_impl=g["runs"] + e["cases"],
        evaluations=g["runs"] + e["cases"],
        distinct_nontrivial=g["nontrivial"] + e["nontrivial"],
        rule="layer graph: one evaluation = one digraph in one edge-insertion order given to the real DirectedGraph; "
        "families dag/hier/within: one evaluation = one fresh parser with its links added one by one, then parsed and "
        "instantiated twice (or the cycle-closing link refused). Every enumerated case is distinct by construction; "
        "non-trivial = digraph with >= 2 edges (counted once per graph, not per insertion order) or parser case "
        "with >= 2 links",
        exhaustive=True,
        caps_hit=[],
        bounds={
            "graph_nodes": 5,
            "graph_self_loops_upto_nodes": 3 if quick else 4,
            "graph_orders": "5 nodes: canonical + all orders when <= 4 edges (quick) / 5 systematic orders + all "
            "orders when <= 5 edges (thorough); <= 4 nodes: 5 systematic orders + all orders when <= 4 / 5 edges",
            "dag_components": 3 if quick else 4,
            "hier_links": "<= 3 into the levels, <= 2 with a level as source" if quick else "<= 6 into the levels, <= 3 with a level as source",
            "within_links": 3 if quick else 4,
            "component_names": "plain c0..c3 everywhere; prefix-related names (n/n2/n2x, n/n_e/n_e_m, g.n/g.n2/g.n2x): "
            "dag k <= 2 all kinds, k = 3 the rows of dag_plan; hier roo/root/root2; within h/h2 both ways round",
            "source_values": "whole object, attribute holding an object, None, 0, '', False, [], a falsy object; the "
            "None / falsy ones into parameters with a non-None default: dag k <= 2 all kinds x {alone, compute_fn, "
            "first of a multi-source compute_fn}, k = 3 / hier / within the None (and 0) rows of the plans",
            "call_mode": "instantiate_classes(cfg) everywhere; instantiate_groups=False: dag k <= 2 all of {S,A}^2 x all "
            "shapes, k = 3 every DAG x every declaration order for the kind rows of dag_plan (incl. a class group that "
            "stays configuration); hier / within: link sets of <= 2 links between class-typed nodes",
            "fault_histories": "every constructor / compute_fn call of the first instantiation as fault point; dag: all "
            "DAGs on 2 components x all kinds x all shapes, on 3 components for the kind/shape rows of fault_plan"
            + ("" if quick else ", on 4 components GGGG") + "; hier: downward link sets of <= "
            + ("1" if quick else "2") + " links; within: " + ("5 representative single links" if quick else "<= 2 links"),
        },
        graph=g,
        families=fam,
    )
    ctx.assume("the fixed component names (c0..c3, n/n2/n2x, n/n_e/n_e_m, g.n/g.n2/g.n2x; sa, sb, roo, root, root2; h, h2, sa) and PYTHONHASHSEED=0 fix the iteration order of the targets set")
    ctx.assume("reference dependency graph = link edges + nesting edges (an object is built before the object that receives it)")
    # guards on the enumeration itself (independent of what the implementation did)
    ctx.require(g["acyclic"] > 500 and g["cyclic"] > 500, "layer graph saw > 500 acyclic and > 500 cyclic digraphs")
    ctx.require(g["orders_max"] >= 24, "all 24 insertion orders of a 4-edge graph were explored")
    ctx.require(fam["dag"]["expect_instantiate"] > 1000, "dag family: > 1000 acyclic link sets to instantiate")
    ctx.require(fam["dag"]["expect_refuse"] > 100, "dag family: > 100 cycle-closing links to refuse")
    ctx.require(fam["hier"]["expect_instantiate"] - fam["hier"]["flagged"] > 300, "hier family: > 300 acyclic link sets of un-flagged shape")
    ctx.require(fam["within"]["expect_instantiate"] > 100 and fam["within"]["expect_refuse"] > 100, "within family: > 100 acyclic and > 100 cyclic link sets")
    ctx.require(fam["faults"]["fault_histories"] > 1500 and fam["faults"]["fault_histories"] == fam["faults"]["cases"], "faults family: > 1500 histories with an aborted instantiation")
    ctx.require(
        fam["dag"]["prefix_named"] > 1000 and fam["hier"]["prefix_named"] > 100 and fam["within"]["prefix_named"] > 50,
        "prefix-related component names: > 1000 dag, > 100 hier, > 50 within cases",
    )
    ctx.require(
        fam["dag"]["falsy_valued"] > 400 and fam["hier"]["falsy_valued"] > 50 and fam["within"]["falsy_valued"] > 50,
        "None / falsy source attribute values: > 400 dag, > 50 hier, > 50 within cases",
    )
    ctx.require(
        fam["dag"]["no_groups"] > (600 if quick else 4000) and fam["hier"]["no_groups"] > 100 and fam["within"]["no_groups"] > 80
        and fam["dag"]["no_groups_with_group"] > 10 and fam["hier"]["no_groups_with_group"] > 20,
        "instantiate_groups=False: > 600 dag, > 100 hier, > 80 within cases planned in that mode, some with a class group left alone",
    )
    # guards on what the implementation was seen doing: they protect a PASS verdict only.  When the run reports a
    # violation anyway (a deviation that is not a known finding) they are moot and must not turn it into exit 2.
    from mc.core import load_known

    known = {e.get("signature") for e in load_known("C16") if e.get("status") == "open"}
    if all(sig in known for sig in ctx.deviations):
        ctx.require(fam["dag"]["instantiated"] > 1000, "dag family instantiated > 1000 parsers")
        ctx.require(fam["dag"]["rejected"] > 100, "dag family saw > 100 cycle-closing links refused")
        ctx.require(fam["dag"]["all_orders_of_three_components_seen"], "dag family observed all 6 construction orders of three components")
        ctx.require(
            set(fam["dag"]["link_shapes_judged"]) >= {"whole", "attr", "whole+fn", "attr+fn", "multi+fn"},
            "every link shape (whole / attr / +fn / multi) was judged by the constructor log",
        )
        ctx.require(
            set(fam["dag"]["link_shapes_judged"]) >= {"attr-none", "attr-none+fn", "multi-none+fn", "attr-falsy", "attr-falsy+fn", "multi-falsy+fn"}
            and {"attr-none"} <= set(fam["hier"]["link_shapes_judged"]) & set(fam["within"]["link_shapes_judged"]),
            "links carrying None / a falsy attribute value (alone, through compute_fn, multi-source) were judged delivered",
        )
        ctx.require(fam["hier"]["instantiated"] - fam["hier"]["flagged"] > 300, "hier family instantiated > 300 parsers of un-flagged shape")
        ctx.require(fam["within"]["instantiated"] > 100, "within family instantiated > 100 parsers")
        ctx.require(
            fam["faults"]["fault_fired"] == fam["faults"]["fault_histories"] and fam["faults"]["aborted"] > 1500,
            "faults family: every armed fault point was reached and > 1500 first instantiations were aborted by it",
        )
        ctx.require(fam["faults"]["aborted_late"] > 1000, "faults family: > 1000 instantiations aborted after at least one class had been constructed")
