"""C18 - save never destroys data: all-or-nothing on failure, no silent overwrite; a successful save re-parses.

Fault enumeration on the real `ArgumentParser.save` over a scratch directory tree.  A case is

    (components of the parser  x  where the configuration came from (sub-files)  x  directory layout
     x  multifile  x  overwrite  x  format / extension / skip_none / skip_validation
     x  which destinations already exist (and with what content)  x  ONE failure point)

and is executed from scratch: write the input files, build a fresh parser, `parse_path` the main input
(so sub-configs carry their `__path__`), place the fault, create the pre-existing files, snapshot the whole
scratch tree (names, sizes, content hashes, directories), call `save`, snapshot again.  Failure points:

  (a) invalid   the value at ONE key (every leaf of the main config and of every sub-config in turn) is invalid,
                a required key is missing, or an unknown key is present;
  (b) unser     ONE value of a registered type (every position in turn) is valid but its serialiser raises; ONE value
                (every `Any`-typed position in turn; every leaf in turn when validation is switched off) is an object
                that passes the per-argument serialisers but that the dumper (yaml / json) cannot represent;
  (c) refusal   `overwrite=False` and a destination exists (arises from the pre-existing axis: every subset of the
                destinations); like (a) and (b) a failure that save() decides by itself before anything needs to be
                written, so it is judged all-or-nothing too (clause 2b: a refusal at a later sub-file must not leave the
                earlier ones behind);
  (d) oserror   the k-th `open` / `write` / `close` raises OSError, for every k seen in the fault-free run of the
                same case (`builtins.open` is interposed by the harness for the duration of the save call only).

Name collisions among the destinations: sub-files with the same base name in different input directories (`names`),
and a target whose base name is that of one of the sub-file destinations (`tname`, every destination in turn): multi-file
mode is asked for two different contents in one file and must either refuse with the tree unchanged or write something
that parses back.

Spelling: the main input refers to its sub-files by bare name, through a sub-directory or by absolute path (`names`);
the target is a plain path, a relative path, a jsonargparse Path or a file:// URL of the local file (`target`).

Edits: on the fault-free bases with nothing pre-existing, every non-path leaf in turn gets another VALID value after
loading (`edit`); the saved path must parse back to the changed configuration.

History: after a fault-free save that returned, the SAME configuration object is saved once more with the same
arguments into another, empty directory (`saves: 2`); the second call is judged like the first (its own snapshot
pair, its own round trip against the configuration as it was before the first save).

The oracle is the statement, clause by clause (see `judge`).
"""
from __future__ import annotations

import errno
import hashlib
import itertools
import json
import os

META = {
    "id": "C18",
    "level": "fault_enumeration",
    "engine": "exhaustive fault-point enumeration on the real ArgumentParser.save over scratch directories "
    "(mc/checks/c18.py)",
    "technique": "bounded exhaustive product (parser components x layout x mode x overwrite x pre-existing files) "
    "x every single failure point (invalid key, raising serialiser, refusal, k-th open/write/close raising OSError); "
    "directory snapshot before/after as oracle, parse_path round trip on success",
    "level_text": "Every combination of the stated finite axes is executed on the unmodified save() with every "
    "single failure point that the fault-free run of the same case exhibits (each key for invalidity, each "
    "registered-type position for a raising serialiser, each open/write/close for an I/O error). The file system "
    "effects are read back completely (names, sizes, hashes, directories of the whole scratch tree), so 'nothing "
    "created, truncated or changed' is decided exactly for each case; on success the saved path is parsed again and "
    "compared with the configuration, including sub-configs that came from separate files and saved path contents.",
    "level_note": "Trusted: the snapshot/diff code and the canonical form of configurations in this file, "
    "builtins.open as the only way save() writes local files (checked: every file that changed was opened through "
    "the interposed open), the component alphabet. Single faults only (no pairs of I/O faults); I/O faults are "
    "whole-call failures (no short writes). Running as root: permission-based refusals are not reachable.",
    "design_ref": "DESIGN.md §5 C18",
}

FX = "mc.fixtures.c18.fx"
BYSTANDER = "bystander.txt"

# ------------------------------------------------------------------------------------------------------------
# component alphabet: what the parser contains besides the fixed main leaves, and where its value was loaded from


def _fx():
    import importlib

    return importlib.import_module(FX)


class Comp:
    """One component of a parser shape (an argument whose value may have been loaded from a separate file).

    `files` maps paths relative to the input directory to their text; with `shared` names every component keeps
    its file in a directory of its own (`<key>/shared.<ext>`), so that the base names collide when save() puts the
    sub-files next to the target."""

    def __init__(self, kind, idx, ext, names="own"):
        self.kind, self.ext = kind, ext
        self.key = k = f"{kind.lower()}{idx + 1}"
        i = idx  # makes the values of two components of the same kind differ
        shared = names == "shared"
        # how the main file refers to the sub-file: bare name next to it (own) | same base name in a directory per
        # component (shared) | through a sub-directory (subdir: 'parts/<key>.<ext>') | by its absolute path (abs)
        stem = f"{k}/shared" if shared else f"parts/{k}" if names == "subdir" else k
        sub = f"{stem}.{ext}"
        self.files = {}  # input files (path relative to the input directory -> text)
        self.dests = []  # base names written next to the target in multi-file mode, in no particular order
        self.leaves = []  # (address, type tag) for invalidity
        self.toks = []  # addresses of registered-type values (serialiser can be made to raise)
        self.anys = []  # addresses of `Any`-typed values (an object the dumper cannot represent is a VALID value there)
        self.from_file = True
        self.nonplain = False  # a file-loaded sub-config holding a value that is not a plain YAML/JSON type
        doc = None
        if kind in ("P", "Pi"):
            doc = {"x": 5 + i, "s": "q", "v": 7 + i}
            self.leaves = [([k, "x"], "int")]
            self.anys = [[k, "v"]]
        elif kind in ("Pt", "Pti"):
            doc = {"x": 5 + i, "t": "tok:q"}
            self.leaves = [([k, "x"], "int"), ([k, "t"], "tok")]
            self.toks = [[k, "t"]]
            self.nonplain = kind == "Pt"
        elif kind == "Pe":
            doc = {"x": 5 + i, "e": "B"}
            self.leaves = [([k, "x"], "int"), ([k, "e"], "enum")]
            self.nonplain = True
        elif kind == "N":
            deep = f"{stem}_deep.{ext}"
            doc = {"x": 5 + i, "deep": os.path.basename(deep)}
            self.files[deep] = json.dumps({"z": 9 + i})
            self.dests = [os.path.basename(deep)]
            self.leaves = [([k, "x"], "int"), ([k, "deep", "z"], "int")]
        elif kind == "C":
            doc = {"class_path": f"{FX}.Plain", "init_args": {"k": 2 + i, "name": "w"}}
            self.leaves = [([k, "init_args", "k"], "int")]
        elif kind == "Ct":
            doc = {"class_path": f"{FX}.Sub", "init_args": {"k": 2 + i, "t": "tok:q", "e": "B"}}
            self.leaves = [([k, "init_args", "k"], "int"), ([k, "init_args", "t"], "tok"), ([k, "init_args", "e"], "enum")]
            self.toks = [[k, "init_args", "t"]]
            self.nonplain = True
        elif kind == "D":
            doc = {"k1": 1 + i, "k2": 2}
            self.leaves = [([k, "k1"], "int")]
        elif kind == "G":
            doc = {"u": 7 + i, "v": "w"}
            self.leaves = [([k, "u"], "int")]
        elif kind == "J":
            sub = f"{stem}.json"  # a .json name takes the `is_json` branch of save_paths
            doc = {"n": 3 + i, "m": "w"}
            self.leaves = [([k, "n"], "int")]
        elif kind == "Jn":
            sub = f"{stem}.jsonnet"  # written back from the remembered source text (`__orig__`)
            self.files[sub] = '{"n": 1 + %d, "m": "w"}' % (2 + i)
            self.leaves = [([k, "n"], "int")]
        elif kind in ("F", "Fn"):
            sub = f"{stem}.{ext}" if shared else f"{stem}.txt"
            self.files[sub] = f"content of {k}\nsecond line\n"
            self.leaves = [([k], "path")]
        else:
            raise AssertionError(kind)
        self.main_value = sub
        if kind in ("Pi", "Pti"):
            self.from_file = False
            self.main_value = doc
        elif kind == "Fn":
            self.from_file = False  # nothing of it is written in multi-file mode
            self.main_value = "@ABS:" + sub
        else:
            if doc is not None:
                self.files[sub] = json.dumps(doc)
            self.dests.append(os.path.basename(sub))
            if names == "abs" and kind != "F":
                self.main_value = "@ABS:" + sub
        self.abs_path_value = names == "abs" and kind == "F"

    def add(self, parser):
        from typing import Any, Dict

        import jsonargparse

        fx = _fx()
        kind, opt = self.kind, "--" + self.key
        if kind in ("P", "Pi", "Pt", "Pti", "Pe", "N"):
            inner = jsonargparse.ArgumentParser(exit_on_error=False)
            inner.add_argument("--x", type=int, default=1)
            if kind in ("P", "Pi"):
                inner.add_argument("--s", type=str, default="s")
                inner.add_argument("--v", type=Any, default=None)
            if kind in ("Pt", "Pti"):
                inner.add_argument("--t", type=fx.Tok, default=fx.Tok("i"))
            if kind == "Pe":
                inner.add_argument("--e", type=fx.E, default=fx.E.A)
            if kind == "N":
                deep = jsonargparse.ArgumentParser(exit_on_error=False)
                deep.add_argument("--z", type=int, default=1)
                inner.add_argument("--deep", action=jsonargparse.ActionParser(parser=deep))
            parser.add_argument(opt, action=jsonargparse.ActionParser(parser=inner))
        elif kind in ("C", "Ct"):
            parser.add_argument(opt, type=fx.Base, enable_path=True)
        elif kind == "D":
            parser.add_argument(opt, type=Dict[str, int], enable_path=True)
        elif kind == "G":
            parser.add_class_arguments(fx.DC, self.key)
        elif kind == "J":
            schema = {
                "type": "object",
                "properties": {"n": {"type": "integer"}, "m": {"type": "string"}},
                "additionalProperties": False,
            }
            parser.add_argument(opt, action=jsonargparse.ActionJsonSchema(schema=schema))
        elif kind == "Jn":
            schema = {"type": "object", "properties": {"n": {"type": "integer"}, "m": {"type": "string"}}}
            parser.add_argument(opt, action=jsonargparse.ActionJsonnet(schema=schema))
        elif kind in ("F", "Fn"):
            from jsonargparse.typing import Path_fr

            parser.add_argument(opt, type=Path_fr)
            if kind == "F":
                parser.save_path_content.add(self.key)


def components(case):
    return [Comp(kind, i, case["ext"], case["names"]) for i, kind in enumerate(case["comps"])]


MAIN_LEAVES = [(["a"], "int"), (["t"], "tok"), (["r"], "int"), (["g", "x"], "int"), (["g", "t"], "tok"), (["e"], "enum"), (["o"], "int")]
MAIN_TOKS = [["t"], ["g", "t"]]
INVALID = {"int": "notint", "tok": 123, "enum": "Z", "path": "no-such-file.txt"}


def build_parser(comps):
    from typing import Optional

    import jsonargparse

    fx = _fx()
    fx.ensure_registered()
    p = jsonargparse.ArgumentParser(exit_on_error=False)
    p.add_argument("--cfg", action=jsonargparse.ActionConfigFile)
    p.add_argument("--a", type=int, default=0)
    p.add_argument("--t", type=fx.Tok, default=fx.Tok("m"))  # a registered-type value BEFORE the components
    for c in comps:
        c.add(p)
    p.add_argument("--r", type=int, required=True)
    p.add_argument("--g.x", type=int, default=0)
    p.add_argument("--g.t", type=fx.Tok, default=fx.Tok("gd"))  # ... and one AFTER them, inside a nested group
    p.add_argument("--e", type=fx.E, default=fx.E.A)
    p.add_argument("--o", type=Optional[int], default=None)
    return p


def main_document(comps, in_dir, absolute_paths):
    doc = {"a": 3, "t": "tok:m1"}
    for c in comps:
        v = c.main_value
        if isinstance(v, str) and v.startswith("@ABS:"):
            v = os.path.join(in_dir, v[5:])
        elif c.kind == "F" and (absolute_paths or c.abs_path_value):
            v = os.path.join(in_dir, v)
        doc[c.key] = v
    doc.update({"r": 4, "g": {"x": 6, "t": "tok:g1"}, "e": "B", "o": None})
    return doc


def fault_points(comps, skip_validation=False):
    """Every single failure point of classes (a) and (b) for this shape (class (d) comes from the fault-free trace)."""
    out = []
    leaves = list(MAIN_LEAVES)
    toks = list(MAIN_TOKS)
    anys = []
    for c in comps:
        leaves += c.leaves
        toks += c.toks
        anys += c.anys
    for addr, tag in leaves:
        out.append({"kind": "invalid", "how": "type", "at": addr, "tag": tag})
    out.append({"kind": "invalid", "how": "missing", "at": ["r"]})
    out.append({"kind": "invalid", "how": "extra", "at": ["zz"]})
    for c in comps:
        if c.kind in ("P", "Pt", "Pe", "Pi", "Pti", "N", "G"):
            out.append({"kind": "invalid", "how": "extra", "at": [c.key, "zz"]})
    for addr in toks:
        out.append({"kind": "unser", "at": addr})
    # an object that no dumper can represent: a VALID value at an `Any`-typed position; at every other leaf only
    # reachable when the caller has switched validation off (otherwise it is just one more invalid value, class (a))
    for addr in anys:
        out.append({"kind": "unser", "how": "opaque", "at": addr, "tag": "any"})
    if skip_validation:
        for addr, tag in leaves:
            out.append({"kind": "unser", "how": "opaque", "at": addr, "tag": tag})
    return out


def place_fault(cfg, fault, exc_kind):
    fx = _fx()
    kind = fault["kind"]
    if kind not in ("invalid", "unser"):
        return
    addr = fault["at"]
    node = cfg
    for seg in addr[:-1]:
        node = node[seg]
    if kind == "unser" and fault.get("how") == "opaque":
        node[addr[-1]] = fx.Opaque()
    elif kind == "unser":
        node[addr[-1]] = fx.Tok({"RuntimeError": "boom", "ValueError": "boomV", "TypeError": "boomT"}[exc_kind])
    elif fault["how"] == "missing":
        del node[addr[-1]]
    elif fault["how"] == "extra":
        node[addr[-1]] = 1
    else:
        node[addr[-1]] = INVALID[fault["tag"]]


def edit_points(comps, with_main):
    """Every leaf that can be given another VALID value after loading (the configuration the user saves is then not the
    one that the input files spell).  Path leaves are left alone (another file would be one more destination)."""
    leaves = list(MAIN_LEAVES) if with_main else []
    for c in comps:
        leaves += c.leaves
    return [{"at": addr, "tag": tag} for addr, tag in leaves if tag != "path"]


def place_edit(cfg, edit):
    fx = _fx()
    node = cfg
    for seg in edit["at"][:-1]:
        node = node[seg]
    old = node[edit["at"][-1]]
    if edit["tag"] == "int":
        new = (old if isinstance(old, int) else 0) + 100
    elif edit["tag"] == "tok":
        new = fx.Tok("edited")
    elif edit["tag"] == "enum":
        new = fx.E.C
    else:
        raise AssertionError(edit)
    node[edit["at"][-1]] = new


def fault_where(fault, comps):
    """'sub' = inside a sub-config that was loaded from its own file, 'main' = everything that lives in the main file."""
    if fault["kind"] not in ("invalid", "unser"):
        return "-"
    top = fault["at"][0]
    for c in comps:
        if c.key == top and c.from_file:
            return "sub"
    return "main"


# ------------------------------------------------------------------------------------------------------------
# directory snapshots


def snapshot(root):
    files, dirs = {}, set()
    for dp, dn, fn in os.walk(root):
        rel = os.path.relpath(dp, root)
        dirs.add(rel)
        for f in fn:
            p = os.path.join(dp, f)
            r = os.path.normpath(os.path.join(rel, f))
            if os.path.islink(p):
                files[r] = ["link", os.readlink(p)]
            else:
                with open(p, "rb") as fh:
                    data = fh.read()
                files[r] = [len(data), hashlib.sha1(data).hexdigest()[:12]]
    return files, dirs


def diff(before, after):
    (f0, d0), (f1, d1) = before, after
    out = []
    for r in sorted(set(f0) | set(f1)):
        if r not in f0:
            out.append([r, "created-empty" if f1[r][0] == 0 else "created"])
        elif r not in f1:
            out.append([r, "removed"])
        elif f0[r] != f1[r]:
            out.append([r, "emptied" if f1[r][0] == 0 else "modified"])
    for r in sorted(d0 ^ d1):
        out.append([r + "/", "dir-created" if r in d1 else "dir-removed"])
    return out


# ------------------------------------------------------------------------------------------------------------
# canonical form of a configuration (for the success clause)


def canon_cfg(v, jsonargparse):
    import enum

    if isinstance(v, jsonargparse.Namespace):
        # "cfg" is the ActionConfigFile bookkeeping key (the list of config files that were read), not configuration
        return {"ns": {k: canon_cfg(x, jsonargparse) for k, x in sorted(vars(v).items()) if not k.startswith("__") and k != "cfg"}}
    if isinstance(v, dict):
        return {"dict": {str(k): canon_cfg(x, jsonargparse) for k, x in sorted(v.items()) if k not in ("__path__", "__orig__")}}
    if isinstance(v, (list, tuple)):
        return [type(v).__name__, [canon_cfg(x, jsonargparse) for x in v]]
    if isinstance(v, jsonargparse.Path):
        # a path value is identified by its file name and the content it gives access to
        try:
            with open(v.absolute, "rb") as fh:
                content = hashlib.sha1(fh.read()).hexdigest()[:12]
        except OSError as ex:
            content = "unreadable:" + type(ex).__name__
        return ["path", os.path.basename(str(v.relative)), content]
    if isinstance(v, enum.Enum):
        return ["enum", type(v).__name__, v.name]
    if type(v).__name__ == "Tok":
        return ["Tok", v.s]
    return [type(v).__name__, repr(v)]


# ------------------------------------------------------------------------------------------------------------
# the save call with builtins.open interposed


def call_save(parser, cfg, target, kwargs, plan):
    import builtins

    from mc.core import Horizon, captured, horizon

    real_open = builtins.open
    st = {"n": {"open": 0, "write": 0, "close": 0}, "trace": [], "fired": False, "opened_w": set()}

    def hit(op, name):
        st["n"][op] += 1
        st["trace"].append([op, name])
        if plan and plan["op"] == op and plan["k"] == st["n"][op]:
            st["fired"] = True
            return OSError(errno.EIO, f"injected I/O error at {op} #{plan['k']}", name)
        return None

    class Proxy:
        def __init__(self, f, name):
            self._f, self._name, self._closed = f, name, False

        def write(self, data):
            err = hit("write", self._name)
            if err:
                raise err
            return self._f.write(data)

        def close(self):
            if self._closed:
                return
            self._closed = True
            err = hit("close", self._name)
            self._f.close()
            if err:
                raise err

        def __enter__(self):
            return self

        def __exit__(self, *a):
            self.close()
            return False

        def __getattr__(self, name):
            return getattr(self._f, name)

    def fake_open(file, mode="r", *a, **kw):
        try:
            name = os.path.basename(os.fspath(file))
        except TypeError:
            name = "<fd>"
        writing = any(c in mode for c in "wax+")
        err = hit("open", name + (":w" if writing else ":r"))
        if err:
            raise err
        f = real_open(file, mode, *a, **kw)
        if writing:
            st["opened_w"].add(os.path.realpath(os.fspath(file)))
            return Proxy(f, name)
        return f

    exc = None
    builtins.open = fake_open
    try:
        with captured():
            try:
                with horizon(20):
                    parser.save(cfg, target, **kwargs)
            except Horizon as ex:
                exc = ex
            except KeyboardInterrupt:
                raise
            except BaseException as ex:  # noqa: BLE001 - every way of not returning normally counts
                exc = ex
    finally:
        builtins.open = real_open
    return exc, st


# ------------------------------------------------------------------------------------------------------------
# one case


DEFAULTS = {
    "comps": [],
    "names": "own",  # own: bare sub-file names next to the main input | shared: same base name in different input directories
    # | subdir: referred to through a sub-directory ('parts/<key>.yaml') | abs: referred to by absolute path
    "edit": None,  # {"at": address, "tag": type}: that leaf gets another VALID value after loading, before the save
    "layout": "other",  # other: inputs in in/, target in out/ | inplace: save onto the loaded main file | sibling: same dir, new name
    "tname": "own",  # base name of the target: own (main.<ext> / saved.<ext>) | sub<i> = that of the i-th sub-file destination
    "target": "abs",  # abs | rel (cwd = scratch root, 'out/main.yaml') | relcwd (cwd = target dir, 'main.yaml') | pathobj
    # | fileurl ('file://' + absolute path: a local file spelled as a URL)
    "load": "parse_path",  # how the configuration was obtained: parse_path(main) | argv (parse_args(['--cfg=main']))
    "multifile": True,
    "overwrite": False,
    "format": "yaml",
    "ext": "yaml",
    "skip_none": True,
    "skip_validation": False,
    "exc": "RuntimeError",  # what the raising serialiser raises
    "pre": [],  # destinations (base names) that already exist
    "pre_content": "text",  # text | empty | symlink (a link to a file elsewhere in the tree)
    "fault": {"kind": "none"},
    "saves": 1,  # 2: after a fault-free save that returned, the same cfg object is saved again into another directory
}


def full_case(case):
    c = dict(DEFAULTS)
    c.update(case)
    return c


def slim_case(case):
    """Drop the axes that are at their default (smaller, more readable witnesses)."""
    return {k: v for k, v in case.items() if DEFAULTS.get(k, object()) != v or k in ("comps", "multifile", "overwrite", "fault")}


def destinations(case, comps):
    """(target base name, [distinct sub-file destination base names])"""
    main = "saved." + case["ext"] if case["layout"] == "sibling" else "main." + case["ext"]
    subs = []
    for c in comps:
        subs += [d for d in c.dests if d not in subs]
    if case.get("tname", "own") != "own":
        # name collision between the target and a sub-file: the main file is to be saved under the base name that the
        # i-th sub-file takes next to it in multi-file mode (in the `sibling` layout that is the loaded sub-file itself)
        main = subs[int(case["tname"][3:])]
    return main, subs


def pre_text(case, name):
    return "" if case["pre_content"] == "empty" else f"OLD CONTENT OF {name}\nwhich save must not lose silently\n"


def _fast_scratch():
    """Per-case scratch trees are created and removed ~30 000 times per run; on this machine rmdir on the disk-backed
    /tmp costs 4 ms, on tmpfs 0.04 ms.  mc.util.scratch_root() honours VERIF_TMP, so point it at /dev/shm when the
    caller has not chosen a place (must happen before the first scratch_dir() of the process)."""
    if "VERIF_TMP" not in os.environ and os.path.isdir("/dev/shm") and os.access("/dev/shm", os.W_OK | os.X_OK):
        os.environ["VERIF_TMP"] = "/dev/shm"


def execute(case, twin=None):
    """Run one case on the real code.  Returns {"devs": [(signature, detail)], "obs": {...}}.

    `twin` is the observation of the fault-free case of the same base configuration (computed here when needed):
    a failing-serialisation case whose outcome is *identical* to that of its fault-free twin (same exception type,
    same changes to the tree) adds nothing - the base fails already without the fault - and is attributed to the twin."""
    import jsonargparse

    from mc.core import HarnessError
    from mc.util import restored_process_state, scratch_dir

    _fast_scratch()
    case = full_case(case)
    fault = case["fault"]
    comps = components(case)
    mode = "multi" if case["multifile"] else "single"
    with restored_process_state(), scratch_dir() as root:
        root = os.path.realpath(root)
        same_dir = case["layout"] in ("inplace", "sibling")
        in_dir = os.path.join(root, "work" if same_dir else "in")
        out_dir = in_dir if same_dir else os.path.join(root, "out")
        os.makedirs(in_dir)
        os.makedirs(out_dir, exist_ok=True)
        main_name, sub_names = destinations(case, comps)
        main_in = os.path.join(in_dir, "main." + case["ext"])
        for c in comps:
            for name, text in c.files.items():
                os.makedirs(os.path.dirname(os.path.join(in_dir, name)), exist_ok=True)
                with open(os.path.join(in_dir, name), "w") as f:
                    f.write(text)
        with open(main_in, "w") as f:
            # interpretation: a relative path value is only meaningful relative to the directory of the file it is
            # read from (C19); where save() does not carry the file along (single-file mode into another directory)
            # the path value is given in absolute form
            f.write(json.dumps(main_document(comps, in_dir, not same_dir and not case["multifile"])))
        with open(os.path.join(out_dir, BYSTANDER), "w") as f:
            f.write("not involved\n")

        parser = build_parser(comps)
        try:
            if case["load"] == "argv":
                cfg = parser.parse_args([f"--cfg={main_in}"])
            else:
                cfg = parser.parse_path(main_in)
        except Exception as ex:
            raise HarnessError(f"C18 harness: the input of case {case} does not parse: {ex!r}")
        if case["edit"]:
            place_edit(cfg, case["edit"])
        reference = canon_cfg(jsonargparse.strip_meta(cfg), jsonargparse)
        place_fault(cfg, fault, case["exc"])

        pre = list(case["pre"]) if not same_dir else [n for n in case["pre"] if n == main_name and case["layout"] == "sibling"]
        for name in pre:
            dest = os.path.join(out_dir, name)
            if case["pre_content"] == "symlink":
                os.makedirs(os.path.join(root, "elsewhere"), exist_ok=True)
                real = os.path.join(root, "elsewhere", name)
                with open(real, "w") as f:
                    f.write(pre_text(case, name))
                os.symlink(real, dest)
            else:
                with open(dest, "w") as f:
                    f.write(pre_text(case, name))

        target_abs = os.path.join(out_dir, main_name)
        if case["target"] == "abs":
            cwd, target_arg = root, target_abs
        elif case["target"] == "rel":
            cwd, target_arg = root, os.path.relpath(target_abs, root)
        elif case["target"] == "pathobj":  # a jsonargparse Path that is relative to a directory other than the cwd
            cwd, target_arg = root, jsonargparse.Path(main_name, mode="fc", cwd=out_dir)
        elif case["target"] == "fileurl":  # the same local file, spelled as a file:// URL
            cwd, target_arg = root, "file://" + target_abs
        else:
            cwd, target_arg = out_dir, main_name
        os.chdir(cwd)
        kwargs = dict(
            format=case["format"],
            skip_none=case["skip_none"],
            skip_validation=case["skip_validation"],
            overwrite=case["overwrite"],
            multifile=case["multifile"],
        )
        plan = fault if fault["kind"] == "oserror" else None
        real_dests = {n: os.path.realpath(os.path.join(out_dir, n)) for n in [main_name] + sub_names}
        before = snapshot(root)
        exc, st = call_save(parser, cfg, target_arg, kwargs, plan)
        cwd_after = os.getcwd()
        os.chdir(root)
        after = snapshot(root)
        if plan and not st["fired"]:
            raise HarnessError(f"C18 harness: planned I/O fault {plan} did not fire (trace {st['trace']})")

        devs, obs = judge(case, comps, mode, root, out_dir, main_name, sub_names, real_dests, before, after, exc, st, cwd, cwd_after, reference)

        if case["saves"] > 1 and exc is None and fault["kind"] == "none":
            # history: the very same configuration object is saved once more with the same arguments, into an empty
            # directory (single-file mode next to the loaded files: same directory, new name - a relative path value is
            # not carried along, see the interpretation above).  Judged like the first call, against the configuration
            # as it was before the first save.
            if case["multifile"] or not same_dir:
                out2, main2 = os.path.join(root, "again"), main_name if case["tname"] != "own" else "main." + case["ext"]
                os.makedirs(out2)
            else:
                out2, main2 = in_dir, "again." + case["ext"]
            real2 = {n: os.path.realpath(os.path.join(out2, n)) for n in [main2] + sub_names}
            os.chdir(cwd)
            before2 = snapshot(root)
            exc2, st2 = call_save(parser, cfg, os.path.join(out2, main2), kwargs, None)
            cwd_after2 = os.getcwd()
            os.chdir(root)
            after2 = snapshot(root)
            case2 = case if out2 == in_dir else dict(case, layout="other")  # (only names the place in signatures)
            devs2, obs2 = judge(case2, comps, mode, root, out2, main2, sub_names, real2, before2, after2, exc2, st2, cwd, cwd_after2, reference)
            devs += [(f"{mode}:second-save:{s.split(':', 1)[1]}", d) for s, d in devs2]
            obs["second"] = {"outcome": obs2["outcome"], "roundtrip": obs2["roundtrip"], "exc": obs2["exc"], "changed": obs2["changed"]}
    obs["trace"] = st["trace"]
    obs["n"] = st["n"]
    faulty_serialisation = fault["kind"] == "unser" or (fault["kind"] == "invalid" and case["skip_validation"])
    if faulty_serialisation and any(":changed:" in s for s, _ in devs):
        if twin is None:
            twin = execute(dict(case, fault={"kind": "none"}))["obs"]
        if twin["exc"] == obs["exc"] and twin["changes"] == obs["changes"]:
            devs = [(s, d) for s, d in devs if ":changed:" not in s]
            obs["dominated"] = True
    return {"devs": devs, "obs": obs}


def judge(case, comps, mode, root, out_dir, main_name, sub_names, real_dests, before, after, exc, st, cwd, cwd_after, reference):
    """The statement, clause by clause.  Returns ([(signature, detail)], observation summary)."""
    import jsonargparse

    fault = case["fault"]
    fkind = fault["kind"]
    devs = []
    written = [main_name] + (sub_names if case["multifile"] else [])  # what this call is entitled to write
    # a destination is identified by its path next to the target and by the file it resolved to before the call
    # (a pre-existing symlink is written through)
    lexical = {os.path.normpath(os.path.relpath(os.path.join(out_dir, n), root)): n for n in written}
    resolved = {os.path.normpath(os.path.relpath(real_dests[n], root)): n for n in written}
    changes = diff(before, after)

    def role(r):
        n = lexical.get(r) or resolved.get(r)
        return "other" if n is None else "target" if n == main_name else "subfiles"

    by_role = {"target": [], "subfiles": [], "other": []}
    for r, what in changes:
        by_role[role(r.rstrip("/"))].append(f"{r}: {what}")
    exc_txt = None if exc is None else f"{type(exc).__name__}: {str(exc)[:160]}"
    summary = f"save -> {exc_txt or 'returned'}; changes: {changes}"

    # trusted-base check of the fault model: every changed file went through the interposed open
    for r, what in changes:
        if not r.endswith("/") and what != "removed" and os.path.realpath(os.path.join(root, r)) not in st["opened_w"]:
            devs.append((f"{mode}:file-changed-without-open", summary))

    # clause 0: files that this call has no business with are never touched (inputs, bystander, sub-file names in
    # single-file mode), whatever happens
    if by_role["other"]:
        devs.append((f"{mode}:unrelated-path-changed:{fkind}", summary))

    # clause 1: without overwrite=True no existing file is modified or replaced - under every fault
    if not case["overwrite"]:
        for r, what in changes:
            if r in before[0] and role(r) != "other":
                devs.append((f"{mode}:existing-file-changed-without-overwrite:{role(r)}", summary))

    # clause 2: failure because the configuration is invalid / cannot be serialised => nothing created/truncated/changed
    existing = set(before[0])
    refusal_possible = (not case["overwrite"]) and any(r in existing for r in lexical)
    where = fault_where(fault, comps)
    features = []
    if case["multifile"] and any(c.nonplain for c in comps):
        features.append("nonplain-value-in-subfile-config")
    if case["multifile"] and case["names"] == "shared" and sum(1 for c in comps if c.dests) >= 2:
        features.append("shared-subfile-names")
    if case["multifile"] and case["tname"] != "own":
        features.append("target-named-like-subfile")
    if fkind in ("invalid", "unser"):
        # with skip_validation=True nothing is validated: a bad value can only make the serialisation fail
        as_invalid = fkind == "invalid" and not case["skip_validation"]
        label = f"{'invalid' if as_invalid else 'unserialisable'}@{where}"
    else:
        label = "valid-config-not-saved:" + ("+".join(features) or "plain")
    outcome = "saved"
    if exc is not None:
        outcome = "failed"
        if fkind == "oserror":
            outcome = "io-error"
        else:
            if refusal_possible:
                # clause 2b: the call had to be refused (a destination exists, overwrite=False) - alone or together with
                # an invalid / unserialisable value; whichever of the two made it fail, nothing may have been written
                outcome = "refused-or-failed"
                label = "refused" if fkind == "none" else label + "+existing-destination"
            if by_role["target"] or by_role["subfiles"]:
                # root-cause attribution: the target counts as affected when it was opened for writing, even if
                # truncating it changed nothing because it was empty before
                target_opened = real_dests[main_name] in st["opened_w"]
                top = "target" if by_role["target"] or target_opened else "subfiles"
                devs.append((f"{mode}:{label}:changed:{top}", summary))
    elif fkind == "unser" and fault.get("how") == "opaque" and fault["tag"] != "any":
        # validation is off and the option's own serialiser turned the object into something writable (e.g. a path
        # option writes str(value)): the user asked for no checking, nothing is demanded of a save that returns
        outcome = "saved-despite-fault"
    elif fkind == "unser" or (fkind == "invalid" and not case["skip_validation"]):
        devs.append((f"{mode}:{label}:no-exception", summary))
        outcome = "saved-despite-fault"
    elif fkind == "oserror":
        devs.append((f"{mode}:oserror-swallowed:{fault['op']}", summary))
        outcome = "saved-despite-fault"

    # clause 3: success => parse_path(saved) reproduces the configuration (sub-file configs and path contents included)
    roundtrip = None
    if exc is None and fkind == "none":
        target_abs = os.path.join(out_dir, main_name)
        shared = "shared-subfile-names" in features
        tnamed = "target-named-like-subfile" in features
        # with colliding names which content is lost depends on the write order / the kind only: one class per collision
        loc = ("" if case["layout"] == "other" or tnamed else ":same-dir") + (":shared-subfile-names" if shared else "")
        loc += ":target-named-like-subfile" if tnamed else ""
        loc += ":edited-after-loading" if case.get("edit") else ""
        shared = shared or tnamed
        if not os.path.isfile(target_abs) or os.path.getsize(target_abs) == 0:
            devs.append((f"{mode}:success-without-target", summary))
            roundtrip = "no-target"
        else:
            os.chdir(root)
            try:
                again = build_parser(comps).parse_path(target_abs)
                got = canon_cfg(jsonargparse.strip_meta(again), jsonargparse)
            except Exception as ex:  # noqa: BLE001
                sig = f"{mode}:roundtrip-wrong{loc}" if shared else f"{mode}:roundtrip-fails{loc}"
                devs.append((sig, f"{summary}; parse_path(saved) -> {type(ex).__name__}: {str(ex)[:300]}"))
                roundtrip = "fails"
            else:
                if got != reference:
                    kinds = []
                    for k in sorted(set(got["ns"]) | set(reference["ns"])):
                        if got["ns"].get(k) != reference["ns"].get(k):
                            ck = [c.kind for c in comps if c.key == k]
                            kinds.append(ck[0] if ck else "main")
                    # with colliding sub-file names which sub-config is lost depends on the write order only: one class
                    sig = f"{mode}:roundtrip-wrong{loc}" if shared else f"{mode}:roundtrip-differs@{'+'.join(sorted(set(kinds)))}{loc}"
                    devs.append(
                        (
                            sig,
                            f"{summary}; saved config re-parses to {json.dumps(got)[:400]} instead of {json.dumps(reference)[:400]}",
                        )
                    )
                    roundtrip = "differs"
                else:
                    roundtrip = "equal"
            if case["multifile"]:
                missing = [n for n in sub_names if not os.path.isfile(os.path.join(out_dir, n))]
                if missing:
                    devs.append((f"{mode}:success-without-subfile", f"{summary}; missing {missing}"))

    # clause 4: the working directory is restored whatever happens
    if os.path.realpath(cwd_after) != os.path.realpath(cwd):
        devs.append((f"{mode}:cwd-not-restored:{fkind}", f"{summary}; cwd {cwd_after} instead of {cwd}"))

    obs = {
        "outcome": outcome,
        "exc": None if exc is None else type(exc).__name__,
        "roundtrip": roundtrip,
        "changed": {k: len(v) for k, v in by_role.items()},
        "changes": changes,
        "refusal_possible": refusal_possible,
    }
    seen, uniq = set(), []  # one deviation per signature per case
    for s, d in devs:
        if s not in seen:
            seen.add(s)
            uniq.append((s, d))
    return uniq, obs


def run_case(case):
    res = execute(case)
    return [{"signature": s, "detail": d} for s, d in res["devs"]]


# ------------------------------------------------------------------------------------------------------------
# worker: one base configuration, every failure point


def run_base(base):
    """Execute the fault-free case of `base`, then every single failure point derived from it."""
    from mc.core import case_id

    base = full_case(base)
    comps = components(base)
    out = {"cases": 0, "devs": [], "ids": [], "counts": {}, "sample": None, "nontrivial": 0}
    first_obs = {}

    def one(fault, saves=1, edit=None):
        case = dict(base)
        case["fault"] = fault
        case["saves"] = saves
        case["edit"] = edit
        res = execute(case, twin=first_obs.get("obs"))
        slim = slim_case(case)
        out["cases"] += 1
        out["ids"].append(int(case_id(slim), 16))
        o = res["obs"]
        nontrivial = fault["kind"] != "none" or bool(case["pre"]) or case["layout"] != "other" or any(c.dests for c in comps) or bool(edit)
        out["nontrivial"] += 1 if nontrivial else 0
        keys = [
            f"outcome:{fault['kind']}:{o['outcome']}",
            f"mode:{'multi' if case['multifile'] else 'single'}:{o['outcome']}",
        ]
        if o["roundtrip"]:
            keys.append(f"roundtrip:{o['roundtrip']}")
            keys.append(f"roundtrip-in-layout:{case['layout']}:{o['roundtrip']}")
        keys.append(f"layout:{case['layout']}")
        for axis in ("names", "tname", "target", "load", "format", "ext", "pre_content", "exc", "skip_none", "skip_validation"):
            if case[axis] != DEFAULTS[axis]:
                keys.append(f"axis:{axis}={case[axis]}")
        if o["outcome"] == "saved" and case["multifile"]:
            keys.append(f"multi-saved-subfiles:{min(len(destinations(case, comps)[1]), 3)}")
        if o["exc"]:
            keys.append(f"exception:{o['exc']}")
        if o.get("dominated"):
            keys.append("faulty-serialisation-dominated-by-failure-of-fault-free-twin")
        if fault["kind"] == "oserror":
            keys.append(f"oserror:{fault['op']}")
        if o["outcome"] in ("failed", "io-error") and not any(o["changed"].values()):
            keys.append(f"failed-and-unchanged:{fault['kind']}")
        if o["outcome"] == "refused-or-failed":
            keys.append("refused:" + ("something-written-before" if any(o["changed"].values()) else "nothing-written"))
            if fault["kind"] == "none" and case["multifile"]:
                # the target is absent, one sub-file exists and another one does not: every subset of the destinations
                # is enumerated, so whatever the write order, in some of these cases the refusal comes at a sub-file
                # that is written after an absent one (which a refusal that is not decided up front leaves behind)
                main_n, sub_n = destinations(case, comps)
                eff = [n for n in case["pre"] if n in sub_n] if case["layout"] == "other" else []
                if eff and main_n not in case["pre"] and len(eff) < len(sub_n):
                    keys.append("refused-subfile-exists-another-absent")
        if edit:
            where = "sub" if any(c.key == edit["at"][0] and c.from_file for c in comps) else "main"
            keys.append(f"edited:{'multi' if case['multifile'] else 'single'}:{where}:{o['outcome']}:{o['roundtrip']}")
            keys.append(f"edited-with-names:{case['names']}:{'multi' if case['multifile'] else 'single'}")
            keys.append(f"edited-in-layout:{case['layout']}")
        if case["names"] in ("subdir", "abs"):
            keys.append(f"subfile-reference:{case['names']}:{'multi' if case['multifile'] else 'single'}:{fault['kind']}:{o['outcome']}")
        if case["tname"] != "own":
            keys.append(f"tname:{'multi' if case['multifile'] else 'single'}:{fault['kind']}:{o['outcome']}")
        if o["outcome"] == "saved" and case["multifile"] and any(c.from_file and c.kind in SUBCONFIG_KINDS for c in comps):
            keys.append("multi-saved-with-subconfig-file")
        if fault.get("how") == "opaque":
            keys.append(f"opaque:{'any-typed' if fault['tag'] == 'any' else 'validation-off'}:{o['outcome']}")
            if fault_where(fault, comps) == "sub":
                keys.append(f"opaque-in-subfile-config:{o['outcome']}")
        if o.get("second"):
            o2 = o["second"]
            keys.append(f"second-save:{o2['outcome']}")
            keys.append(f"second-save:roundtrip:{o2['roundtrip']}")
            # (counted whatever the outcome: the vacuity guards must not depend on the property holding)
            if case["multifile"] and destinations(case, comps)[1]:
                keys.append(f"second-save-multi-with-subfiles:{o2['roundtrip']}")
            if case["skip_validation"]:
                keys.append(f"second-save-validation-off:{o2['roundtrip']}")
            if case["layout"] != "other":
                keys.append(f"second-save-after-same-dir-layout:{o2['roundtrip']}")
        for k in keys:
            out["counts"][k] = out["counts"].get(k, 0) + 1
        for s, d in res["devs"]:
            out["devs"].append((s, slim, d))
        return res

    # the fault-free case carries the history axis: if the save returns, the same cfg object is saved a second time
    # the `exc` axis only changes WHAT a raising serialiser raises: every case of such a base other than the raising-
    # serialiser ones is literally a case of the default base, so only those (and the fault-free twin) are executed
    only_raising = base["exc"] != DEFAULTS["exc"]
    first = one({"kind": "none"}, saves=1 if only_raising else 2)
    first_obs["obs"] = first["obs"]
    out["sample"] = {"case": slim_case(dict(base, fault={"kind": "none"}, saves=1 if only_raising else 2)), "trace": first["obs"]["trace"], "outcome": first["obs"]["outcome"]}
    points = fault_points(comps, base["skip_validation"])
    if first["obs"]["refusal_possible"] or first["obs"]["exc"]:
        # the call is refused because a destination exists, or the fault-free save of this base fails by itself (two
        # different contents for one destination): whatever class (a)/(b) adds, the call fails with or without it and
        # must leave the tree unchanged (clauses 1, 2, 2b; the fault-free case itself is judged by them), so one
        # representative per class and place is enough (first main key, last sub-config key)
        inv = [f for f in points if f["kind"] == "invalid" and f["how"] == "type"]
        uns = [f for f in points if f["kind"] == "unser"]
        points = [inv[0], inv[-1], uns[0], uns[-1]] if len(inv) > 1 else inv + uns[:1]
        points = [f for i, f in enumerate(points) if f not in points[:i]]
    if only_raising:
        points = [f for f in points if f["kind"] == "unser" and f.get("how") != "opaque"]
    for fault in points:
        one(fault)
    # configurations that were modified after loading: every leaf in turn gets another valid value (no fault); the
    # saved path must parse back to the MODIFIED configuration
    if edit_eligible(base) and first["obs"]["outcome"] == "saved":
        for edit in edit_points(comps, with_main=base["comps"] in EDIT_MAIN_SHAPES):
            one({"kind": "none"}, edit=edit)
    n = first["obs"]["n"]
    for op in ("open", "write", "close"):
        for k in range(1, n[op] + 1 if not only_raising else 0):
            one({"kind": "oserror", "op": op, "k": k})
    # keep the smallest witness per signature (the parent does the same across items)
    best = {}
    for s, c, d in out["devs"]:
        size = len(json.dumps(c, sort_keys=True))
        if s not in best or size < best[s][0]:
            best[s] = (size, c, d)
    out["dev_total"] = len(out["devs"])
    out["devs"] = [(s, c, d) for s, (_, c, d) in sorted(best.items())]
    return out


# ------------------------------------------------------------------------------------------------------------
# the enumerated space


def edit_eligible(base):
    """Bases that are expanded by the edit axis: nothing pre-exists, overwrite only where the save would otherwise be
    refused (onto / next to the loaded files), own target name, no colliding names, every secondary axis at its default."""
    b = full_case(base)
    return (
        not b["pre"]
        and b["overwrite"] == (b["layout"] != "other")
        and b["tname"] == "own"
        and b["names"] != "shared"
        and all(b[k] == DEFAULTS[k] for var in SECONDARY for k in var)
    )


def _subsets(items):
    for r in range(len(items) + 1):
        for sub in itertools.combinations(items, r):
            yield list(sub)


CORE = ["P", "Pt", "C", "F", "D"]
SUBCONFIG_KINDS = ("P", "Pt", "Pe", "N", "C", "Ct", "G")  # a namespace sub-config that multi-file mode writes to its own file
REST = ["Pe", "Pi", "Pti", "N", "Ct", "Fn", "G", "J", "Jn"]


def shapes(tier):
    out = [[]]
    out += [[k] for k in CORE + REST]
    out += [list(p) for p in itertools.permutations(CORE, 2)]
    if tier == "quick":
        out += [["F", "P", "C"], ["P", "F", "Pt"], ["F", "C", "Ct"]]
    else:
        out += [list(p) for p in itertools.permutations(CORE + REST, 2) if not set(p) <= set(CORE)]
        out += [list(p) for p in itertools.permutations(CORE, 3)]
        out += [["N", "F", "G"], ["G", "N", "Pt"], ["F", "N", "Ct"], ["J", "Jn", "F"], ["Jn", "F", "Pe"]]
    return out


def shared_name_shapes(tier):
    if tier == "quick":
        return [["P", "P"], ["P", "C"], ["F", "P"], ["P", "F"], ["C", "D"]]
    kinds = ["P", "C", "D", "F", "G"]
    return [list(p) for p in itertools.product(kinds, repeat=2)] + [["P", "P", "P"], ["F", "P", "C"]]


def target_name_shapes(tier):
    """Shapes on which the target takes the base name of a sub-file: every kind that writes one, alone and in pairs."""
    out = [[k] for k in CORE + REST if k not in ("Pi", "Pti", "Fn")]
    if tier == "quick":
        return out + REPRESENTATIVE[4:]
    return out + [list(p) for p in itertools.permutations(CORE, 2)] + [["F", "P", "C"], ["N", "F", "G"]]


REPRESENTATIVE = [[], ["P"], ["F"], ["C"], ["F", "P"], ["F", "Pt"], ["P", "C"], ["D", "F"]]
EDIT_MAIN_SHAPES = [[], ["P"], ["F"], ["F", "P"]]  # shapes on which the leaves of the main part are edited too (component leaves: everywhere)
SECONDARY = [
    {"format": "json"},
    {"format": "json_indented"},
    {"ext": "json"},
    {"skip_none": False},
    {"skip_validation": True},
    {"exc": "ValueError"},
    {"exc": "TypeError"},
    {"pre_content": "empty"},
    {"pre_content": "symlink"},
    {"target": "rel"},
    {"target": "relcwd"},
    {"target": "pathobj"},
    {"target": "fileurl"},
    {"load": "argv"},
]


def bases(tier):
    """All base configurations (cases without their failure point), simplest first."""
    out = []
    # (A) core product: shape x mode x overwrite x every subset of pre-existing destinations
    for comps in shapes(tier):
        case = full_case({"comps": comps})
        main, subs = destinations(case, components(case))
        for multifile in (False, True):
            if multifile:
                pres = list(_subsets([main] + subs))
            else:  # only the target can be written; the sub-file names are bystanders that must stay untouched
                pres = [[], [main]] + ([[main] + subs] if subs else [])
            for overwrite in (False, True):
                for pre in pres:
                    out.append({"comps": comps, "multifile": multifile, "overwrite": overwrite, "pre": pre})
    # (B) secondary axes on representative shapes: one at a time around the defaults (quick), all pairs (thorough)
    variants = list(SECONDARY)
    if tier != "quick":
        for a, b in itertools.combinations(SECONDARY, 2):
            if not set(a) & set(b):
                variants.append({**a, **b})
    extended = REPRESENTATIVE + [["N"], ["G"], ["J"], ["Jn"], ["Ct"], ["F", "P", "C"]]
    for var in variants:
        for comps in REPRESENTATIVE if tier == "quick" or len(var) > 1 else extended:
            case = full_case({"comps": comps, **var})
            main, subs = destinations(case, components(case))
            for multifile in (False, True):
                for overwrite in (False, True):
                    for pre in ([], [main] + subs):
                        if overwrite and not pre and tier == "quick":
                            # nothing pre-exists, so nothing can be overwritten or refused: the flag is immaterial here;
                            # overwrite=True x nothing pre-existing stays in the core product (A) for every shape
                            continue
                        if "pre_content" in var and not pre:
                            # what the pre-existing files contain is immaterial when there are none: literally the
                            # base without this axis (enumerated above / as the variant made of the other axis alone)
                            continue
                        out.append({"comps": comps, "multifile": multifile, "overwrite": overwrite, "pre": pre, **var})
    # (C) saving next to / onto the files the configuration was loaded from
    if tier == "quick":
        lay_shapes = [s for s in shapes(tier) if len(s) <= 1] + REPRESENTATIVE[4:]
    else:
        lay_shapes = [s for s in shapes(tier) if len(s) <= 2] + [["F", "P", "C"], ["N", "F", "G"]]
    for comps in lay_shapes:
        for multifile in (False, True):
            for overwrite in (False, True):
                out.append({"comps": comps, "layout": "inplace", "multifile": multifile, "overwrite": overwrite})
                for pre in ([], ["saved.yaml"]):
                    out.append({"comps": comps, "layout": "sibling", "multifile": multifile, "overwrite": overwrite, "pre": pre})
    # (D) sub-files with the same base name in different input directories
    for comps in shared_name_shapes(tier):
        case = full_case({"comps": comps, "names": "shared"})
        main, subs = destinations(case, components(case))
        for multifile in (False, True):
            for overwrite in (False, True):
                for pre in _subsets([main] + subs) if multifile else ([], [main]):
                    out.append({"comps": comps, "names": "shared", "multifile": multifile, "overwrite": overwrite, "pre": pre})
    # (G) how the main file refers to its sub-files: through a sub-directory / by absolute path (the bare name next to
    # the main file is the default everywhere else).  Every kind that has a file, alone; representative pairs in
    # multi-file mode
    for names in ("subdir", "abs"):
        for comps in [[k] for k in CORE + REST if k not in ("Pi", "Pti", "Fn")] + (REPRESENTATIVE[4:] if tier == "quick" else [list(p) for p in itertools.permutations(CORE, 2)]):
            case = full_case({"comps": comps, "names": names})
            main, subs = destinations(case, components(case))
            out.append({"comps": comps, "names": names, "multifile": True, "overwrite": False, "pre": []})
            if tier != "quick":
                out.append({"comps": comps, "names": names, "multifile": True, "overwrite": True, "pre": [main] + subs})
            if len(comps) == 1 or tier != "quick":
                out.append({"comps": comps, "names": names, "multifile": False, "overwrite": False, "pre": []})
    # (F) the target's base name equals the base name of one of the sub-file destinations (every one in turn):
    # multi-file mode wants two different contents in one file.  Layout `other` x mode x overwrite x every subset of
    # pre-existing destinations; layout `sibling` (the target IS the sub-file the configuration was loaded from) in
    # multi-file mode only - in single-file mode the sub-file names are no destinations, and overwriting one of the
    # configuration's own input files on request is the user's business
    for comps in target_name_shapes(tier):
        case = full_case({"comps": comps})
        _, subs = destinations(case, components(case))
        for i in range(len(subs)):
            tn = f"sub{i}"
            for multifile in (False, True):
                if not multifile and tier == "quick" and len(comps) > 1:
                    continue  # single-file mode (where the sub-file names are mere bystanders): singleton shapes only
                for overwrite in (False, True):
                    for pre in _subsets(subs) if multifile else ([], [subs[i]]):
                        out.append({"comps": comps, "tname": tn, "multifile": multifile, "overwrite": overwrite, "pre": pre})
            for overwrite in (False, True):
                out.append({"comps": comps, "tname": tn, "layout": "sibling", "multifile": True, "overwrite": overwrite})
    seen, uniq = set(), []
    for b in out:
        key = json.dumps(b, sort_keys=True)
        if key not in seen:
            seen.add(key)
            uniq.append(b)
    uniq.sort(key=lambda b: (len(b["comps"]), len(json.dumps(b, sort_keys=True))))
    return uniq


def explore(ctx):
    items = bases(ctx.tier)
    total = {"cases": 0, "nontrivial": 0}
    counts, ids = {}, set()
    samples = []
    for res in ctx.pmap(run_base, items, chunk=1):
        total["cases"] += res["cases"]
        total["nontrivial"] += res["nontrivial"]
        ids.update(res["ids"])
        for k, v in res["counts"].items():
            counts[k] = counts.get(k, 0) + v
        for s, c, d in res["devs"]:
            ctx.deviation(s, c, d)
        ctx.deviation_count += res["dev_total"] - len(res["devs"])
        samples.append(res["sample"])
    for k, v in sorted(counts.items()):
        ctx.count(k, v)
    samples.sort(key=lambda s: json.dumps(s, sort_keys=True))
    for s in samples[:: max(1, len(samples) // 8)][:8]:
        ctx.sample(s)

    def c(prefix):
        return sum(v for k, v in counts.items() if k.startswith(prefix))

    all_shapes = shapes(ctx.tier) + shared_name_shapes(ctx.tier)
    ctx.cover(
        evaluations=total["cases"],
        states=len(items),
        transitions=total["cases"] + c("roundtrip:") + c("second-save:roundtrip:"),
        second_saves=c("second-save:roundtrip:"),
        traces_validated_against_impl=total["cases"],
        distinct_nontrivial=min(total["nontrivial"], len(ids)),
        distinct_cases=len(ids),
        rule="a case = one save() call on the real code in a fresh scratch tree with ONE failure point (or none); "
        "states = base configurations (shape x names x layout x mode x overwrite x pre-existing files x secondary "
        "axis), each expanded by every failure point of classes (a),(b) for its shape and every open/write/close seen "
        "in its fault-free run; transitions = save() calls + parse_path round trips; non-trivial = the case has a "
        "failure point, a pre-existing destination, a same-directory layout or at least one sub-file (i.e. it is not "
        "'valid flat config saved into an empty directory'); distinct = distinct case ids; every fault-free case whose "
        "save returned continues with a second save of the same cfg object into another directory (second_saves, "
        "counted in transitions together with its round trip, not in evaluations); fault-free bases with nothing "
        "pre-existing are further expanded by the edit axis (one valid change of one leaf after loading, then one save)",
        exhaustive=True,
        caps_hit=[],
        bounds={
            "shapes": len(all_shapes),
            "component_kinds": sorted({k for s in all_shapes for k in s}),
            "max_components": max(len(s) for s in all_shapes),
            "faults_per_case": 1,
            "saves_per_case": "2 for fault-free cases (same cfg object, second directory), 1 otherwise",
            "unrepresentable_object": "every Any-typed position; every leaf when skip_validation=True",
            "layouts": ["other", "inplace", "sibling"],
            "subfile_reference": "bare name | same base name in different directories | through a sub-directory | absolute path",
            "edited_after_loading": "every non-path leaf in turn gets another valid value (fault-free bases with nothing pre-existing "
            "and every secondary axis at its default; main leaves on %d shapes only)" % len(EDIT_MAIN_SHAPES),
            "target_base_name": "own | that of each sub-file destination in turn (on %d shapes)" % len(target_name_shapes(ctx.tier)),
            "secondary_axes": [sorted(v.items())[0] for v in SECONDARY],
            "secondary_axes_combined": "one at a time" if ctx.quick else "pairs",
        },
        trusted_base=["snapshot()/diff() and canon_cfg() in mc/checks/c18.py", "builtins.open interposition (call_save)"],
    )
    ctx.assume("save() writes local files only through builtins.open (verified per case: every changed file was opened through the interposed open)")
    ctx.assume("single failure point per case; I/O faults fail the whole call (no short writes)")
    ctx.assume("a relative path value that save() does not carry along (single-file mode into another directory) is given in absolute form (C19's territory)")
    ctx.require(c("outcome:none:saved") >= 100, ">= 100 fault-free saves succeeded")
    ctx.require(c("roundtrip:equal") >= 100, ">= 100 successful saves re-parsed to the same configuration")
    ctx.require(c("multi-saved-subfiles:2") + c("multi-saved-subfiles:3") >= 20, ">= 20 successful multi-file saves with >= 2 sub-files")
    ctx.require(c("failed-and-unchanged:invalid") >= 500, ">= 500 invalid configurations rejected with the tree unchanged")
    ctx.require(c("failed-and-unchanged:unser") >= 100, ">= 100 raising serialisers with the tree unchanged")
    ctx.require(c("refused:nothing-written") >= 50, ">= 50 refusals (existing destination, overwrite=False)")
    ctx.require(all(c(f"oserror:{op}") >= 50 for op in ("open", "write", "close")), ">= 50 injected faults for each of open/write/close")
    ctx.require(c("outcome:oserror:io-error") >= 150, ">= 150 injected I/O errors propagated")
    ctx.require(c("mode:single:") >= 500 and c("mode:multi:") >= 500, "both modes explored")
    ctx.require(c("roundtrip-in-layout:inplace:") >= 10 and c("roundtrip-in-layout:sibling:") >= 10, "successful saves next to / onto the loaded files were re-parsed")
    ctx.require(all(c(f"axis:{k}={v}") >= 50 for var in SECONDARY for k, v in var.items()), ">= 50 cases on every secondary axis value")
    ctx.require(c("axis:names=shared") >= 200, ">= 200 cases with colliding sub-file base names")
    ctx.require(c("tname:multi:none:") >= 50 and c("tname:single:none:") >= 20, ">= 50 multi-file / 20 single-file fault-free saves whose target has the base name of a sub-file")
    ctx.require(c("tname:multi:") >= 500, ">= 500 multi-file cases whose target has the base name of a sub-file")
    ctx.require(c("refused-subfile-exists-another-absent") >= 40, ">= 40 refusals where the target is absent, one sub-file exists and another one does not")
    # attempts again (whatever the outcome): sub-file reference spellings, edited configurations, file:// targets
    ctx.require(all(c(f"subfile-reference:{n}:multi:none:") >= 15 and c(f"subfile-reference:{n}:single:none:") >= 10 for n in ("subdir", "abs")), ">= 15 multi-file / 10 single-file fault-free saves for each spelling of the sub-file reference (sub-directory, absolute)")
    ctx.require(c("edited:multi:sub:") >= 50 and c("edited:multi:main:") >= 50 and c("edited:single:") >= 50, ">= 50 configurations edited after loading inside a sub-file config / in the main part (multi-file), >= 50 in single-file mode")
    ctx.require(c("edited-with-names:abs:multi") >= 15 and c("edited-with-names:subdir:multi") >= 15, ">= 15 edited configurations for each non-bare spelling of the sub-file reference")
    ctx.require(c("edited-in-layout:inplace") >= 20 and c("edited-in-layout:sibling") >= 20, ">= 20 edited configurations saved onto / next to the files they were loaded from")
    # guards of the second-save / unrepresentable-object axes count ATTEMPTS (whatever the outcome), so that a tree on
    # which they go wrong is reported as a violation, not as a vacuous run
    ctx.require(c("second-save:roundtrip:") >= 100, ">= 100 second saves of the same cfg object")
    ctx.require(c("second-save-multi-with-subfiles:") >= 50, ">= 50 of them multi-file with at least one sub-file")
    ctx.require(c("second-save-validation-off:") >= 8, ">= 8 of them with skip_validation=True")
    ctx.require(c("second-save-after-same-dir-layout:") >= 10, ">= 10 of them after a save next to / onto the loaded files")
    ctx.require(c("opaque:any-typed:") >= 50, ">= 50 valid configurations with an unrepresentable object at an Any-typed position")
    ctx.require(c("opaque:validation-off:") >= 50, ">= 50 unrepresentable objects with validation off")
    ctx.require(c("opaque-in-subfile-config:") >= 50, ">= 50 unrepresentable objects inside a sub-config that has its own file")
    # outcome-dependent, therefore only decisive for a run that is otherwise clean (a run with deviations is reported
    # as such): without successful multi-file saves of namespace sub-configs the clause 'including configs that were
    # originally loaded from separate sub-files' would never be exercised
    if not ctx.deviations:
        ctx.require(c("multi-saved-with-subconfig-file") >= 50, ">= 50 successful multi-file saves that wrote a namespace sub-config to its own file")
    ctx.require(c("exception:") >= 1000 and len([k for k in counts if k.startswith("exception:")]) >= 4, ">= 4 distinct exception types observed")
